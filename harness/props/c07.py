"""
C07 — nothing structurally invalid is exported.

Every case is a metainfo *recipe* (harness/impl/recipes.py): a valid metainfo with 0–3 mutations
at any depth, or the metainfo reached by a sequence of attribute assignments.  The real exports
(validate, dump, write_stream, write, infohash, magnet, is_ready) run on freshly built objects;
the Lean model (`Torf.Validate`) and the executable specification (`Torf.Sound.Sound`, evaluated
by the driver on the bytes the implementation produced) see the same value.

  I ∉ S : an export returned bytes that are not Sound, or raised something that is not
          MetainfoError, or is_ready ≠ (validate() succeeds)          -> violation / finding
  I ≠ M : (under hyp) result class or bytes differ from the model      -> correspondence break
"""
import datetime
import hashlib
import io
import json
import math
import os
import shutil
import urllib.parse

from harness import common
from harness.impl import recipes as R
from harness.impl import c07_worlds as W

K = 16384
OPS = ('validate', 'dump', 'write_stream', 'write', 'infohash', 'magnet', 'is_ready')
RULE = ('metainfo recipes = valid single/multi-file metainfo + 0..3 mutations at any depth (delete key, '
        'value from a type table incl. bool/float/NaN/inf/2^53/10^400/bytes/tuple/dict/None/opaque, '
        'negate/fractionalise/compensate lengths, both/neither of length+files, non-str keys, container '
        'swaps list->tuple/dict/bytes, bad URLs, md5sum, pieces length) + metainfo reached by random '
        'attribute-assignment sequences + content-path cases (classic tree damage, and 78 kinds of worlds '
        'created after the path was set: every kind of answer os.stat can give for a listed path or the content '
        'root, each kind once per run + random ones) + values outside PyVal (set, generator, '
        'bytearray, cyclic, deep; implementation vs specification only); non-trivial = at least one '
        'mutation/assignment applied; distinct = distinct canonical recipe JSON')


# ---------------------------------------------------------------------------------------------
# reference URL predicate (the specification's notion of "well-formed URL"; deliberately NOT
# torf.utils.is_url, so that a change of is_url is seen)
def ref_is_url(s):
    try:
        u = urllib.parse.urlparse(s)
        u.port
    except Exception:
        return False
    return bool(u.scheme) and bool(u.netloc)


def url_table(recipe):
    out = []
    for s in sorted(R.str_leaves(recipe)):
        try:
            out.append([s.encode('utf8').hex(), ref_is_url(s)])
        except UnicodeEncodeError:
            pass
    for _, n in R.walk(recipe):     # lone surrogates (outside PyVal) are exported with errors='replace'
        if n['t'] == 'x' and n['k'] == 'surrogate':
            s = R.build(n)
            out.append([s.encode('utf8', errors='replace').hex(), ref_is_url(s)])
    return out


# ---------------------------------------------------------------------------------------------
# generator
GOOD_URLS = ['http://a', 'https://tracker.example.org:8080/announce', 'udp://t.co:1337', 'http://[::1]:80/x',
             'http://a b/c', 'x://y']
BAD_URLS = ['', 'nope', 'http://', '//host', 'http://a:99999', 'http://[::1', 'http://a:b', ':', 'http:/a',
            'http://a:-1']
NAMES = ['a', 'Name', '', 'ä/ö', 'x' * 40, 'a\x00b', '..']


def type_table(rng):
    return rng.choice([
        R.N(), R.B(True), R.B(False), R.I(0), R.I(1), R.I(-1), R.I(5), R.I(K), R.I(2 * K), R.I(-K),
        R.I(2 ** 53), R.I(2 ** 53 + 1), R.I(10 ** 400), R.I(-10 ** 400), R.I(10 ** 4299), R.I(10 ** 4300),
        R.F(1.0), R.F(1.5), R.F(-0.0), R.F(-1.0), R.F(float('nan')), R.F(float('inf')), R.F(float('-inf')),
        R.F(1e308), R.F(float(K)), R.F(5.0), R.F(2.0 ** 60),
        R.S(''), R.S('a'), R.S(rng.choice(GOOD_URLS)), R.S(rng.choice(BAD_URLS)), R.S('0' * 32), R.S('0' * 32 + '\n'),
        R.Y(b''), R.Y(b'ab'), R.Y(b'\xff\xfe'), R.Y(b'x' * 20), R.Y(b'http://a'),
        R.L([]), R.L([R.I(1)]), R.L([R.S('a')]), R.L([R.L([R.S('http://a')])]), R.L([R.Y(b'a')]),
        R.U([]), R.U([R.S('a')]), R.U([R.S('http://a')]),
        R.D([]), R.D([('a', R.I(1))]), R.D([(R.I(0), R.S('a'))]), R.D([(R.I(0), R.L([R.S('http://a')]))]),
        R.D([(R.I(0), R.D([('length', R.I(5)), ('path', R.L([R.S('a')]))]))]),
        R.D([(R.B(False), R.S('http://a'))]), R.D([(R.F(0.0), R.S('a'))]), R.D([(R.Y(b'k'), R.I(1))]),
        R.DT(2020, 1, 2, 3, 4, 5), R.DT(1, 1, 1), R.DT(9999, 12, 31, 23, 59, 59), R.DT(1970, 1, 1, tz=0),
        R.DT(9999, 12, 31, 23, 59, 59, tz=-1380), R.O('object'), R.O('complex'),
    ])


def outside_table(rng):
    return rng.choice([
        R.X('set', [R.I(1), R.I(2)]), R.X('set', [R.S('http://a')]), R.X('frozenset', []),
        R.X('gen', []), R.X('gen', [R.L([R.S('http://a')])]), R.X('gen', [R.S('a')]),
        R.X('gen', [R.D([('length', R.I(5)), ('path', R.L([R.S('a')]))])]),
        R.X('bytearray', b'x'.hex() * 20), R.X('bytearray', ''), R.X('range', 2), R.X('range', 0),
        R.X('odict', [[R.S('length'), R.I(5)], [R.S('path'), R.L([R.S('a')])]]),
        R.X('odict', [[R.I(0), R.D([('length', R.I(5)), ('path', R.L([R.S('a')]))])]]),
        R.X('surrogate', '\\udc80'), R.X('surrogate', 'http://a\\udc80'),
    ])


def pieces_for(size, pl):
    n = -(-size // pl)
    return bytes((i * 7 + 1) % 256 for i in range(20 * n))


def base_metainfo(rng, multi=None):
    pl = K * rng.choice([1, 1, 1, 2, 3, 64])
    multi = rng.random() < 0.6 if multi is None else multi
    info = [('name', R.S(rng.choice(NAMES)) if rng.random() < 0.9 else R.Y(rng.choice([b'n', b'\xff'])))]
    info.append(('piece length', R.I(pl)))
    if multi:
        n = rng.choice([1, 1, 2, 2, 3, 4])
        sizes = [rng.choice([0, 1, 5, pl - 1, pl, pl + 1, rng.randrange(0, 3 * pl)]) for _ in range(n)]
        if sum(sizes) == 0:
            sizes[0] = 1 + rng.randrange(pl)
        files = []
        for i, s in enumerate(sizes):
            comps = [R.S(f'd{rng.randrange(2)}') for _ in range(rng.choice([0, 0, 1, 2]))] + [R.S(f'f{i}')]
            if rng.random() < 0.05:
                comps = [R.Y(b'f%d' % i)]
            ln = rng.choice([R.I(s)] * 8 + [R.F(float(s)), R.B(True) if s == 1 else R.I(s)])
            ent = [('length', ln), ('path', R.L(comps) if rng.random() < 0.9 else R.U(comps))]
            if rng.random() < 0.15:
                ent.append(('md5sum', R.S(rng.choice(['0' * 32, 'abcdefABCDEF0123456789abcdef0123']))))
            files.append(R.D(ent))
        info.append(('files', R.L(files) if rng.random() < 0.9 else R.U(files)))
        size = sum(sizes)
    else:
        size = rng.choice([1, 5, pl - 1, pl, pl + 1, 2 * pl, rng.randrange(1, 4 * pl)])
        info.append(('length', rng.choice([R.I(size)] * 8 + [R.F(float(size))])))
        if rng.random() < 0.15:
            info.append(('md5sum', R.S('0' * 32)))
    info.append(('pieces', R.Y(pieces_for(size, pl))))
    if rng.random() < 0.3:
        info.append(('private', rng.choice([R.B(True), R.B(False), R.I(1), R.I(0), R.I(7)])))
    if rng.random() < 0.15:
        info.append(('source', R.S('src')))
    rng.shuffle(info)
    top = [('info', R.D(info))]
    if rng.random() < 0.5:
        top.append(('announce', R.S(rng.choice(GOOD_URLS))))
    if rng.random() < 0.4:
        tiers = [R.L([R.S(rng.choice(GOOD_URLS)) for _ in range(rng.choice([1, 1, 2]))])
                 for _ in range(rng.choice([1, 2, 3]))]
        top.append(('announce-list', R.L(tiers)))
    if rng.random() < 0.4:
        top.append(('creation date', rng.choice([R.I(1600000000), R.I(0), R.DT(2020, 1, 2, 3, 4, 5), R.B(True)])))
    if rng.random() < 0.3:
        top.append(('comment', R.S('c')))
    if rng.random() < 0.3:
        top.append(('created by', R.S('torf')))
    if rng.random() < 0.25:
        top.append(('url-list', R.L([R.S(rng.choice(GOOD_URLS)) for _ in range(rng.choice([1, 2]))])))
    if rng.random() < 0.1:
        top.append(('httpseeds', R.L([R.S('http://seed')])))
    if rng.random() < 0.2:
        top.append((rng.choice(['x', 'zz', 'Info', 'a b', 'é']), type_table(rng)))
    rng.shuffle(top)
    return R.D(top)


def _num_of(r):
    if r['t'] == 'i':
        return int(R.build(r))
    if r['t'] == 'B':
        return int(r['v'])
    if r['t'] == 'f':
        v = R.build(r)
        return v if v == v and abs(v) != float('inf') else None
    return None


def mutate(md, rng, outside=False):
    """one mutation at a random depth; returns (recipe, label)"""
    nodes = list(R.walk(md))
    info = R.dget(md, 'info')
    kind = rng.choice(['table', 'table', 'table', 'delete', 'delete', 'number', 'number', 'addkey', 'container',
                       'lengthfiles', 'pieces', 'url', 'compensate', 'deepkey', 'md5', 'announce-list'])
    if outside:
        kind = 'outside'
    if kind in ('table', 'outside'):
        cand = [p for p, n in nodes if p]
        if not cand:
            return md, 'none'
        p = rng.choice(cand)
        new = outside_table(rng) if kind == 'outside' else type_table(rng)
        return R.replace(md, p, new), f'{kind}:{new["t"]}'
    if kind == 'delete':
        cand = [p for p, n in nodes if n['t'] == 'd' and n['v']]
        if not cand:
            return md, 'none'
        p = rng.choice(cand)
        n = R.get(md, p)
        vs = list(n['v'])
        del vs[rng.randrange(len(vs))]
        return R.replace(md, p, {'t': 'd', 'v': vs}), 'delete'
    if kind == 'number':
        cand = [p for p, n in nodes if n['t'] in ('i', 'f', 'B')]
        if not cand:
            return md, 'none'
        p = rng.choice(cand)
        v = _num_of(R.get(md, p))
        if v is None:
            return md, 'none'
        new = rng.choice([R.I(-int(v)), R.F(float(v) + 0.5) if abs(v) < 2 ** 50 else R.I(int(v) + 1),
                          R.I(int(v) + 1), R.I(int(v) - 1), R.F(float(v)) if abs(v) < 2 ** 1000 else R.I(0),
                          R.I(int(v) + K), R.I(int(v) * 2), R.I(0), R.B(bool(v)), R.I(int(v) + 2 ** 53),
                          R.I(int(v) * 10 ** 400), R.S(str(v) if abs(v) < 10 ** 100 else 'big'), R.I(int(v) + 20)])
        return R.replace(md, p, new), 'number'
    if kind == 'addkey':
        cand = [p for p, n in nodes if n['t'] == 'd']
        if not cand:
            return md, 'none'
        p = rng.choice(cand)
        n = R.get(md, p)
        key = rng.choice([R.I(0), R.I(1), R.Y(b'info'), R.Y(b'k'), R.N(), R.B(True), R.F(1.5), R.U([R.S('a')]),
                          R.S('length'), R.S('files'), R.S('pieces'), R.S('zzz'), R.S(''), R.S('announce'),
                          R.S('url-list'), R.S('private'), R.S('creation date'), R.S('md5sum'), R.S('announce-list')])
        if any(json.dumps(k, sort_keys=True) == json.dumps(key, sort_keys=True) for k, _ in n['v']):
            return md, 'none'
        vs = list(n['v']) + [[key, type_table(rng)]]
        return R.replace(md, p, {'t': 'd', 'v': vs}), 'addkey:' + key['t']
    if kind == 'container':
        cand = [p for p, n in nodes if n['t'] in ('l', 'u')]
        if not cand:
            return md, 'none'
        p = rng.choice(cand)
        n = R.get(md, p)
        how = rng.choice(['tuple', 'list', 'dict', 'dictbool', 'bytes', 'empty', 'dup', 'dictrev'])
        if how == 'tuple':
            new = R.U(n['v'])
        elif how == 'list':
            new = R.L(n['v'])
        elif how == 'dict':
            new = {'t': 'd', 'v': [[R.I(i), x] for i, x in enumerate(n['v'])]}
        elif how == 'dictrev':
            new = {'t': 'd', 'v': [[R.I(i), x] for i, x in reversed(list(enumerate(n['v'])))]}
        elif how == 'dictbool':
            keys = [R.B(False), R.F(1.0), R.I(2), R.I(3), R.I(4)]
            new = {'t': 'd', 'v': [[keys[i], x] for i, x in enumerate(n['v'][:5])]}
        elif how == 'bytes':
            new = R.Y(b'ab' if n['v'] else b'')
        elif how == 'empty':
            new = {'t': n['t'], 'v': []}
        else:
            new = {'t': n['t'], 'v': list(n['v']) + list(n['v'][:1])}
        return R.replace(md, p, new), 'container:' + how
    if kind == 'lengthfiles' and info is not None and info['t'] == 'd':
        how = rng.choice(['both', 'neither', 'swap'])
        ln, fl = R.dget(info, 'length'), R.dget(info, 'files')
        if how == 'both':
            ni = R.dset(info, 'length', ln or R.I(5))
            ni = R.dset(ni, 'files', fl or R.L([R.D([('length', R.I(5)), ('path', R.L([R.S('a')]))])]))
        elif how == 'neither':
            ni = R.dset(R.dset(info, 'length', None), 'files', None)
        else:
            if ln is not None:
                ni = R.dset(R.dset(info, 'length', None), 'files',
                            R.L([R.D([('length', ln), ('path', R.L([R.S('a')]))])]))
            elif fl is not None and fl['t'] in ('l', 'u'):
                tot = sum((_num_of(R.dget(f, 'length')) or 0) if f['t'] == 'd' and R.dget(f, 'length') else 0
                          for f in fl['v'])
                ni = R.dset(R.dset(info, 'files', None), 'length', R.I(int(tot)))
            else:
                return md, 'none'
        return R.dset(md, 'info', ni), 'lengthfiles:' + how
    if kind == 'pieces' and info is not None and info['t'] == 'd':
        ps = R.dget(info, 'pieces')
        cur = R.build(ps) if ps is not None and ps['t'] == 'b' else b''
        new = rng.choice([R.Y(b''), R.Y(cur + b'x'), R.Y(cur + b'x' * 20), R.Y(cur[:-20]), R.Y(cur[:-1]),
                          R.S('x' * 20), R.L([R.I(1)] * 20), R.Y(cur * 2)])
        return R.dset(md, 'info', R.dset(info, 'pieces', new)), 'pieces'
    if kind == 'url':
        cand = [p for p, n in nodes if n['t'] == 's' and ref_is_url(n['v'])]
        if not cand:
            return R.dset(md, 'announce', R.S(rng.choice(BAD_URLS))), 'url:announce'
        return R.replace(md, rng.choice(cand), R.S(rng.choice(BAD_URLS + GOOD_URLS))), 'url'
    if kind == 'compensate' and info is not None and info['t'] == 'd':
        fl = R.dget(info, 'files')
        if fl is not None and fl['t'] in ('l', 'u') and len(fl['v']) >= 2 and all(f['t'] == 'd' for f in fl['v']):
            a, b = fl['v'][0], fl['v'][1]
            la, lb = _num_of(R.dget(a, 'length') or R.N()), _num_of(R.dget(b, 'length') or R.N())
            if la is not None and lb is not None:
                d = rng.choice([1, 5, K, int(la) + 1, 0.5])
                if d == 0.5 and max(abs(la), abs(lb)) >= 2 ** 1000:
                    d = 1           # not representable as float
                if d == 0.5:
                    na, nb = R.F(float(la) + 0.5), R.F(float(lb) - 0.5)
                else:
                    na, nb = R.I(int(la) - d), R.I(int(lb) + d)
                vs = [R.dset(a, 'length', na), R.dset(b, 'length', nb)] + fl['v'][2:]
                return R.dset(md, 'info', R.dset(info, 'files', {'t': fl['t'], 'v': vs})), 'compensate'
        return md, 'none'
    if kind == 'deepkey':
        val = type_table(rng)
        for _ in range(rng.choice([1, 2, 5, 30])):
            val = rng.choice([R.L([val]), R.D([('k', val)]), R.U([val, R.I(1)])])
        return R.dset(md, rng.choice(['x', 'deep']), val), 'deepkey'
    if kind == 'md5' and info is not None and info['t'] == 'd':
        v = rng.choice([R.S('0' * 32), R.S('0' * 31), R.S('0' * 33), R.S('g' * 32), R.S('0' * 32 + '\n'),
                        R.S('0' * 32 + '\n\n'), R.S('\n' + '0' * 32), R.Y(b'0' * 32), R.S('A' * 32), R.I(5), R.S('')])
        fl = R.dget(info, 'files')
        if fl is not None and fl['t'] in ('l', 'u') and fl['v'] and fl['v'][0]['t'] == 'd' and rng.random() < 0.6:
            vs = [R.dset(fl['v'][0], 'md5sum', v)] + fl['v'][1:]
            return R.dset(md, 'info', R.dset(info, 'files', {'t': fl['t'], 'v': vs})), 'md5:file'
        return R.dset(md, 'info', R.dset(info, 'md5sum', v)), 'md5:info'
    if kind == 'announce-list':
        v = rng.choice([R.S('http://a'), R.L([R.S('http://a')]), R.L([R.L([R.S('nope')])]), R.L([R.Y(b'http://a')]),
                        R.D([(R.I(0), R.L([R.S('http://a')]))]), R.L([R.D([(R.I(0), R.S('http://a'))])]),
                        R.L([R.L([]), R.L([R.S('http://b')])]), R.L([]), R.U([R.U([R.S('http://a')])]),
                        R.L([R.L([R.S('http://a'), R.I(5)])]), R.Y(b''), R.Y(b'ab'), R.L([R.S('')]), R.N(),
                        R.L([R.L([R.L([R.S('http://a')])])])])
        return R.dset(md, 'announce-list', v), 'announce-list'
    return md, 'none'


def gen_case(rng, outside=False):
    md = base_metainfo(rng)
    labels = []
    nm = rng.choice([0, 1, 1, 1, 1, 2, 2, 3])
    if outside:
        nm = max(nm, 1)
    for k in range(nm):
        try:
            md, lab = mutate(md, rng, outside=outside and k == 0)
        except OverflowError:      # float() of a huge int inside a mutation recipe
            lab = 'none'
        if lab != 'none':
            labels.append(lab)
    return {'md': md, 'labels': labels, 'kind': 'outside' if outside else f'mut{len(labels)}'}


SETTERS = ['name', 'private', 'comment', 'created_by', 'source', 'creation_date', 'trackers', 'webseeds',
           'httpseeds', 'piece_size', 'randomize_infohash', 'metainfo-set', 'metainfo-del']


def gen_history(rng):
    ops = []
    for _ in range(rng.choice([1, 2, 3, 5, 8])):
        a = rng.choice(SETTERS)
        if a == 'name':
            v = rng.choice([R.S('n'), R.N(), R.I(5), R.S(''), R.Y(b'x')])
        elif a == 'private':
            v = rng.choice([R.B(True), R.B(False), R.N(), R.I(0), R.S('yes')])
        elif a in ('comment', 'created_by', 'source'):
            v = rng.choice([R.S('c'), R.N(), R.I(5), R.L([])])
        elif a == 'creation_date':
            v = rng.choice([R.I(1600000000), R.N(), R.DT(2020, 1, 2), R.F(1.5), R.S('x'), R.I(10 ** 18)])
        elif a == 'trackers':
            v = rng.choice([R.N(), R.S('http://a'), R.L([R.S('http://a'), R.S('http://b')]), R.S('nope'),
                            R.L([R.L([R.S('http://a'), R.S('http://b')]), R.L([R.S('http://c')])]), R.I(5), R.L([])])
        elif a in ('webseeds', 'httpseeds'):
            v = rng.choice([R.N(), R.S('http://a'), R.L([R.S('http://a'), R.S('http://b')]), R.S('nope'), R.I(5), R.L([])])
        elif a == 'piece_size':
            v = rng.choice([R.I(K), R.I(2 * K), R.I(K + 1), R.N(), R.I(0), R.I(K * 4), R.S('x'), R.I(-K)])
        elif a == 'randomize_infohash':
            v = R.B(rng.random() < 0.5)
        elif a == 'metainfo-set':
            v = [rng.choice(['info', 'top']), rng.choice(['length', 'files', 'pieces', 'name', 'piece length',
                                                           'announce', 'x', 'private']), type_table(rng)]
        else:
            v = [rng.choice(['info', 'top']), rng.choice(['length', 'files', 'pieces', 'name', 'piece length',
                                                           'announce', 'info'])]
        ops.append([a, v])
    return {'base': base_metainfo(rng), 'ops': ops, 'kind': 'history', 'labels': [o[0] for o in ops]}


def gen_fs_case(rng):
    """content path set: metainfo consistent with a real tree, then tree and/or metainfo disturbed"""
    multi = rng.random() < 0.6
    pl = K
    if multi:
        n = rng.choice([1, 2, 3])
        files = [{'comps': ([f'd{rng.randrange(2)}'] if rng.random() < 0.4 else []) + [f'f{i}'],
                  'size': rng.choice([1, 5, 100, K, K + 1])} for i in range(n)]
    else:
        files = [{'comps': [], 'size': rng.choice([1, 5, K, K + 1])}]
    size = sum(f['size'] for f in files)
    info = [('name', R.S('T')), ('piece length', R.I(pl)), ('pieces', R.Y(pieces_for(size, pl)))]
    if multi:
        ents = []
        for f in files:
            comps = [R.S(c) for c in f['comps']]
            how = rng.choice(['ok'] * 8 + ['bytes', 'empty', 'dict', 'tuple', 'float', 'nul', 'abs', 'dotdot', 'extra'])
            if how == 'bytes':
                comps = [R.Y(c['v'].encode()) for c in comps]
            path = R.L(comps)
            if how == 'empty':
                path = R.L([])
            elif how == 'dict':
                path = {'t': 'd', 'v': [[R.I(i), c] for i, c in enumerate(comps)]}
            elif how == 'tuple':
                path = R.U(comps)
            elif how == 'nul':
                path = R.L(comps + [R.S('a\x00b')])
            elif how == 'abs':
                path = R.L([R.S('/nonexistent-verif')] + comps)
            elif how == 'dotdot':
                path = R.L([R.S('..'), R.S('T')] + comps)
            elif how == 'extra':
                path = R.L(comps + [R.S('nope')])
            ents.append(R.D([('length', R.F(float(f['size'])) if how == 'float' else R.I(f['size'])), ('path', path)]))
        info.append(('files', R.L(ents)))
    else:
        info.append(('length', rng.choice([R.I(size), R.I(size), R.F(float(size)), R.B(True) if size == 1 else R.I(size)])))
    md = R.D([('info', R.D(info))])
    disturb = rng.choice(['none', 'none', 'none', 'remove-file', 'resize', 'file-to-dir', 'root-to-file',
                          'root-to-dir', 'root-missing', 'meta-length', 'mutate'])
    if disturb == 'meta-length':
        md, _ = mutate(md, rng.__class__(rng.random()), False) if False else (md, None)
        nodes = [p for p, n in R.walk(md) if n['t'] == 'i' and p and int(R.build(n)) not in (pl,)]
        if nodes:
            p = rng.choice(nodes)
            md = R.replace(md, p, R.I(int(R.build(R.get(md, p))) + rng.choice([1, -1, K])))
    elif disturb == 'mutate':
        try:
            md, _ = mutate(md, rng)
        except OverflowError:
            pass
    return {'md': md, 'fs': {'multi': multi, 'files': files, 'disturb': disturb, 'which': rng.randrange(len(files))},
            'kind': 'fs', 'labels': ['fs:' + disturb]}


def gen_world_case(rng, world=None, multi=None, mutate_p=0.25, layout=None):
    """content path set, then the world changes: a listed path (or the content root) for which the OS
    answers something else than "regular file of the listed size" — see harness/impl/c07_worlds.py"""
    if world is None:
        multi = rng.random() < 0.7 if multi is None else multi
        world = rng.choice(W.FILE_WORLDS + W.ROOT_WORLDS if multi else W.ROOT_WORLDS)
    elif multi is None:
        multi = world in W.FILE_WORLDS or rng.random() < 0.5
    files = layout or W.layout(rng, multi)
    md = W.base_md(files, multi)
    wd = W.describe(rng, world, files, multi)
    labels = ['world:' + world]
    if rng.random() < mutate_p:
        try:
            md, lab = mutate(md, rng)
            if lab != 'none':
                labels.append(lab)
        except OverflowError:
            pass
    return {'md': md, 'fs': {'multi': multi, 'files': files, 'disturb': 'none', 'which': wd['entry']['which'],
                             'world': wd},
            'kind': 'fs', 'labels': labels}


def world_sweep(rng, mutate_p=0.0):
    """every world once: file worlds on a multi-file torrent, root worlds on both kinds"""
    out = [gen_world_case(rng, w, True, mutate_p) for w in W.FILE_WORLDS]
    for w in W.ROOT_WORLDS:
        out.append(gen_world_case(rng, w, True, mutate_p))
        out.append(gen_world_case(rng, w, False, mutate_p))
    return out


def worlds_around(rng, case):
    """the metainfo and layout of `case` (which has a content path) in every world, for every listed file"""
    fs = case.get('fs')
    if not fs:
        return []
    out = []
    multi, files = fs['multi'], fs['files']
    for w in (W.FILE_WORLDS + W.ROOT_WORLDS if multi else W.ROOT_WORLDS):
        for _ in range(len(files) if w in W.FILE_WORLDS else 1):
            wd = W.describe(rng, w, files, multi)
            out.append({'md': case['md'], 'fs': {'multi': multi, 'files': files, 'disturb': 'none',
                                                 'which': wd['entry']['which'], 'world': wd},
                        'kind': 'fs', 'labels': ['world:' + w, 'around-break']})
    return out


FIXED = [
    # (label, top extras, info extras)  — the candidate list of DESIGN §7 C07 / §8
    ('files-mapping', {}, {'files': R.D([(R.I(0), R.D([('length', R.I(5)), ('path', R.L([R.S('a')]))]))])}),
    ('files-mapping-empty', {}, {'files': R.D([])}),
    ('files-mapping-strkey', {}, {'files': R.D([('a', R.D([('length', R.I(5)), ('path', R.L([R.S('a')]))]))])}),
    ('neg-compensating', {}, {'files': R.L([R.D([('length', R.I(-5)), ('path', R.L([R.S('a')]))]),
                                             R.D([('length', R.I(10)), ('path', R.L([R.S('b')]))])])}),
    ('float-compensating', {}, {'files': R.L([R.D([('length', R.F(2.5)), ('path', R.L([R.S('a')]))]),
                                               R.D([('length', R.F(2.5)), ('path', R.L([R.S('b')]))])])}),
    ('nan-length', {}, {'length': R.F(float('nan'))}),
    ('inf-length', {}, {'length': R.F(float('inf'))}),
    ('mixed-keys', {'x': R.D([('a', R.I(1)), (R.Y(b'b'), R.I(2))])}, {'length': R.I(5)}),
    ('int-key-top', {}, {'length': R.I(5)}),
    ('inf-value', {'x': R.F(float('inf'))}, {'length': R.I(5)}),
    ('huge-int-value', {'x': R.I(10 ** 5000)}, {'length': R.I(5)}),
    ('huge-int-length', {}, {'length': R.I(10 ** 400)}),
    ('float-sum-overflow', {}, {'files': R.L([R.D([('length', R.F(1.7e308)), ('path', R.L([R.S('a')]))]),
                                               R.D([('length', R.F(1.7e308)), ('path', R.L([R.S('b')]))])])}),
    ('length-2^54+1', {}, {'length': R.I(2 ** 54 + 1), 'piece length': R.I(2 ** 54)}),
    ('piece-length-true', {}, {'length': R.I(5), 'piece length': R.B(True)}),
    ('piece-length-float', {}, {'length': R.I(5), 'piece length': R.F(16384.0)}),
    ('piece-length-huge-float-len', {}, {'length': R.F(5.0), 'piece length': R.I(K * 10 ** 400)}),
    ('pieces-39-bytes', {}, {'length': R.I(5), 'pieces': R.Y(b'x' * 39)}),
    ('pieces-21-bytes', {}, {'length': R.I(5), 'pieces': R.Y(b'x' * 21)}),
    ('pieces-str', {}, {'length': R.I(5), 'pieces': R.S('x' * 20)}),
    ('name-bytes', {}, {'length': R.I(5), 'name': R.Y(b'\xff\xfe')}),
    ('name-int', {}, {'length': R.I(5), 'name': R.I(5)}),
    ('length-true', {}, {'length': R.B(True)}),
    ('length-false', {}, {'length': R.B(False)}),
    ('both', {}, {'length': R.I(5), 'files': R.L([])}),
    ('neither', {}, {}),
    ('al-str', {'announce-list': R.S('http://a')}, {'length': R.I(5)}),
    ('al-list-of-str', {'announce-list': R.L([R.S('http://a')])}, {'length': R.I(5)}),
    ('al-dict', {'announce-list': R.D([(R.I(0), R.L([R.S('http://a')]))])}, {'length': R.I(5)}),
    ('al-tier-dict', {'announce-list': R.L([R.D([(R.I(0), R.S('http://a'))])])}, {'length': R.I(5)}),
    ('url-list-int', {'url-list': R.I(5)}, {'length': R.I(5)}),
    ('url-list-bad', {'url-list': R.L([R.S('nope')])}, {'length': R.I(5)}),
    ('cd-datetime-min', {'creation date': R.DT(1, 1, 1)}, {'length': R.I(5)}),
    ('md5-newline', {}, {'length': R.I(5), 'md5sum': R.S('0' * 32 + '\n')}),
    ('private-str', {}, {'length': R.I(5), 'private': R.S('yes')}),
    ('info-list', {'info': R.L([R.I(1)])}, None),
    ('info-missing', {}, None),
]


def fixed_cases():
    out = []
    for label, top, info in FIXED:
        if info is None:
            md = R.D(list(top.items()))
        else:
            i = {'name': R.S('a'), 'piece length': R.I(K), 'pieces': R.Y(b'x' * 20)}
            i.update(info)
            t = {'info': R.D(list(i.items()))}
            t.update(top)
            md = R.D(list(t.items()))
        if label == 'int-key-top':
            md = {'t': 'd', 'v': md['v'] + [[R.I(1), R.S('x')]]}
        out.append({'md': md, 'labels': [label], 'kind': 'fixed'})
    for k, v in (('cyclic-list', None), ('cyclic-dict', None), ('deep', 5000), ('deep', 90)):
        md = R.D([('info', R.D([('name', R.S('a')), ('piece length', R.I(K)), ('pieces', R.Y(b'x' * 20)),
                                 ('length', R.I(5))])), ('x', R.X(k, v))])
        out.append({'md': md, 'labels': [f'{k}{v or ""}'], 'kind': 'outside'})
    return out


# ---------------------------------------------------------------------------------------------
# real code
def err_kind(torf, e):
    if isinstance(e, torf.MetainfoError):
        return 'metainfo'
    if isinstance(e, torf.WriteError):
        return 'write'
    return 'internal:' + type(e).__name__


def fresh(torf, md_recipe, fs=None, wd=None):
    t = torf.Torrent()
    if fs is not None:
        root = W.build_tree(wd, fs)          # <wd>/P/T, the tree the torrent is created from
        t.path = root
        d = fs.get('disturb', 'none')
        victim = os.path.join(root, *fs['files'][fs['which']]['comps']) if fs['multi'] else root
        if d == 'remove-file' and fs['multi']:
            os.remove(victim)
        elif d == 'resize':
            with open(victim, 'ab') as fh:
                fh.write(b'x')
        elif d == 'file-to-dir' and fs['multi']:
            os.remove(victim)
            os.makedirs(victim)
        elif d == 'root-to-file' and fs['multi']:
            shutil.rmtree(root)
            open(root, 'wb').close()
        elif d == 'root-to-dir' and not fs['multi']:
            os.remove(root)
            os.makedirs(root)
        elif d == 'root-missing':
            if os.path.isdir(root):
                shutil.rmtree(root)
            else:
                os.remove(root)
        # the world: nodes created / replaced / locked after the path was set
        W.apply_nodes(wd, fs.get('world') or {})
    m = t.metainfo
    m.clear()
    m.update(R.build(md_recipe))
    return t


def apply_history(torf, t, ops):
    for a, v in ops:
        try:
            if a == 'metainfo-set':
                where, key, val = v
                tgt = t.metainfo['info'] if where == 'info' else t.metainfo
                tgt[key] = R.build(val)
            elif a == 'metainfo-del':
                where, key = v
                tgt = t.metainfo['info'] if where == 'info' else t.metainfo
                tgt.pop(key, None)
            else:
                setattr(t, a, R.build(v))
        except Exception:
            pass    # a refused assignment is part of the history


class _NoGuard:
    def __enter__(self):
        return self

    def __exit__(self, *a):
        return False


def run_exports(torf, make, wd, guard=_NoGuard):
    """make() -> fresh Torrent; returns {op: ['ok', payload] | ['err', kind]}.  The object (and its
    world) is built unguarded; `guard()` — the world's identity and injected stat failures — is active
    only while the export itself runs."""
    obs = {}
    outdir = os.path.join(wd, 'out')
    if not os.path.isdir(outdir):
        os.makedirs(outdir)
        os.chmod(outdir, 0o777)        # also writable for the unprivileged identity
    for op in OPS:
        try:
            t = make()
        except Exception as e:  # noqa
            raise RuntimeError(f'cannot build the case: {type(e).__name__}: {e}')
        try:
            with guard():
                if op == 'validate':
                    t.validate()
                    r = None
                elif op == 'dump':
                    r = t.dump().hex()
                elif op == 'write_stream':
                    s = io.BytesIO(b'OLD')
                    s.seek(1)
                    t.write_stream(s)
                    r = s.getvalue().hex()
                elif op == 'write':
                    p = os.path.join(outdir, 'out.torrent')
                    if os.path.lexists(p):
                        os.remove(p)
                    try:
                        t.write(p)
                        with open(p, 'rb') as fh:
                            r = fh.read().hex()
                    finally:
                        if os.path.lexists(p):
                            os.remove(p)
                elif op == 'infohash':
                    r = t.infohash
                elif op == 'magnet':
                    t.magnet()
                    r = 'magnet'
                else:
                    r = t.is_ready
                    if not isinstance(r, bool):
                        r = repr(r)
            obs[op] = ['ok', r]
        except RecursionError:
            obs[op] = ['err', 'internal:RecursionError']
        except Exception as e:  # noqa
            obs[op] = ['err', err_kind(torf, e)]
    return obs


def _run_chunk(cases):
    torf = common.import_torf()
    wd = common.worker_dir()
    out = []
    for c in cases:
        extra = {}
        try:
            if c['kind'] == 'history':
                t0 = torf.Torrent()
                m = t0.metainfo
                m.clear()
                m.update(R.build(c['base']))
                apply_history(torf, t0, c['ops'])
                snap = R.from_py(dict(t0.metainfo))
                c = dict(c, md=snap)

                def make(snap=snap):
                    return fresh(torf, snap)
            elif c['kind'] == 'fs':
                world = c['fs'].get('world') or {}
                fresh(torf, c['md'], c['fs'], wd)                    # the world exists once …
                c = dict(c, md=W.finalise_md(c['md'], world, wd))    # … so that the metainfo can refer to it
                root = W.content_root(wd)

                def make(c=c):
                    return fresh(torf, c['md'], c['fs'], wd)

                def guard(c=c, world=world, root=root):
                    return W.Guard(world, root, c['md'])
                make()
                with guard():                                        # what the OS answers in this world
                    extra['fs'] = W.fs_facts(root, c['md'])
            else:
                def make(c=c):
                    return fresh(torf, c['md'])
            obs = run_exports(torf, make, wd, guard) if c['kind'] == 'fs' else run_exports(torf, make, wd)
        except Exception as e:  # noqa  (construction problems are harness problems)
            obs = {'harness-error': f'{type(e).__name__}: {e}'}
        out.append((c, obs, extra))
    return out


# ---------------------------------------------------------------------------------------------
# known findings
def _info_files(case):
    info = R.dget(case['md'], 'info')
    return R.dget(info, 'files') if info is not None else None


def _unjoinable_path(case):
    fl = _info_files(case)
    if not case.get('fs') or fl is None or fl['t'] not in ('l', 'u'):
        return False
    for f in fl['v']:
        p = R.dget(f, 'path') if f['t'] == 'd' else None
        if p is not None and not (p['t'] in ('l', 'u') and p['v'] and all(c['t'] == 's' for c in p['v'])):
            return True
    return False


def _max_abs(r):
    m = 0
    for _, n in R.walk(r):
        if n['t'] == 'i':
            m = max(m, abs(R.build(n)))
        elif n['t'] == 'f' and n['hex'] not in ('nan', 'inf', '-inf'):
            m = max(m, abs(int(R.build(n))))
    return m


def _has_x(r, kinds):
    return any(k in json.dumps(r) for k in kinds)


MATCHERS = {
    # D07f: `info['files']` is a mapping (validate iterates its keys and subscripts them), or a
    # content path is set and a `path` is not a non-empty list of str (reaches os.path.join)
    'files_mapping_or_unjoinable_path': lambda case, obs, f: (
        obs.get('kind') in ('internal:TypeError', 'internal:KeyError') and obs.get('op') != 'magnet-tail' and (
            ((_info_files(case) or {}).get('t') == 'd') or
            ((_info_files(case) or {}).get('t') == 'x' and _info_files(case)['k'] == 'odict') or
            _unjoinable_path(case))),
    # (D07j — an int of more than 4300 digits formatted into a MetainfoError message — is repaired in /repo
    # 3420ff7; its matcher is gone, the witnesses are regression cases in corpus/C07/d07j-*.json)
    # D07i: magnet() reads announce-list / url-list back through getters that raise URLError/TypeError
    'magnet_tail': lambda case, obs, f: (
        obs.get('op') == 'magnet-tail' and obs.get('kind') in ('internal:URLError', 'internal:TypeError',
                                                               'internal:ValueError', 'internal:AttributeError')),
}


def R_depth(r):
    t = r['t']
    if t in ('l', 'u'):
        return 1 + max([R_depth(x) for x in r['v']] or [0])
    if t == 'd':
        return 1 + max([R_depth(v) for _, v in r['v']] or [0])
    if t == 'x' and r['k'] == 'deep':
        return r['v']
    return 0


# ---------------------------------------------------------------------------------------------
# classification
def _cls(x):
    """['ok', …] -> 'ok';  ['err','internal:T'] -> 'internal' """
    return 'ok' if x[0] == 'ok' else x[1].split(':')[0]


def _mcls(j):
    return 'ok' if 'ok' in j else j['err'].split(':')[0]


def case_public(c):
    return {k: c[k] for k in ('md', 'labels', 'kind', 'fs', 'base', 'ops') if k in c}


def evaluate(ctx, drv, cases):
    results = common.pmap(_run_chunk, common.split(cases, common.NPROC * 4))
    flat = [x for chunk in results for x in chunk]
    reqs, idx = [], []
    for n, (c, obs, extra) in enumerate(flat):
        if 'harness-error' in obs:
            reqs.append({'op': 'ping'})
            continue
        dom = R.in_domain(c['md'])
        impl_dump = obs.get('dump', ['err'])
        req = {'op': 'c07.eval' if dom else 'c07.sound', 'urls': url_table(c['md'])}
        if dom:
            req['md'] = R.to_driver(c['md'])
            if 'fs' in extra:
                req['fs'] = extra['fs']
            if impl_dump[0] == 'ok':
                req['implDump'] = impl_dump[1]
        else:
            req['bytes'] = impl_dump[1] if impl_dump[0] == 'ok' else ''
        reqs.append(req)
    replies = drv.run(reqs)
    for (c, obs, extra), rep in zip(flat, replies):
        case = case_public(c)
        if 'harness-error' in obs:
            ctx.case(kind='harness-error')
            ctx.machinery_error('harness could not build the case: ' + obs['harness-error'], case)
            continue
        key = hashlib.sha1(json.dumps([case['md'], case.get('fs')], sort_keys=True).encode()).hexdigest()
        ctx.case(key=key, nontrivial=bool(c.get('labels')), kind=c['kind'])
        for lab in c.get('labels', [])[:3]:
            ctx.dist['label:' + lab.split(':')[0]] += 1
        if 'harness-error' in obs:
            ctx.machinery_error('harness could not build the case: ' + obs['harness-error'], case)
            continue
        dom = R.in_domain(c['md'])
        isound = rep.get('implSound') if dom else rep.get('spec')
        ctx.dist['impl:' + '/'.join(_cls(obs[o])[0] for o in OPS)] += 1
        if len(ctx.samples) < 6 and ctx.rng.random() < 0.002 or ctx.evaluations in (1, 2):
            ctx.sample({'case': case, 'impl': {o: (obs[o][0], str(obs[o][1])[:40]) for o in OPS}})

        # ---- I ∈ S -------------------------------------------------------------------------
        v_ok = obs['validate'][0] == 'ok'
        d = obs['dump']
        for op in ('validate', 'dump', 'write_stream', 'write', 'infohash', 'magnet', 'is_ready'):
            o = obs[op]
            if o[0] == 'err' and o[1] != 'metainfo':
                tail = op == 'magnet' and obs['infohash'][0] == 'ok'
                ctx.violation(f'{op} raised {o[1].split(":")[1] if ":" in o[1] else o[1]} (only MetainfoError is allowed)',
                              case, 'ok or MetainfoError', {'op': 'magnet-tail' if tail else op, 'kind': o[1]},
                              finding_matchers=MATCHERS)
        if d[0] == 'ok':
            if not (isound and isound.get('sound')):
                bad = 'count' if isound and isound.get('parsed') and not isound.get('count') and isound.get('pieceLength') \
                    and isound.get('pieces') and isound.get('size') else 'structure'
                ctx.violation('dump() returned bytes that are not structurally sound', case,
                              'Sound(bytes)', {'op': 'dump', 'unsound': bad, 'parts': isound, 'bytes': d[1][:400]},
                              finding_matchers=MATCHERS)
            for op in ('write_stream', 'write'):
                if obs[op][0] == 'ok' and obs[op][1] != d[1]:
                    ctx.violation(f'{op}() wrote bytes that differ from dump()', case, d[1][:200],
                                  {'op': op, 'bytes': obs[op][1][:200]}, finding_matchers=MATCHERS)
        for op in ('write_stream', 'write', 'infohash', 'magnet'):
            if obs[op][0] == 'ok' and not v_ok and c['kind'] != 'outside':
                ctx.violation(f'{op} returned a result although validate() fails', case, 'MetainfoError',
                              {'op': op, 'kind': 'ok'}, finding_matchers=MATCHERS)
            if obs[op][0] == 'ok' and op in ('write_stream', 'write') and d[0] != 'ok' and c['kind'] != 'outside':
                ctx.violation(f'{op} succeeded although dump() fails', case, 'same outcome as dump()',
                              {'op': op, 'kind': 'ok'}, finding_matchers=MATCHERS)
        r = obs['is_ready']
        if r[0] == 'ok' and obs['validate'][0] == 'ok' and r[1] is not True and c['kind'] != 'outside':
            ctx.violation('is_ready is not True although validate() succeeds', case, True, {'op': 'is_ready', 'kind': repr(r[1])},
                          finding_matchers=MATCHERS)
        if r[0] == 'ok' and obs['validate'] == ['err', 'metainfo'] and r[1] is not False and c['kind'] != 'outside':
            ctx.violation('is_ready is not False although validate() raises MetainfoError', case, False,
                          {'op': 'is_ready', 'kind': repr(r[1])}, finding_matchers=MATCHERS)
        if not dom:
            ctx.dist['outside-PyVal'] += 1
            continue

        # ---- model vs specification (proved; a failure is a machinery error) ---------------------
        thm = rep['hypThm']
        if not rep['wf']:
            ctx.machinery_error('in-domain case violates the dict invariant Codec.wf (harness conversion problem)', case)
        for name in ('validate', 'dump', 'info', 'magnet', 'ready'):
            m = rep[name]
            if 'err' in m and m['err'] == 'value':
                ctx.machinery_error(f'model {name} leaked ValueError', case)
            if 'err' in m and m['err'].startswith('internal') and thm and (name != 'magnet' or rep['hypMagnet']):
                ctx.machinery_error(f'model {name} = {m["err"]} under the hypothesis outsideD07f of C07_validate_only_metainfo_error / C07_only_metainfo_error_*_partial', case)
        if 'ok' in rep['dump'] and not (rep['modelSound'] or {}).get('sound'):
            ctx.machinery_error('model dump not Sound although C07_export_sound is proved', case)
        if not rep.get('blurSame', True):
            ctx.machinery_error('model validate/dump differ in the world with every stat failure blurred to ENOENT '
                                'although C07_fs_failure_invisible is proved', case)
        if 'fs' in extra:
            w = (case.get('fs') or {}).get('world') or {}
            ctx.dist['world:' + w.get('kind', 'classic/' + (case.get('fs') or {}).get('disturb', '?'))] += 1
            for a in [extra['fs']['root']] + extra['fs']['files']:
                ctx.dist['stat:' + (a[1] if a[0] == 'err' else a[0])] += 1
        if ('ok' in rep['ready'] and rep['ready']['ok']) != ('ok' in rep['validate']):
            ctx.machinery_error('model is_ready != (validate = ok) although C07_ready_iff is proved', case)

        # ---- I = M under hyp ----------------------------------------------------------------------
        if not rep['hyp']:
            ctx.dist['outside-hyp'] += 1
            continue
        pairs = [('validate', 'validate'), ('dump', 'dump'), ('write_stream', 'dump'), ('write', 'dump'),
                 ('infohash', 'info'), ('is_ready', 'ready')]
        if rep['hypMagnet']:
            pairs.append(('magnet', 'magnet'))
        for op, mname in pairs:
            i, m = obs[op], rep[mname]
            same = _cls(i) == _mcls(m)
            if same and i[0] == 'ok':
                if mname == 'dump':
                    same = i[1] == m['ok']
                elif mname == 'info':
                    same = i[1] == hashlib.sha1(bytes.fromhex(m['ok'])).hexdigest()
                elif mname == 'ready':
                    same = i[1] == m['ok']
            if not same:
                ctx.corr_break('c07.' + op, case, m if len(str(m)) < 600 else str(m)[:600],
                               i if len(str(i)) < 600 else str(i)[:600])
            elif i[0] == 'err' and i[1] != m['err'] and ':' in i[1]:
                ctx.dist['drift:error-type'] += 1


def gen_cases(ctx, scale=1.0):
    rng = ctx.rng
    cases = fixed_cases()
    cases += [gen_case(rng) for _ in range(int(ctx.n(9000, 160000) * scale))]
    cases += [gen_case(rng, outside=True) for _ in range(int(ctx.n(600, 8000) * scale))]
    cases += [gen_history(rng) for _ in range(int(ctx.n(1500, 24000) * scale))]
    cases += [gen_fs_case(rng) for _ in range(int(ctx.n(300, 4000) * scale))]
    cases += world_sweep(rng)
    cases += [gen_world_case(rng) for _ in range(int(ctx.n(500, 8000) * scale))]
    return cases


def load_corpus():
    out = []
    d = os.path.join(common.CORPUS_DIR, 'C07')
    if os.path.isdir(d):
        for fn in sorted(os.listdir(d)):
            if fn.endswith('.json'):
                c = json.load(open(os.path.join(d, fn)))
                c.setdefault('kind', 'corpus')
                c.setdefault('labels', ['corpus:' + fn])
                out.append(c)
    return out


def run(ctx, drv):
    ctx.notes['rule'] = RULE
    ctx.notes['assumptions'] = [
        'URL well-formedness is a parameter of model and specification; the harness computes it with urllib '
        '(urlparse succeeds, .port readable, scheme and netloc non-empty), independently of torf.utils.is_url',
        'the expected piece count is exact integer arithmetic in code and model (numbers of any size); MetainfoError '
        'messages are built with utils.safe_repr (/repo 3420ff7), so an offending value of any size or shape gives '
        'MetainfoError in code and model (D07j repaired; regression witnesses corpus/C07/d07j-*.json)',
        'Python dicts have pairwise distinct keys: every in-domain case satisfies Codec.wf (checked, machinery error otherwise)',
        'nesting depth <= 100 for the model correspondence (CPython recursion limit is not modelled); deeper and cyclic '
        'values are checked implementation-vs-specification: exports must raise MetainfoError (D07g, repaired in /repo 19d011f)',
        'values outside PyVal (set, generator, bytearray, range, custom mappings, lone surrogates, cyclic) are '
        'checked on the implementation against the specification only',
        'Torrent objects created from a magnet link carry a stored _infohash that infohash falls back to; '
        'the model covers torrents without it',
        'the file system is an input: for the content root and every listed path the harness records what os.stat '
        'answers in the case\'s world (regular file / directory / other node + size, the errno of the failure, or '
        'ValueError for an embedded null byte) and the model gets exactly these answers; worlds are real trees changed '
        'after Torrent.path was set (names of 255/256/300 bytes, paths of 4095/4096/4097+ bytes, NUL, symlink loops, '
        'dangling and good links, a file where a directory is expected and vice versa, FIFOs, sockets), an unprivileged '
        'identity (effective uid 65534 while the export runs; needs a root harness, otherwise the world is the same '
        'without it) and os.stat/os.lstat failures injected for the listed paths only (EIO, ESTALE, EOVERFLOW, …) by '
        'replacing the two functions of the os module in the worker process, so that os.path.*, pathlib and a direct '
        'os.stat all get the same answer; the world is consistent: one path, one answer during one call',
    ]
    batch = 40000
    cases = load_corpus() + gen_cases(ctx)
    for i in range(0, len(cases), batch):
        evaluate(ctx, drv, cases[i:i + batch])
    ctx.exhaustive = False


def search(ctx, drv):
    # (1) directed: every correspondence break that has a content path is re-run in every world (each kind
    #     of answer the OS can give for each listed path and for the content root), and all worlds are
    #     swept again with fresh layouts, with and without metainfo mutations
    cases = []
    for b in ctx.corr_breaks[:12]:
        cases += worlds_around(ctx.rng, b['case'])
    for _ in range(3):
        cases += world_sweep(ctx.rng)
        cases += world_sweep(ctx.rng, mutate_p=0.6)
    for i in range(0, len(cases), 40000):
        evaluate(ctx, drv, cases[i:i + 40000])
    if ctx.violations:
        return
    # (2) undirected: twice the normal budget
    cases = gen_cases(ctx, scale=2.0)
    for i in range(0, len(cases), 40000):
        evaluate(ctx, drv, cases[i:i + 40000])


def replay(ctx, drv, rp):
    c = dict(rp['case'])
    c.setdefault('kind', 'replay')
    c.setdefault('labels', ['replay'])
    if c['kind'] == 'history' and 'base' not in c:
        c['kind'] = 'replay'
    evaluate(ctx, drv, [c])
    return {'fails': bool(ctx.violations or ctx.corr_breaks or ctx.known),
            'violations': ctx.violations, 'known': dict(ctx.known), 'corr_breaks': ctx.corr_breaks}
