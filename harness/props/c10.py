"""
C10 — missing or mis-sized files never shift later pieces.

The Lean model `Missing.iterItems` (code-shaped: `_MissingPieces`, skip-bytes, by-catch files,
remove-while-iterating) and the Lean specification `Missing.specData/badFiles` are run by the
driver on (L, sizes, disk states); the real `TorrentFileStream.iter_pieces()` runs on a tmpfs
tree in the same state.  Compared: per item (data bytes | None, list of (file, error kind)).

Round 3: a second pass.  For part of the cases the disk is changed after the first complete iteration (`disk2`:
files truncated / extended in place, missing files created, mis-sized files removed — changes that leave no
handle of the stream on a replaced inode) and `iter_pieces()` runs again ON THE SAME STREAM OBJECT; its items are
judged against specification and model on the NEW disk state (a stream must not remember sizes, missing-piece
records or by-catch files from the first pass; the handle-level theory is property C19's `Torf.HandlesDisk`).
"""
import itertools
import os
import sys

from harness import common
from harness.gen import layouts
from harness.impl import content

RULE = ('case = (piece length, file sizes, per-file disk state ok|missing|actual size); exhaustive small '
        'scopes (every assignment of ok/missing/-1/+1 with a bounded number of bad files) + directed '
        'random up to 30 files; non-trivial = at least one bad file and at least one piece that '
        'contains bytes of a bad file and of another file; distinct = distinct case tuples.  Optional disk2 = '
        'per-file state after the first pass (reached by truncate/extend in place, creation of a missing file, removal '
        'of a mis-sized one): a second iter_pieces() pass on the same stream object is judged on disk2')


def _bad_empty_at_boundary(case):
    L, sizes = case['L'], case['sizes']
    disk = case['disk2'] if case.get('judged_state') == 'disk2' else case['disk']
    pos = 0
    out = []
    for i, (s, st) in enumerate(zip(sizes, disk)):
        if s == 0 and st != 'ok' and pos % L == 0:
            out.append(i)
        pos += s
    return out


def _d10a(case, observed, finding):
    """a bad zero-length entry sits exactly on a piece boundary and (a) the implementation raised
    IndexError, or (b) the only deviation is that exactly such entries are reported twice"""
    zs = _bad_empty_at_boundary(case)
    if not zs or not isinstance(observed, dict):
        return False
    if observed.get('exc_type') == 'IndexError':
        return True
    if observed.get('deviation') == 'duplicate-report-only':
        return all(d in zs for d in observed.get('dups', [None]))
    return False


MATCHERS = {'bad_empty_entry_at_piece_boundary': _d10a}


def _apply_state(c, files, top, i):
    f, st = files[i], c['disk'][i]
    p = os.path.join(top, *f['path'])
    if st == 'missing':
        os.unlink(p)
    elif st == 'unreadable':
        pass            # present with the right size; open() will be made to fail for it
    elif st != 'ok':
        good = content.file_bytes(c['cseed'], i, f['size'])
        n = int(st)
        data = (good + content.file_bytes(c['cseed'] + 1, i, max(0, n - len(good))))[:n]
        with open(p, 'wb') as fh:
            fh.write(data)


def late_from(c):
    """index of the first file the reader has not looked at when it yields its first item (None: no item is yielded
    before the last file is opened, or one of the files it has looked at is bad)"""
    pos = 0
    for i, s_ in enumerate(c['sizes']):
        if c['disk'][i] != 'ok':
            return None
        pos += s_
        if pos >= c['L']:
            return i + 1 if i + 1 < len(c['sizes']) else None
    return None


def _make(wd, c, defer=0):
    """the tree in the state c['disk']; with defer = m > 0 the files m, m+1, ... are left intact (see c['late'])"""
    files = [{'path': p, 'size': s} for p, s in zip(c['paths'], c['sizes'])]
    top = os.path.join(wd, 'T')
    content.make_tree(wd, 'T', files, seed=c['cseed'])
    contents = [content.file_bytes(c['cseed'], i, f['size']) for i, f in enumerate(files)]
    for i in range(len(files)):
        if not defer or i < defer:
            _apply_state(c, files, top, i)
    return files, contents, top


def _excs(torf, excs, index_of):
    es = []
    for e in excs:
        if isinstance(e, torf.ReadError):
            es.append([index_of.get(str(e.path), -1), 'read'])
        elif isinstance(e, torf.VerifyFileSizeError):
            es.append([index_of.get(str(e.filepath), -1), 'size'])
        else:
            es.append([-1, type(e).__name__])
    return es


def _state_bytes(c, i, size, st):
    good = content.file_bytes(c['cseed'], i, size)
    n = int(st) if st != 'ok' else size
    return (good + content.file_bytes(c['cseed'] + 1, i, max(0, n - len(good))))[:n]


def _change_disk(c, files, top):
    """bring every file from its state in c['disk'] to its state in c['disk2'] without replacing an inode the stream
    may hold a handle of: size changes in place, creation of missing files, removal of mis-sized (never opened) files"""
    for i, (f, a, b) in enumerate(zip(files, c['disk'], c['disk2'])):
        if a == b:
            continue
        p = os.path.join(top, *f['path'])
        if b == 'missing':
            assert a not in ('ok', 'unreadable')
            os.unlink(p)
        elif a == 'missing':
            with open(p, 'xb') as fh:
                fh.write(_state_bytes(c, i, f['size'], b))
        else:
            want = _state_bytes(c, i, f['size'], b)
            have = os.path.getsize(p)
            if len(want) < have:
                os.truncate(p, len(want))
            elif len(want) > have:
                with open(p, 'ab') as fh:
                    fh.write(want[have:])


def second_states(rng, sizes, disk):
    """a disk state reachable from `disk` by the changes `_change_disk` makes; None when nothing would change"""
    out = []
    for s_, a in zip(sizes, disk):
        if a == 'unreadable':
            return None
        if rng.random() < 0.5:
            out.append(a)
        elif a == 'ok':
            out.append(rng.choice([s_ + 1] + ([s_ - 1] if s_ > 0 else [])))
        else:
            out.append(rng.choice([x for x in ['ok', 'missing', s_ + 1] + ([s_ - 1] if s_ > 0 else []) if x != a]))
    return out if out != list(disk) else None


def _run_chunk(cases):
    torf = common.import_torf()
    from torf import _stream
    wd = common.worker_dir()
    out = []
    for c in cases:
        obs = {}
        try:
            # c['late']: the damage happens DURING the iteration - the files the reader has not looked at when it yields
            # its first item are intact until then (theorem C10_late_damage: the items are those of the final disk)
            m = late_from(c) if c.get('late') else 0
            files, contents, top = _make(wd, c, defer=m or 0)
            t = content.make_torrent(torf, wd, 'T', files, c['L'])
            index_of = {os.path.join(top, *f['path']): i for i, f in enumerate(files)}
            blocked = {os.path.join(top, *f['path']) for f, st in zip(files, c['disk']) if st == 'unreadable'}
            if blocked:
                import builtins
                import errno as _errno

                def _open(p, mode='r', *a, **k):
                    if str(p) in blocked:
                        raise PermissionError(_errno.EACCES, 'injected: permission denied', str(p))
                    return builtins.open(p, mode, *a, **k)
                _stream.open = _open
            with _stream.TorrentFileStream(t) as tfs:
                items = []
                for (piece, fp, excs) in tfs.iter_pieces():
                    es = []
                    for e in excs:
                        if isinstance(e, torf.ReadError):
                            es.append([index_of.get(str(e.path), -1), 'read'])
                        elif isinstance(e, torf.VerifyFileSizeError):
                            es.append([index_of.get(str(e.filepath), -1), 'size'])
                        else:
                            es.append([-1, type(e).__name__])
                    items.append((piece, es))
                    if m and len(items) == 1:
                        for i in range(m, len(files)):
                            _apply_state(c, files, top, i)
                        obs['late_applied'] = m
                obs['items'] = items
                if c.get('disk2'):
                    # the disk changes, the SAME stream object iterates again
                    _change_disk(c, files, top)
                    try:
                        obs['items2'] = [(piece, _excs(torf, excs, index_of)) for (piece, fp, excs) in tfs.iter_pieces()]
                    except Exception as e:  # noqa
                        obs['exc2_type'] = type(e).__name__
                        obs['exc2'] = str(e)[:200]
        except BaseException as e:  # noqa
            obs['exc_type'] = type(e).__name__
            obs['exc'] = str(e)[:200]
            contents = contents if 'contents' in dir() else []
        finally:
            _stream.__dict__.pop('open', None)
        out.append((c, obs, contents))
    return out


def _states(size):
    return ['ok', 'missing', size + 1] + ([size - 1] if size > 0 else [])


def exhaustive_cases(Ls_files, max_bad, rng):
    for L, nfiles in Ls_files:
        for n in range(1, nfiles + 1):
            for sizes in itertools.product(range(0, 2 * L + 2), repeat=n):
                if sum(sizes) == 0:
                    continue
                for disk in itertools.product(*[_states(s) for s in sizes]):
                    nb = sum(1 for d in disk if d != 'ok')
                    if nb == 0 or nb > max_bad:
                        continue
                    yield {'L': L, 'sizes': list(sizes), 'disk': list(disk), 'kind': 'exhaustive'}


def random_case(rng):
    L = rng.choice([2, 3, 4, 5, 8, 16])
    shape, sizes = layouts.random_sizes(rng, L, nmax=30)
    n = len(sizes)
    nbad = rng.choice([1, 1, 2, 2, 3, rng.randint(1, max(1, n // 2))])
    bad = set(rng.sample(range(n), min(n, nbad)))
    if rng.random() < 0.4 and n > 2:   # neighbours: several bad files inside one piece
        j = rng.randrange(n - 1)
        bad |= {j, j + 1}
    disk = []
    for i, s in enumerate(sizes):
        if i in bad:
            disk.append(rng.choice([st for st in _states(s) if st != 'ok']))
        else:
            disk.append('ok')
    return {'L': L, 'sizes': sizes, 'disk': disk, 'kind': 'random-' + shape}


def _nontrivial(c):
    L, sizes, disk = c['L'], c['sizes'], c['disk']
    pos = 0
    owners = {}
    for i, s in enumerate(sizes):
        for p in range(pos // L, (pos + s - 1) // L + 1) if s else []:
            owners.setdefault(p, set()).add(i)
        pos += s
    for p, fs in owners.items():
        if len(fs) > 1 and any(disk[i] != 'ok' for i in fs):
            return True
    return False


def _bytes_of(runs, contents):
    return None if runs is None else b''.join(contents[f][o:o + n] for f, o, n in runs)


def _judge(ctx, case, r, obs, contents, second=False):
    """one iter_pieces() pass (items or escaped exception in `obs`) against specification and model reply `r`"""
    tag = ' [second pass on the same stream object, after the disk changed]' if second else ''
    if not r['hyp']:
        ctx.dist['outside-hyp(bad empty entry)'] += 1
    if r['hyp'] and not r['strict']:
        ctx.machinery_error('model does not meet the strict spec under hyp', case)
        return
    if 'exc_type' in obs:
        # the implementation let an exception escape iter_pieces()
        ctx.violation(f'iter_pieces() raised {obs["exc_type"]}: {obs.get("exc")}' + tag, case,
                      'one item per piece', obs, MATCHERS)
        if r['model'] is not None:
            ctx.corr_break('c10.items', case, 'items', obs['exc_type'])
        return
    got = obs['items']
    # 1. implementation against the specification
    want = [_bytes_of(x, contents) for x in r['specData']]
    lenient_ok = len(got) == len(want)
    if lenient_ok:
        for i, ((g, _), w) in enumerate(zip(got, want)):
            if g != w and not (g is None and r['mayBlank'][i] and not r['hyp']):
                lenient_ok = False
    rep = sorted([tuple(e) for (_, es) in got for e in es])
    bad = sorted([tuple(e) for e in r['bad']])
    data_with_exc = any(g is not None and es for (g, es) in got)
    if not lenient_ok or rep != bad or data_with_exc:
        observed = {'data': [None if g is None else g.hex() for (g, _) in got], 'reported': rep}
        if lenient_ok and not data_with_exc and sorted(set(rep)) == bad:
            observed['deviation'] = 'duplicate-report-only'
            observed['dups'] = sorted({e[0] for e in rep if rep.count(e) > 1})
        fid = ctx.violation('iter_pieces() items deviate from the specification '
                            '(one item per piece, data iff unspoiled, each bad file reported once)' + tag,
                            case,
                            {'data': [None if w is None else w.hex() for w in want], 'reported': bad},
                            observed, MATCHERS)
        if fid is None:
            return
    # 2. implementation against the code-shaped model (correspondence)
    if r['model'] is None:
        ctx.corr_break('c10.items', case, 'internal error', 'items')
        return
    m = [(_bytes_of(it['data'], contents), it['excs']) for it in r['model']]
    g2 = [(g, [list(e) for e in es]) for (g, es) in got]
    if m != g2:
        ctx.corr_break('c10.items', case,
                       [(None if d is None else d.hex(), e) for d, e in m][:12],
                       [(None if d is None else d.hex(), e) for d, e in g2][:12])


def _run_chunk_optimized(cases):
    """the same as `_run_chunk`, in a child interpreter started with `python -O` (assert statements compiled away, so a
    change that moves bookkeeping - a seek, a counter - INTO an assert only misbehaves there)"""
    import pickle
    import subprocess
    env = dict(os.environ, PYTHONPATH=common.VERIF + os.pathsep + os.environ.get('PYTHONPATH', ''))
    p = subprocess.run(['/venv/bin/python', '-O', '-B', '-m', 'harness.props.c10', '--opt-worker'], cwd=common.VERIF, env=env,
                       input=pickle.dumps(cases), capture_output=True, timeout=900)
    if p.returncode != 0:
        raise RuntimeError('python -O worker failed: ' + p.stderr.decode(errors='replace')[-800:])
    flag, out = pickle.loads(p.stdout)
    if flag != 1:
        raise RuntimeError(f'python -O worker ran with sys.flags.optimize = {flag}')
    return out


def evaluate(ctx, drv, cases, optimized=False):
    rng = ctx.rng
    for c in cases:
        c.setdefault('paths', layouts.paths_for(len(c['sizes']), rng, nested=c.get('kind', '').startswith('random')))
        c.setdefault('cseed', rng.randrange(1 << 30))
    reqs, second = [], {}
    for n, c in enumerate(cases):
        reqs.append({'op': 'c10.items', 'L': c['L'], 'sizes': c['sizes'],
                     'disk': ['missing' if d == 'unreadable' else d for d in c['disk']]})
    for n, c in enumerate(cases):
        if c.get('disk2'):
            second[n] = len(reqs)
            reqs.append({'op': 'c10.items', 'L': c['L'], 'sizes': c['sizes'], 'disk': c['disk2']})
    replies = drv.run(reqs)
    results = common.pmap(_run_chunk_optimized if optimized else _run_chunk, common.split(cases, common.NPROC * 4))
    k = 0
    for chunk in results:
        for (c, obs, contents) in chunk:
            r = replies[k]
            case = {x: c[x] for x in ('L', 'sizes', 'disk', 'paths', 'cseed')}
            key = (c['L'], tuple(c['sizes']), tuple(map(str, c['disk'])))
            if optimized:
                case['python'] = '-O'
                key = key + ('python -O',)
                ctx.dist['python -O'] += 1
            if c.get('late'):
                case['late'] = True
                key = key + ('late',)
                ctx.dist['damage-during-the-iteration' + ('' if obs.get('late_applied') else ' (not applied)')] += 1
            if c.get('disk2'):
                case['disk2'] = c['disk2']
                key = key + (tuple(map(str, c['disk2'])),)
                ctx.dist['second-pass-after-disk-change'] += 1
            ctx.case(key=key, nontrivial=_nontrivial(c) or bool(c.get('disk2') and _nontrivial({**c, 'disk': c['disk2']})),
                     kind=c.get('kind'))
            ctx.sample({'case': case, 'model': r['model']}, limit=4)
            nv, nb = len(ctx.violations), len(ctx.corr_breaks)
            _judge(ctx, case, r, obs, contents)
            if c.get('disk2') and 'exc_type' not in obs and (len(ctx.violations), len(ctx.corr_breaks)) == (nv, nb):
                obs2 = ({'exc_type': obs['exc2_type'], 'exc': obs.get('exc2')} if 'exc2_type' in obs
                        else {'items': obs.get('items2', [])})
                # D10a witnesses of the first state must not excuse the second pass: judge it as a case of its own
                _judge(ctx, {**case, 'judged_state': 'disk2'}, replies[second[k]], obs2, contents, second=True)
            k += 1


def corpus_cases():
    d = os.path.join(common.CORPUS_DIR, 'C10')
    out = []
    if os.path.isdir(d):
        import json
        for fn in sorted(os.listdir(d)):
            if fn.endswith('.json'):
                c = json.load(open(os.path.join(d, fn)))
                c['kind'] = 'corpus'
                out.append(c)
    return out


def gen_cases(ctx, scale=1.0):
    rng = ctx.rng
    cases = corpus_cases()
    if ctx.thorough:
        scope = [(2, 4), (3, 3)]
        max_bad = 3
        ctx.notes['exhaustive_scope'] = 'L=2 with <=4 files, L=3 with <=3 files, sizes 0..2L+1, <=3 bad files (ok/missing/-1/+1)'
    else:
        scope = [(2, 3), (3, 2)]
        max_bad = 3
        ctx.notes['exhaustive_scope'] = 'L=2 with <=3 files, L=3 with <=2 files, sizes 0..2L+1, all bad subsets (ok/missing/-1/+1)'
    cases += list(exhaustive_cases(scope, max_bad, rng))
    # a sample of the next larger scope
    bigger = list(itertools.islice(exhaustive_cases([(3, 3)] if not ctx.thorough else [(3, 4), (4, 3)], 3, rng), 0, None, 37 if not ctx.thorough else 53))
    cases += bigger
    for _ in range(int(ctx.n(4000, 120000) * scale)):
        cases.append(random_case(rng))
    # second pass on the same stream after the disk changed: a third of the random cases, every 5th exhaustive one
    for n, c in enumerate(cases):
        if c.get('kind') != 'corpus' and 'disk2' not in c and (c['kind'].startswith('random') and rng.random() < 0.34
                                                               or c['kind'] == 'exhaustive' and n % 5 == 0):
            d2 = second_states(rng, c['sizes'], c['disk'])
            if d2:
                c['disk2'] = d2
    # the damage happens while the iteration is under way (after the first item): a quarter of the eligible cases
    for c in cases:
        if c.get('kind') != 'corpus' and late_from(c) is not None and rng.random() < 0.25:
            c['late'] = True
    # a present file of the right size whose open() fails (the only bad file, so it is handled by the main
    # loop like a missing one and reported with a read error)
    for _ in range(int(ctx.n(400, 8000) * scale)):
        c = random_case(rng)
        nz = [i for i, sz in enumerate(c['sizes']) if sz > 0]
        if not nz:
            continue
        c['disk'] = ['ok'] * len(c['sizes'])
        c['disk'][rng.choice(nz)] = 'unreadable'
        c['kind'] = 'unreadable-' + c['kind']
        cases.append(c)
    return cases


def run(ctx, drv):
    ctx.notes['rule'] = RULE
    ctx.notes['assumptions'] = [
        'a listed file is bad iff it does not exist or its size differs; a present file of the right size whose open() fails is '
        'probed as the only bad file (expected: the items of the same case with that file missing)',
        'theorem hypothesis: no bad zero-length entry; outside it the implementation is compared with the lenient spec directly',
        'file system behaviour (open/read/seek/getsize) of CPython/Linux is trusted',
        'a slice of the cases (bad files first) is repeated in child interpreters started with `python -O` (assert statements '
        'compiled away); judged by the same theorems - the model has no notion of the interpreter flag',
    ]
    cases = gen_cases(ctx)
    evaluate(ctx, drv, cases)
    # a slice of the same cases under `python -O`: every case with a bad file that shares its last piece with a following
    # file (the skip / seek path of `_iter_from_file_handle`), plus a random tenth of the rest
    evaluate(ctx, drv, _optimized_slice(ctx, cases), optimized=True)


def _optimized_slice(ctx, cases):
    pick = [dict(c) for c in cases if not c.get('late') and not c.get('disk2') and 'unreadable' not in c['disk']]
    bad = [c for c in pick if any(d != 'ok' for d in c['disk'])]
    ctx.rng.shuffle(bad)
    rest = [c for c in pick if all(d == 'ok' for d in c['disk'])]
    ctx.rng.shuffle(rest)
    return bad[:ctx.n(1500, 12000)] + rest[:ctx.n(150, 1200)]


def search(ctx, drv):
    cases = gen_cases(ctx, scale=3.0)
    evaluate(ctx, drv, cases)
    evaluate(ctx, drv, _optimized_slice(ctx, cases), optimized=True)


def replay(ctx, drv, rp):
    c = dict(rp['case'])
    c.pop('judged_state', None)
    evaluate(ctx, drv, [c], optimized=c.pop('python', None) == '-O')
    return {'fails': bool(ctx.violations or ctx.corr_breaks), 'violations': ctx.violations,
            'corr_breaks': ctx.corr_breaks, 'known': list(ctx.known)}


if __name__ == '__main__' and '--opt-worker' in sys.argv:
    import pickle
    _cases = pickle.loads(sys.stdin.buffer.read())
    sys.stdout.buffer.write(pickle.dumps((sys.flags.optimize, _run_chunk(_cases))))
