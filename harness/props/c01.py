"""
C01 — piece hashes are the SHA-1 of the concatenated content stream.

Correspondence: the Lean model `Stream.iterPieces` (proved equal to `chunks L stream`) is run on
the same layout as the real `TorrentFileStream.iter_pieces` and `Torrent.generate`; the model's
pieces (sent as runs of (file, offset, length)) are turned into bytes from the real files and
compared byte for byte / digest for digest.
"""
import glob
import json
import os

from harness import common
from harness.gen import layouts
from harness.impl import content

MATCHERS = {}

RULE = ('layouts = (piece length, file sizes in metainfo order): exhaustive small scopes + '
        'boundary-directed random (runs of tiny files, >11 files, nested dirs, real 16 KiB '
        'multiples, 1..8 hasher threads); non-trivial = at least two files and a file boundary '
        'strictly inside a piece; distinct = distinct (L, sizes).  '
        'histories = layout + a sequence of operations in one process (generate()/verify()/reuse() on two Torrent '
        'objects over the same paths, other TorrentFileStream objects opened / read (get_piece, verify_piece, partial '
        'and full iteration) / closed, listed files replaced atomically or rewritten in place with content of the '
        'same size, with and without the old mtime); every generate() of the history is judged against the bytes the '
        'files hold at that moment; non-trivial = a file is replaced or rewritten before a generate() while another '
        'stream is open or after an earlier run; distinct = distinct (layout, operations).  '
        'schedules = generate() under the deterministic scheduler (strategies uniform / PCT / stall / '
        'timeouts-first, 1..4 hashers) x hasher faults (the n-th sha1() call of hasher k raises); non-trivial = a fault '
        'fired or >= 2 hashers; distinct = distinct (layout, strategy+seed, fault plan)')


def _run_chunk(cases):
    torf = common.import_torf()
    from torf import _stream
    wd = common.worker_dir()
    out = []
    for c in cases:
        L, sizes = c['L'], c['sizes']
        files = [{'path': p, 'size': s} for p, s in zip(c['paths'], sizes)]
        single = c.get('single', False)
        name = 'T'
        obs = {}
        try:
            contents = content.make_tree(wd, name, files, seed=c['cseed'], single=single)
            t = content.make_torrent(torf, wd, name, files, L, single=single,
                                     via_setter=c.get('via_setter', False))
            oom = c.get('oom') or c.get('short')
            if oom:
                import builtins
                plan = {'n': 0, 'at': oom['at'], 'burst': oom.get('burst', 1), 'fired': 0, 'lost': 0,
                        'short': bool(c.get('short'))}

                class _F:
                    def __init__(self, fh):
                        self._fh = fh
                        self._eof = False

                    def read(self, *a):
                        plan['n'] += 1
                        if plan['short']:
                            # the file is truncated by someone else while it is being read: from the
                            # at-th read() on this handle is at EOF
                            if plan['n'] == plan['at']:
                                self._eof = True
                                plan['fired'] += 1
                            if self._eof:
                                plan['lost'] += len(self._fh.read(*a))
                                return b''
                            return self._fh.read(*a)
                        if plan['at'] <= plan['n'] < plan['at'] + plan['burst']:
                            plan['fired'] += 1
                            raise MemoryError('injected')
                        return self._fh.read(*a)

                    def __getattr__(self, k):
                        return getattr(self._fh, k)
                _stream.open = lambda p, mode='r', *a, **k: _F(builtins.open(p, mode, *a, **k))
            if c['level'] in ('stream', 'both'):
                with _stream.TorrentFileStream(t) as tfs:
                    items = list(tfs.iter_pieces())
                obs['stream'] = [(p, [type(e).__name__ for e in exc]) for (p, fp, exc) in items]
            if c['level'] in ('generate', 'both'):
                r = t.generate(threads=c.get('threads'))
                obs['generate'] = r
                obs['pieces'] = t.metainfo['info'].get('pieces')
                obs['hashes'] = t.hashes
                obs['npieces'] = t.pieces
        except BaseException as e:  # noqa
            obs['exc'] = f'{type(e).__name__}: {e}'
            obs['exc_type'] = type(e).__name__
        finally:
            _stream.__dict__.pop('open', None)
        if c.get('oom') or c.get('short'):
            obs['oom_fired'] = plan['fired'] if 'plan' in dir() else 0
            obs['bytes_lost'] = plan['lost'] if 'plan' in dir() else 0
        out.append((c, obs, contents))
    return out


def _mk_case(L, sizes, rng, level='stream', threads=None, nested=True, single=False, via_setter=False):
    return {'L': L, 'sizes': sizes, 'paths': layouts.paths_for(len(sizes), rng, nested),
            'cseed': rng.randrange(1 << 30), 'level': level, 'threads': threads,
            'single': single, 'via_setter': via_setter}


def gen_cases(ctx, scale=1.0):
    rng = ctx.rng
    cases = []
    # 1. exhaustive small scopes (stream level; every 7th also end-to-end through generate)
    if ctx.thorough:
        ex = list(layouts.exhaustive([1, 2, 3], 4)) + list(layouts.exhaustive([4], 3))
    else:
        ex = list(layouts.exhaustive([1, 2], 4)) + list(layouts.exhaustive([3], 3))
    ex = [(L, s) for (L, s) in ex if sum(s) > 0]
    for i, (L, sizes) in enumerate(ex):
        lvl = 'both' if i % (7 if ctx.thorough else 11) == 0 else 'stream'
        cases.append(_mk_case(L, sizes, rng, lvl, threads=1 + i % 4, nested=False))
    ctx.notes['exhaustive_scope'] = ('L<=3 with <=4 files and L=4 with <=3 files, sizes 0..2L+1'
                                     if ctx.thorough else
                                     'L<=2 with <=4 files and L=3 with <=3 files, sizes 0..2L+1')
    # 2. boundary-directed random, small piece lengths written directly into the metainfo
    for _ in range(int(ctx.n(700, 20000) * scale)):
        L = rng.choice([1, 2, 3, 4, 5, 7, 8, 16, 31, 64])
        shape, sizes = layouts.random_sizes(rng, L)
        c = _mk_case(L, sizes, rng, rng.choice(['stream', 'both', 'generate']), threads=rng.randint(1, 8))
        c['shape'] = shape
        cases.append(c)
    # 3. real piece lengths through the public setter
    for _ in range(int(ctx.n(60, 1500) * scale)):
        L = 16384 * rng.choice([1, 1, 2, 3, 4])
        n = rng.randint(1, 14)
        sizes = [max(0, rng.choice([0, 1, L - 1, L, L + 1, rng.randint(0, 2 * L), rng.randint(0, L // 8)]))
                 for _ in range(n)]
        if sum(sizes) == 0:
            sizes[0] = L + 1
        c = _mk_case(L, sizes, rng, 'generate', threads=rng.randint(1, 8), via_setter=True)
        c['shape'] = 'real-16k'
        cases.append(c)
    # 3b. files much larger than the piece length, piece lengths that are not powers of two
    for _ in range(int(ctx.n(24, 400) * scale)):
        L = 16384 * rng.choice([1, 3, 3, 5, 6, 7, 12, 48])
        n = rng.randint(1, 3)
        sizes = [rng.choice([rng.randint(1 << 20, 3 << 20), rng.randint(1, 2 * L), (1 << 20) + L + 1]) for _ in range(n)]
        sizes[rng.randrange(n)] = rng.randint((1 << 20) + 1, 3 << 20)
        c = _mk_case(L, sizes, rng, 'both', threads=rng.randint(1, 4), via_setter=True)
        c['shape'] = 'big-files'
        cases.append(c)
    # 3c. a transient out-of-memory burst while reading (the run recovers): the result must still be right
    for _ in range(int(ctx.n(150, 3000) * scale)):
        L = rng.choice([2, 3, 8, 64, 16384])
        shape, sizes = layouts.random_sizes(rng, L, nmax=10)
        c = _mk_case(L, sizes, rng, 'generate', threads=rng.randint(1, 4))
        c['oom'] = {'at': rng.randint(1, 2 * (sum(sizes) // L + len(sizes)) + 1), 'burst': rng.choice([1, 1, 2, 3])}
        c['shape'] = 'transient-oom'
        cases.append(c)
    # 3d. a file shrinks while it is being read (someone truncates it after its size was checked): whatever the
    #     run reports, True may only come with exactly ceil(total/L) digests
    for _ in range(int(ctx.n(120, 2500) * scale)):
        L = rng.choice([2, 3, 8, 64, 16384])
        shape, sizes = layouts.random_sizes(rng, L, nmax=8)
        c = _mk_case(L, sizes, rng, 'generate', threads=rng.randint(1, 4))
        c['short'] = {'at': rng.randint(1, (sum(sizes) // L + len(sizes)) + 1)}
        c['shape'] = 'truncated-mid-run'
        cases.append(c)
    # 4. single-file torrents
    for _ in range(int(ctx.n(40, 600) * scale)):
        L = rng.choice([1, 2, 3, 8, 16384])
        sizes = [max(1, layouts.boundary_sizes(rng, L))]
        c = _mk_case(L, sizes, rng, 'both', threads=rng.randint(1, 4), nested=False, single=True)
        c['shape'] = 'single'
        cases.append(c)
    return cases


def evaluate(ctx, drv, cases):
    replies = drv.run([{'op': 'c01.iter', 'L': c['L'], 'sizes': c['sizes']} for c in cases])
    by_id = {id(c): r for c, r in zip(cases, replies)}
    results = common.pmap(_run_chunk, common.split(cases, common.NPROC * 4))
    k = 0
    for chunk in results:
        for (c, obs, contents) in chunk:
            r = replies[k]
            k += 1
            ctx.case(key=layouts.nontrivial_key(c['L'], c['sizes']),
                     nontrivial=layouts.nontrivial_key(c['L'], c['sizes']) is not None,
                     kind=c.get('shape', 'exhaustive') + '/' + c['level'])
            if len(c['sizes']) > 11:
                ctx.dist['more-files-than-handle-cap'] += 1
            if not r['specEq']:
                ctx.machinery_error('model != spec although C01_iter_eq_chunks is proved', c)
                continue
            want = content.pieces_from_runs(r['model'], contents)
            case = {k2: c[k2] for k2 in ('L', 'sizes', 'paths', 'cseed', 'level', 'threads', 'single', 'via_setter')}
            if c.get('oom'):
                case['oom'] = c['oom']
            ctx.sample({'case': case, 'model_pieces': r['model'][:3]})
            if c.get('short'):
                case['short'] = c['short']
                if 'exc' in obs:
                    ctx.dist['truncated-mid-run: raised ' + str(obs.get('exc_type'))] += 1
                elif obs.get('generate') is True:
                    ctx.dist['truncated-mid-run: True (%s)' % ('nothing lost' if not obs.get('bytes_lost') else
                                                               'bytes lost, count still right')] += 1
                    if len(obs['pieces'] or b'') != 20 * r['count'] or \
                            (not obs.get('bytes_lost') and obs['pieces'] != b''.join(common.sha1(w) for w in want)):
                        ctx.violation('generate() returned True with a piece string that does not hold ceil(size/L) '
                                      'digests (a file shrank while it was read)', case,
                                      {'digests': r['count']}, {'digests': len(obs['pieces'] or b'') / 20,
                                                                'ret': obs['generate'], 'bytes_lost': obs.get('bytes_lost')},
                                      MATCHERS)
                else:
                    ctx.dist['truncated-mid-run: ' + repr(obs.get('generate'))] += 1
                    if obs.get('pieces') is not None:
                        ctx.violation('generate() did not return True but stored a piece string', case,
                                      {'pieces': None}, {'ret': obs.get('generate'),
                                                         'pieces': (obs['pieces'] or b'').hex()[:80]}, MATCHERS)
                continue
            if 'exc' in obs:
                if c.get('oom') and obs.get('exc_type') == 'ReadError':
                    ctx.dist['oom-gave-up(ReadError, not a successful run)'] += 1
                    continue
                ctx.violation(f'hashing/streaming raised {obs["exc"]}', case, 'pieces', obs['exc'])
                continue
            if 'stream' in obs:
                got = [p for p, _ in obs['stream']]
                excs = [e for _, e in obs['stream'] if e]
                if got != want or excs:
                    ctx.violation('iter_pieces() differs from the chunks of the concatenated stream',
                                  case, [w.hex()[:64] for w in want[:6]],
                                  [(g.hex()[:64] if g is not None else None) for g in got[:6]] + excs[:3])
                    continue
            if 'generate' in obs:
                exp = b''.join(common.sha1(w) for w in want)
                ok = (obs['generate'] is True and obs['pieces'] == exp
                      and len(exp) == 20 * r['count'] and obs['npieces'] == r['count']
                      and list(obs['hashes']) == [common.sha1(w) for w in want])
                if not ok:
                    ctx.violation('generate() did not store sha1 of the consecutive chunks',
                                  case, {'pieces': exp.hex()[:120], 'count': r['count'], 'ret': True},
                                  {'pieces': (obs['pieces'] or b'').hex()[:120], 'ret': obs['generate'],
                                   'npieces': obs['npieces']})


# ====================================================================================== histories
# generate() inside a history of the process (model: lean/Torf/Model/GenHistory.lean,
# theorem C01_generate_history): only the bytes the listed files hold when generate() runs matter.

MAX_OPEN = 10       # TorrentFileStream.max_open_files (the model's `cap`)
VER_BASE = 1 << 20


def _ver_bytes(cseed, ver, j, size):
    """content version `ver` of file j (version 0 is what content.make_tree writes)"""
    return content.file_bytes(cseed + 104729 * ver, j, size)


def _file_path(top, c, j):
    return top if c.get('single') else os.path.join(top, *c['paths'][j])


def _run_history(torf, _stream, wd, c):
    L, sizes = c['L'], c['sizes']
    files = [{'path': p, 'size': sz} for p, sz in zip(c['paths'], sizes)]
    single = c.get('single', False)
    top = os.path.join(wd, 'T')
    content.make_tree(wd, 'T', files, seed=c['cseed'], single=single)
    torrents = [content.make_torrent(torf, wd, 'T', files, L, single=single, via_setter=c.get('via_setter', False))
                for _ in range(2)]
    if L % 16384:
        for t in torrents:
            t.validate = lambda: None        # small piece lengths: only verify()'s validate() gate is bypassed
    tdir = os.path.join(wd, 'torrents')
    vers = [0] * len(sizes)
    streams = {}
    gens, noise = [], 0
    try:
        for op in c['ops']:
            kind = op[0]
            try:
                if kind == 'gen':
                    t = torrents[op[1]]
                    rec = {'vers': list(vers)}
                    try:
                        rec['ret'] = t.generate(threads=op[2])
                        rec['pieces'] = t.metainfo['info'].get('pieces')
                        rec['hashes'] = list(t.hashes) if rec['pieces'] is not None else None
                        rec['npieces'] = t.pieces
                    except BaseException as e:   # noqa
                        rec['exc'] = f'{type(e).__name__}: {e}'
                    gens.append(rec)
                elif kind == 'verify':
                    t = torrents[op[1]]
                    if t.metainfo['info'].get('pieces'):
                        t.verify(top, threads=op[2], callback=lambda *a: None)
                elif kind == 'reuse':
                    t, o = torrents[op[1]], torrents[1 - op[1]]
                    if o.metainfo['info'].get('pieces'):
                        os.makedirs(tdir, exist_ok=True)
                        o.write(os.path.join(tdir, 'other.torrent'), overwrite=True)
                        t.reuse(tdir)
                elif kind == 'snew':
                    streams[op[1]] = _stream.TorrentFileStream(torrents[op[2]])
                elif kind == 'sget':
                    streams[op[1]].get_piece(op[2])
                elif kind == 'shash':
                    streams[op[1]].get_piece_hash(op[2])
                elif kind == 'sverify':
                    streams[op[1]].verify_piece(op[2])
                elif kind == 'siter':
                    it = streams[op[1]].iter_pieces()
                    n = op[2]
                    k = 0
                    for _ in it:
                        k += 1
                        if n is not None and k >= n:
                            break
                    it.close()
                elif kind == 'sclose':
                    streams[op[1]].close()
                elif kind in ('replace', 'rewrite'):
                    j, ver = op[1], op[2]
                    fp = _file_path(top, c, j)
                    data = _ver_bytes(c['cseed'], ver, j, sizes[j])
                    st = os.stat(fp)
                    if kind == 'replace':
                        with open(fp + '.tmp~', 'wb') as f:
                            f.write(data)
                        os.replace(fp + '.tmp~', fp)
                    else:
                        with open(fp, op[3]) as f:
                            f.write(data)
                    if op[4]:
                        os.utime(fp, ns=(st.st_atime_ns, st.st_mtime_ns))
                    vers[j] = ver
                else:
                    raise RuntimeError(f'bad history op {op!r}')
            except RuntimeError:
                raise
            except Exception:   # noqa   what the other operations answer is not C01's business
                noise += 1
    finally:
        for st_ in streams.values():
            try:
                st_.close()
            except Exception:   # noqa
                pass
    return {'gens': gens, 'noise': noise}


def _touched_by_piece(L, sizes, i):
    lo, hi = i * L, min((i + 1) * L, sum(sizes))
    out, pos = [], 0
    for j, sz in enumerate(sizes):
        if sz and pos < hi and pos + sz > lo:
            out.append(j)
        pos += sz
    return out


def _model_ops(c):
    """the history as the model sees it (which files an operation of another stream opens is an input)"""
    L, sizes = c['L'], c['sizes']
    out = []
    for op in c['ops']:
        k = op[0]
        if k == 'gen':
            out.append(['gen'])
        elif k == 'snew':
            out.append(['new'])
        elif k in ('sget', 'shash', 'sverify'):
            out += [['touch', op[1], j] for j in _touched_by_piece(L, sizes, op[2])]
        elif k == 'siter':
            n = op[2]
            last = len(sizes) - 1
            if n is not None:
                t = _touched_by_piece(L, sizes, max(0, n - 1))
                last = t[-1] if t else last
            out += [['touch', op[1], j] for j in range(last + 1)]
        elif k == 'sclose':
            out.append(['close', op[1]])
        elif k in ('replace', 'rewrite'):
            out.append([k, op[1], op[2]])
    return out


def _mk_history(rng, L, sizes, single=False, via_setter=False, nested=True):
    n = len(sizes)
    total = sum(sizes)
    npieces = max(1, (total + L - 1) // L)
    nonempty = [j for j, sz in enumerate(sizes) if sz] or [0]
    ops, open_streams, nstreams, ver = [], [], 0, 0
    has_pieces = [False, False]

    def mutate():
        nonlocal ver
        ver += 1
        j = rng.choice(nonempty)
        if rng.random() < 0.6:
            return ['replace', j, ver, None, rng.random() < 0.3]
        return ['rewrite', j, ver, rng.choice(['r+b', 'wb']), rng.random() < 0.3]

    def read_op(s, j=None):
        if j is None:
            i = rng.randrange(npieces)
        else:   # a piece that overlaps file j
            pos = sum(sizes[:j])
            i = min(npieces - 1, (pos + rng.randrange(max(1, sizes[j]))) // L)
        k = rng.choice(['sget', 'sget', 'shash', 'sverify', 'siter', 'siter'])
        if k == 'siter':
            return ['siter', s, rng.choice([None, i + 1, rng.randint(1, npieces)])]
        return [k, s, i]

    def new_stream():
        nonlocal nstreams
        s = nstreams
        nstreams += 1
        open_streams.append(s)
        return ['snew', s, rng.randrange(2)]

    def gen():
        k = rng.randrange(2)
        has_pieces[k] = True
        return ['gen', k, rng.randint(1, 4)]

    if rng.random() < 0.45:
        # the pattern that matters most: something holds handles, a file changes, generate() runs
        if rng.random() < 0.6:
            ops.append(gen())
        ops.append(new_stream())
        m = mutate()
        for _ in range(rng.randint(1, 3)):
            ops.append(read_op(open_streams[-1], m[1] if rng.random() < 0.7 else None))
        ops.append(m)
        if rng.random() < 0.3:
            ops.append(['sclose', open_streams.pop()])
        ops.append(gen())
    for _ in range(rng.randint(2, 9)):
        w = rng.random()
        if w < 0.22:
            ops.append(gen())
        elif w < 0.42:
            ops.append(mutate())
        elif w < 0.54 and nstreams < 4:
            ops.append(new_stream())
        elif w < 0.80 and open_streams:
            ops.append(read_op(rng.choice(open_streams)))
        elif w < 0.86 and open_streams:
            s = rng.choice(open_streams)
            open_streams.remove(s)
            ops.append(['sclose', s])
        elif w < 0.93 and any(has_pieces):
            ops.append(['verify', rng.choice([k for k in (0, 1) if has_pieces[k]]), rng.randint(1, 3)])
        elif via_setter and any(has_pieces):
            ops.append(['reuse', rng.randrange(2)])
        else:
            ops.append(gen())
    if ops[-1][0] != 'gen':
        ops.append(gen())
    return {'kind': 'history', 'L': L, 'sizes': sizes, 'paths': layouts.paths_for(n, rng, nested),
            'cseed': rng.randrange(1 << 30), 'single': single, 'via_setter': via_setter, 'ops': ops}


def gen_histories(ctx, scale=1.0):
    rng = ctx.rng
    cases = []
    for _ in range(int(ctx.n(420, 12000) * scale)):
        w = rng.random()
        if w < 0.62:
            L = rng.choice([1, 2, 3, 4, 5, 8, 16, 64])
            sizes = [max(0, layouts.boundary_sizes(rng, L)) for _ in range(rng.randint(1, 5))]
            if sum(sizes) == 0:
                sizes[0] = L + 1
            cases.append(_mk_history(rng, L, sizes))
        elif w < 0.74:
            # more files than the open-handle cap: handles are evicted and re-opened
            L = rng.choice([2, 3, 8])
            sizes = [rng.choice([1, 2, L, L + 1, 0]) for _ in range(rng.randint(12, 18))]
            if sum(sizes) == 0:
                sizes[0] = L
            cases.append(_mk_history(rng, L, sizes))
        elif w < 0.88:
            # real piece length through the public setter, files of a few pieces (and larger than any read buffer)
            L = 16384
            sizes = [rng.choice([1, L - 1, L, L + 1, rng.randint(1, 3 * L), rng.randint(2 * L, 5 * L)])
                     for _ in range(rng.randint(1, 4))]
            cases.append(_mk_history(rng, L, sizes, via_setter=True))
        else:
            L = rng.choice([2, 8, 16384])
            cases.append(_mk_history(rng, L, [max(1, layouts.boundary_sizes(rng, L))], single=True,
                                     via_setter=(L == 16384), nested=False))
    return cases


def _run_hist_chunk(cases):
    torf = common.import_torf()
    from torf import _stream
    wd = common.worker_dir()
    out = []
    for c in cases:
        try:
            obs = _run_history(torf, _stream, wd, c)
        except BaseException as e:   # noqa
            import traceback
            obs = {'harness_exc': traceback.format_exc()[-1500:]}
        out.append((c, obs))
    return out


def _bytes_from_ver_runs(c, runs):
    out = []
    for f, o, n in runs:
        ver, j = f // VER_BASE, f % VER_BASE
        out.append(_ver_bytes(c['cseed'], ver, j, c['sizes'][j])[o:o + n])
    return b''.join(out)


def _hist_nontrivial(c):
    """a file changes before a generate() while another stream is open or after an earlier run"""
    seen_gen, open_s, changed = False, set(), False
    for op in c['ops']:
        k = op[0]
        if k == 'gen':
            if changed:
                return True
            seen_gen = True
        elif k == 'snew':
            open_s.add(op[1])
        elif k == 'sclose':
            open_s.discard(op[1])
        elif k in ('replace', 'rewrite') and (open_s or seen_gen):
            changed = True
    return False


def evaluate_histories(ctx, drv, cases):
    replies = drv.run([{'op': 'c01.history', 'L': c['L'], 'cap': MAX_OPEN, 'sizes': c['sizes'],
                        'ops': _model_ops(c)} for c in cases])
    results = common.pmap(_run_hist_chunk, common.split(cases, common.NPROC * 4))
    flat = [x for chunk in results for x in chunk]
    for (c, obs), r in zip(flat, replies):
        if 'harness_exc' in obs:
            raise RuntimeError(f'harness failure: {obs["harness_exc"]}')
        case = {k: c[k] for k in ('kind', 'L', 'sizes', 'paths', 'cseed', 'single', 'via_setter', 'ops')}
        ctx.case(key=json.dumps([c['L'], c['sizes'], c['ops']]), nontrivial=_hist_nontrivial(c),
                 kind='history/' + ('single' if c['single'] else 'real-16k' if c['via_setter'] else
                                    'many-handles' if len(c['sizes']) > MAX_OPEN + 1 else 'small'))
        ctx.dist['history-ops'] += len(c['ops'])
        ctx.dist['history-noise-exceptions(other operations, ignored)'] += obs['noise']
        ctx.sample({'case': case, 'model': [m['kind'] for m in r['model']]}, limit=3)
        if not r['hyp']:
            ctx.machinery_error('history generator left the scope of C01_generate_history', case)
            continue
        if not r['specEq']:
            ctx.machinery_error('runHist != specHist although C01_generate_history is proved', case)
            continue
        if len(r['model']) != len(obs['gens']):
            ctx.machinery_error('driver and harness disagree on the number of generate() calls', case)
            continue
        for gi, (m, g) in enumerate(zip(r['model'], obs['gens'])):
            ctx.dist['history-generate-calls'] += 1
            cur = [_ver_bytes(c['cseed'], v, j, c['sizes'][j]) for j, v in enumerate(g['vers'])]
            stream = b''.join(cur)
            want = [stream[i:i + c['L']] for i in range(0, len(stream), c['L'])]
            exp = b''.join(common.sha1(w) for w in want)
            # model (= specification, proved) in bytes
            mp = [_bytes_from_ver_runs(c, runs) for runs in m.get('pieces', [])]
            if m['kind'] != 'stored' or mp != want:
                ctx.machinery_error('model pieces differ from the chunks of the current bytes', case)
                break
            ok = ('exc' not in g and g['ret'] is True and g['pieces'] == exp and g['npieces'] == r['count']
                  and g['hashes'] == [common.sha1(w) for w in want])
            if not ok:
                wrong = None
                if g.get('pieces') and len(g['pieces']) == len(exp):
                    wrong = [i for i in range(len(want)) if g['pieces'][20 * i:20 * i + 20] != exp[20 * i:20 * i + 20]]
                ctx.violation(f'generate() #{gi + 1} of the history did not store the sha1 of the chunks of the bytes '
                              'the files hold when it ran', case,
                              {'ret': True, 'pieces': exp.hex()[:120], 'count': r['count'], 'file_versions': g['vers']},
                              {'ret': g.get('ret'), 'exc': g.get('exc'), 'pieces': (g.get('pieces') or b'').hex()[:120],
                               'wrong_piece_indexes': wrong}, MATCHERS)
                break


# ====================================================================================== schedules
# generate() under the deterministic scheduler with hasher faults (model: lean/Torf/Model/PipelineHF.lean,
# theorems C01_hash_fault_sound, C01_hash_fault_lost_not_success, C01_hash_fault_off_refines).

STRATS = ['uniform', 'uniform', 'pct', 'pct', 'stall', 'timeouts-first']


def _mk_strategy(rng, threads):
    kind = rng.choice(STRATS)
    params = {}
    if kind == 'stall':
        params = {'victim': rng.choice(['main', 'reader', 'janitor'] + [f'hasher{i+1}' for i in range(threads)]),
                  'patience': rng.choice([30, 200, 600])}
    elif kind == 'pct':
        params = {'d': rng.choice([1, 2, 3]), 'horizon': rng.choice([60, 200, 500])}
    return {'kind': kind, 'params': params, 'seed': rng.randrange(1 << 30)}


def gen_sched(ctx, scale=1.0):
    rng = ctx.rng
    cases = []
    for _ in range(int(ctx.n(700, 30000) * scale)):
        threads = rng.choice([1, 2, 2, 2, 3, 4])
        cap = 3 * threads
        L = rng.choice([2, 3, 4, 8])
        npieces = max(1, rng.choice([1, 2, 3, cap - 1, cap, cap + 1, cap + threads + 2, rng.randint(1, 2 * cap + 3)]))
        total = max(1, npieces * L - rng.choice([0, 0, 1, L - 1]))
        nfiles = rng.randint(1, 3)
        cuts = sorted(rng.sample(range(1, total), min(total - 1, nfiles - 1))) if total > 1 else []
        sizes = [b - a for a, b in zip([0] + cuts, cuts + [total])]
        faults = []
        w = rng.random()
        if w > (0.55 if threads == 1 else 0.2):
            for _ in range(1 if w < 0.85 else 2):
                # mostly a hasher that may die from boredom (2..N); sometimes the vital one
                h = 1 if (threads == 1 or rng.random() < 0.12) else rng.randint(2, threads)
                f = [f'hasher{h}', rng.choice([1, 1, 1, 2, 2, 3, 4])]
                if f not in faults:
                    faults.append(f)
        cases.append({'kind': 'sched', 'mode': 'generate', 'L': L, 'sizes': sizes,
                      'paths': layouts.paths_for(len(sizes), rng, nested=False), 'cseed': rng.randrange(1 << 30),
                      'threads': threads, 'disk': ['ok'] * len(sizes), 'flips': [], 'cb': None, 'interval': 0,
                      'strategy': _mk_strategy(rng, threads), 'hash_fault': faults,
                      'max_steps': 2500 if faults else 20000})
    return cases


def _run_sched_chunk(cases):
    from harness.sched import runner
    torf = common.import_torf()
    wd = common.worker_dir()
    out = []
    for c in cases:
        try:
            obs = runner.run_case(torf, wd, c)
            obs.pop('gate_nows', None)
            obs.pop('calls', None)
        except BaseException as e:   # noqa
            import traceback
            obs = {'harness_exc': traceback.format_exc()[-1500:]}
        out.append((c, obs))
    return out


def evaluate_sched(ctx, drv, cases):
    results = common.pmap(_run_sched_chunk, common.split(cases, common.NPROC * 4))
    flat = [x for chunk in results for x in chunk]
    reqs = []
    for c, obs in flat:
        if 'harness_exc' in obs:
            raise RuntimeError(f'harness failure: {obs["harness_exc"]}')
        n = obs['total']
        pqm = (obs.get('structure') or {}).get('pq_max')
        cfg = {'N': c['threads'], 'cap': pqm if pqm and pqm > 0 else 3 * c['threads'], 'items': ['data'] * n,
               'readFault': None, 'refuse': [], 'raiseOnBad': True, 'cbByDone': []}
        reqs.append({'op': 'c01.replayx', 'cfg': cfg, 'L': c['L'], 'sizes': c['sizes'],
                     'hashFault': [[int(h[6:]) - 1, k - 1] for h, k in c['hash_fault']], 'trace': obs['trace']})
    replies = drv.run(reqs)
    for (c, obs), rep in zip(flat, replies):
        case = {k: c[k] for k in ('kind', 'mode', 'L', 'sizes', 'paths', 'cseed', 'threads', 'disk', 'flips', 'cb',
                                  'interval', 'strategy', 'hash_fault', 'max_steps')}
        fired = sorted(h for h, _ in obs['hash_fault_fired'])
        ctx.case(key=json.dumps(case, sort_keys=True), nontrivial=bool(fired) or c['threads'] >= 2,
                 kind=f"sched/{c['strategy']['kind']}/N{c['threads']}/{'fault' if c['hash_fault'] else 'nofault'}")
        ctx.dist['sched-steps'] += obs['steps']
        ctx.sample({'case': case, 'outcome': obs['outcome'], 'result': obs['result'], 'fired': obs['hash_fault_fired'],
                    'trace_tail': obs['trace'][-8:]}, limit=3)
        if obs['outcome'] == 'budget':
            ctx.dist['sched: step budget exhausted (inconclusive)'] += 1
            continue
        res = obs['result']
        ret = res.get('returned') if res and 'returned' in res else None
        stored = obs['pieces_stored']
        hang = obs['outcome'] in ('deadlock', 'livelock')
        # ---- I in S: True only together with the complete correct string, otherwise nothing stored
        problems = []
        if ret is True:
            if stored != obs['want_pieces']:
                n_got = len(stored or b'') / 20
                problems.append(f'generate() returned True but stored {n_got:g} digests that are not the '
                                f'{obs["total"]} digests of the content in order')
        else:
            if stored is not None:
                problems.append(f'generate() did not return True ({res}) but stored a piece string')
            if res and 'returned' in res and ret is not False:
                problems.append(f'generate() returned {ret!r}')
        if not fired and not hang and ret is not True:
            problems.append(f'no fault fired but generate() did not return True: {res}')
        if not fired and hang:
            problems.append(f'no fault fired but the run does not return: threads at {obs["stuck"]}')
        if problems:
            ctx.violation(f'generate(threads={c["threads"]}) under schedule {c["strategy"]["kind"]} with hasher faults '
                          f'{c["hash_fault"]}: ' + '; '.join(problems), case,
                          {'ret_true_only_with': obs['want_pieces'].hex()[:120], 'digests': obs['total']},
                          {'result': res, 'stored': (stored or b'').hex()[:120], 'fired': obs['hash_fault_fired'],
                           'outcome': obs['outcome'], 'trace_tail': obs['trace'][-25:]}, MATCHERS)
            continue
        if not fired:
            ctx.dist['sched: no fault fired -> True'] += 1
        elif hang:
            ctx.dist['sched: fault, run does not return (no success claimed; see notes: candidate finding)'] += 1
        elif ret is True:
            ctx.dist['sched: fault fired, run still complete -> True'] += 1
        elif ret is False:
            ctx.dist['sched: fault swallowed (dead hasher pruned by the janitor) -> False, nothing stored'] += 1
        else:
            ctx.dist['sched: fault re-raised by join -> exception, nothing stored'] += 1
        # ---- M in S (theorem) and I = M (replay of the trace in the model with hasher faults)
        if not rep['ok']:
            ctx.corr_break('c01.replayx', case, {k: rep[k] for k in rep if k != 'id'},
                           {'trace_around': obs['trace'][max(0, rep['at'] - 6): rep['at'] + 2]})
            continue
        if rep['hyp'] and not rep['sound']:
            ctx.machinery_error('model state contradicts C01_hash_fault_sound / C01_hash_fault_lost_not_success', case)
            continue
        mg = (rep['generate'] or {}).get('kind')
        if hang:
            agree = (not rep['terminal']) and (not rep['canProgress'])
        elif ret is True:
            agree = rep['terminal'] and mg == 'stored'
        elif ret is False:
            agree = rep['terminal'] and mg == 'cancelled'
        else:
            is_inj = bool(res and 'raised' in res and res['raised'].get('exc_type') == 'MemoryError')
            agree = rep['terminal'] and mg == 'raised' and is_inj and 'hasherExc' in (rep['result'] or {})
        if agree and sorted(rep['dead']) != fired:
            agree = False
        if not agree:
            ctx.corr_break('c01.replayx(final)', case,
                           {'terminal': rep['terminal'], 'canProgress': rep['canProgress'], 'result': rep['result'],
                            'generate': mg, 'dead': rep['dead'], 'lost': rep['lost']},
                           {'outcome': obs['outcome'], 'result': res, 'fired': obs['hash_fault_fired'],
                            'stuck': obs['stuck']})


def _corpus_cases():
    out = []
    for p in sorted(glob.glob(os.path.join(common.CORPUS_DIR, 'C01', '*.json'))):
        cc = json.load(open(p))
        out.append(cc.get('case', cc))
    return out


def _dispatch(ctx, drv, cases):
    """route cases (corpus, replay) to the evaluator of their kind"""
    plain = [c for c in cases if c.get('kind') not in ('history', 'sched')]
    hist = [c for c in cases if c.get('kind') == 'history']
    sch = [c for c in cases if c.get('kind') == 'sched']
    if plain:
        evaluate(ctx, drv, plain)
    if hist:
        evaluate_histories(ctx, drv, hist)
    if sch:
        evaluate_sched(ctx, drv, sch)


def run(ctx, drv):
    ctx.notes['rule'] = RULE
    ctx.notes['assumptions'] = [
        'SHA-1 is a parameter H of the model; the harness applies real hashlib.sha1 to the model pieces',
        'Torrent.pieces uses float division: exact for sizes < 2^52 (generators stay far below)',
        'the model covers content whose files are all present with the recorded size (other branch: C10)',
        'thread schedules of the fault-free pipeline are covered by C03; here the collector sort is the theorem C01_collect_perm',
        'histories: files do not change while a generate() is in progress; replacements keep the recorded size; a handle '
        'obtained from the cache is read from offset 0 to EOF (fh.seek(0) is unconditional; offsets left by earlier reads: C19)',
        'schedules: same granularity and shim as C03/C04 (one label per queue/event/thread operation); a hasher fault is an '
        'exception raised by sha1() inside HasherPool._handle_piece (module global torf._generate.sha1 replaced from the harness)',
    ]
    corpus = _corpus_cases()
    if corpus:
        _dispatch(ctx, drv, corpus)
    evaluate(ctx, drv, gen_cases(ctx))
    evaluate_histories(ctx, drv, gen_histories(ctx))
    evaluate_sched(ctx, drv, gen_sched(ctx))
    ctx.exhaustive = False


def search(ctx, drv):
    evaluate(ctx, drv, gen_cases(ctx, scale=3.0))
    evaluate_histories(ctx, drv, gen_histories(ctx, scale=3.0))
    evaluate_sched(ctx, drv, gen_sched(ctx, scale=3.0))


def replay(ctx, drv, rp):
    c = dict(rp['case'])
    if c.get('kind') not in ('history', 'sched'):
        c.setdefault('level', 'both')
    _dispatch(ctx, drv, [c])
    return {'fails': bool(ctx.violations or ctx.corr_breaks), 'violations': ctx.violations,
            'corr_breaks': ctx.corr_breaks}
