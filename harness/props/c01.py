"""
C01 — piece hashes are the SHA-1 of the concatenated content stream.

Correspondence: the Lean model `Stream.iterPieces` (proved equal to `chunks L stream`) is run on
the same layout as the real `TorrentFileStream.iter_pieces` and `Torrent.generate`; the model's
pieces (sent as runs of (file, offset, length)) are turned into bytes from the real files and
compared byte for byte / digest for digest.
"""
import glob
import json
import os

from harness import common
from harness.gen import layouts
from harness.impl import content

MATCHERS = {}

RULE = ('layouts = (piece length, file sizes in metainfo order): exhaustive small scopes + '
        'boundary-directed random (runs of tiny files, >11 files, nested dirs, real 16 KiB '
        'multiples, 1..8 hasher threads); non-trivial = at least two files and a file boundary '
        'strictly inside a piece; distinct = distinct (L, sizes).  '
        'histories = layout + a sequence of operations in one process (generate()/verify()/reuse() on two Torrent '
        'objects over the same paths, other TorrentFileStream objects opened / read (get_piece, verify_piece, partial '
        'and full iteration) / closed, listed files replaced atomically or rewritten in place with content of the '
        'same size, with and without the old mtime; edits of the metainfo mapping between runs on one object: info["files"] '
        're-ordered in place (sort, reverse, swap, slice assignment, delete+append/insert), an entry replaced by an equal '
        'one, an entry\'s length or path edited in place with and without the disk following, the list replaced by a copy / '
        'a re-ordered list, name and piece length changed in the mapping and through the attributes, getters read in '
        'between (files, filepaths, size, pieces, filetree, ...), the files / filepaths setters, copy() and continuing on '
        'both objects); every generate() of the history is judged against the raw metainfo of that object and the bytes '
        'on disk at that moment (success with exactly those digests when they agree, failure that stores nothing when '
        'they do not); non-trivial = a file changes before a generate() while another stream is open or after an earlier '
        'run, or an object\'s metainfo is edited between a look at it (getter / run) and a generate() on it; distinct = '
        'distinct (layout, operations).  '
        'failing read layer = layout + a fault plan for the RAW file under a real io.BufferedReader (short raw reads of '
        '1 byte .. 8 KiB, raw read calls that raise EIO / EINTR / EAGAIN / ESTALE / ETIMEDOUT / ENOMEM / EBADF or '
        'MemoryError once, a few times or for ever at the first / a middle / the last raw read of a file, of a piece '
        'spanning two files, of the final short piece; raw seeks that raise): a read() then consumes bytes before it '
        'raises; judged: True only with exactly the chunk digests, otherwise nothing stored, no fault => True; '
        'non-trivial = a fault fired; distinct = distinct (layout, plan, level).  '
        'schedules = generate() under the deterministic scheduler (strategies uniform / PCT / stall / '
        'timeouts-first, 1..4 hashers) x hasher faults (the n-th sha1() call of hasher k raises); non-trivial = a fault '
        'fired or >= 2 hashers; distinct = distinct (layout, strategy+seed, fault plan)')


def _run_chunk(cases):
    torf = common.import_torf()
    from torf import _stream
    wd = common.worker_dir()
    out = []
    for c in cases:
        L, sizes = c['L'], c['sizes']
        files = [{'path': p, 'size': s} for p, s in zip(c['paths'], sizes)]
        single = c.get('single', False)
        name = 'T'
        obs = {}
        try:
            contents = content.make_tree(wd, name, files, seed=c['cseed'], single=single)
            t = content.make_torrent(torf, wd, name, files, L, single=single,
                                     via_setter=c.get('via_setter', False))
            oom = c.get('oom') or c.get('short')
            if oom:
                import builtins
                plan = {'n': 0, 'at': oom['at'], 'burst': oom.get('burst', 1), 'fired': 0, 'lost': 0,
                        'short': bool(c.get('short'))}

                class _F:
                    def __init__(self, fh):
                        self._fh = fh
                        self._eof = False

                    def read(self, *a):
                        plan['n'] += 1
                        if plan['short']:
                            # the file is truncated by someone else while it is being read: from the
                            # at-th read() on this handle is at EOF
                            if plan['n'] == plan['at']:
                                self._eof = True
                                plan['fired'] += 1
                            if self._eof:
                                plan['lost'] += len(self._fh.read(*a))
                                return b''
                            return self._fh.read(*a)
                        if plan['at'] <= plan['n'] < plan['at'] + plan['burst']:
                            plan['fired'] += 1
                            raise MemoryError('injected')
                        return self._fh.read(*a)

                    def __getattr__(self, k):
                        return getattr(self._fh, k)
                _stream.open = lambda p, mode='r', *a, **k: _F(builtins.open(p, mode, *a, **k))
            if c['level'] in ('stream', 'both'):
                with _stream.TorrentFileStream(t) as tfs:
                    items = list(tfs.iter_pieces())
                obs['stream'] = [(p, [type(e).__name__ for e in exc]) for (p, fp, exc) in items]
            if c['level'] in ('generate', 'both'):
                r = t.generate(threads=c.get('threads'))
                obs['generate'] = r
                obs['pieces'] = t.metainfo['info'].get('pieces')
                obs['hashes'] = t.hashes
                obs['npieces'] = t.pieces
        except BaseException as e:  # noqa
            obs['exc'] = f'{type(e).__name__}: {e}'
            obs['exc_type'] = type(e).__name__
        finally:
            _stream.__dict__.pop('open', None)
        if c.get('oom') or c.get('short'):
            obs['oom_fired'] = plan['fired'] if 'plan' in dir() else 0
            obs['bytes_lost'] = plan['lost'] if 'plan' in dir() else 0
        out.append((c, obs, contents))
    return out


def _mk_case(L, sizes, rng, level='stream', threads=None, nested=True, single=False, via_setter=False):
    return {'L': L, 'sizes': sizes, 'paths': layouts.paths_for(len(sizes), rng, nested),
            'cseed': rng.randrange(1 << 30), 'level': level, 'threads': threads,
            'single': single, 'via_setter': via_setter}


def gen_cases(ctx, scale=1.0):
    rng = ctx.rng
    cases = []
    # 1. exhaustive small scopes (stream level; every 7th also end-to-end through generate)
    if ctx.thorough:
        ex = list(layouts.exhaustive([1, 2, 3], 4)) + list(layouts.exhaustive([4], 3))
    else:
        ex = list(layouts.exhaustive([1, 2], 4)) + list(layouts.exhaustive([3], 3))
    ex = [(L, s) for (L, s) in ex if sum(s) > 0]
    for i, (L, sizes) in enumerate(ex):
        lvl = 'both' if i % (7 if ctx.thorough else 11) == 0 else 'stream'
        cases.append(_mk_case(L, sizes, rng, lvl, threads=1 + i % 4, nested=False))
    ctx.notes['exhaustive_scope'] = ('L<=3 with <=4 files and L=4 with <=3 files, sizes 0..2L+1'
                                     if ctx.thorough else
                                     'L<=2 with <=4 files and L=3 with <=3 files, sizes 0..2L+1')
    # 2. boundary-directed random, small piece lengths written directly into the metainfo
    for _ in range(int(ctx.n(700, 20000) * scale)):
        L = rng.choice([1, 2, 3, 4, 5, 7, 8, 16, 31, 64])
        shape, sizes = layouts.random_sizes(rng, L)
        c = _mk_case(L, sizes, rng, rng.choice(['stream', 'both', 'generate']), threads=rng.randint(1, 8))
        c['shape'] = shape
        cases.append(c)
    # 3. real piece lengths through the public setter
    for _ in range(int(ctx.n(60, 1500) * scale)):
        L = 16384 * rng.choice([1, 1, 2, 3, 4])
        n = rng.randint(1, 14)
        sizes = [max(0, rng.choice([0, 1, L - 1, L, L + 1, rng.randint(0, 2 * L), rng.randint(0, L // 8)]))
                 for _ in range(n)]
        if sum(sizes) == 0:
            sizes[0] = L + 1
        c = _mk_case(L, sizes, rng, 'generate', threads=rng.randint(1, 8), via_setter=True)
        c['shape'] = 'real-16k'
        cases.append(c)
    # 3b. files much larger than the piece length, piece lengths that are not powers of two
    for _ in range(int(ctx.n(24, 400) * scale)):
        L = 16384 * rng.choice([1, 3, 3, 5, 6, 7, 12, 48])
        n = rng.randint(1, 3)
        sizes = [rng.choice([rng.randint(1 << 20, 3 << 20), rng.randint(1, 2 * L), (1 << 20) + L + 1]) for _ in range(n)]
        sizes[rng.randrange(n)] = rng.randint((1 << 20) + 1, 3 << 20)
        c = _mk_case(L, sizes, rng, 'both', threads=rng.randint(1, 4), via_setter=True)
        c['shape'] = 'big-files'
        cases.append(c)
    # 3c. a transient out-of-memory burst while reading (the run recovers): the result must still be right
    for _ in range(int(ctx.n(150, 3000) * scale)):
        L = rng.choice([2, 3, 8, 64, 16384])
        shape, sizes = layouts.random_sizes(rng, L, nmax=10)
        c = _mk_case(L, sizes, rng, 'generate', threads=rng.randint(1, 4))
        c['oom'] = {'at': rng.randint(1, 2 * (sum(sizes) // L + len(sizes)) + 1), 'burst': rng.choice([1, 1, 2, 3])}
        c['shape'] = 'transient-oom'
        cases.append(c)
    # 3d. a file shrinks while it is being read (someone truncates it after its size was checked): whatever the
    #     run reports, True may only come with exactly ceil(total/L) digests
    for _ in range(int(ctx.n(120, 2500) * scale)):
        L = rng.choice([2, 3, 8, 64, 16384])
        shape, sizes = layouts.random_sizes(rng, L, nmax=8)
        c = _mk_case(L, sizes, rng, 'generate', threads=rng.randint(1, 4))
        c['short'] = {'at': rng.randint(1, (sum(sizes) // L + len(sizes)) + 1)}
        c['shape'] = 'truncated-mid-run'
        cases.append(c)
    # 4. single-file torrents
    for _ in range(int(ctx.n(40, 600) * scale)):
        L = rng.choice([1, 2, 3, 8, 16384])
        sizes = [max(1, layouts.boundary_sizes(rng, L))]
        c = _mk_case(L, sizes, rng, 'both', threads=rng.randint(1, 4), nested=False, single=True)
        c['shape'] = 'single'
        cases.append(c)
    return cases


def evaluate(ctx, drv, cases):
    replies = drv.run([{'op': 'c01.iter', 'L': c['L'], 'sizes': c['sizes']} for c in cases])
    by_id = {id(c): r for c, r in zip(cases, replies)}
    results = common.pmap(_run_chunk, common.split(cases, common.NPROC * 4))
    k = 0
    for chunk in results:
        for (c, obs, contents) in chunk:
            r = replies[k]
            k += 1
            ctx.case(key=layouts.nontrivial_key(c['L'], c['sizes']),
                     nontrivial=layouts.nontrivial_key(c['L'], c['sizes']) is not None,
                     kind=c.get('shape', 'exhaustive') + '/' + c['level'])
            if len(c['sizes']) > 11:
                ctx.dist['more-files-than-handle-cap'] += 1
            if not r['specEq']:
                ctx.machinery_error('model != spec although C01_iter_eq_chunks is proved', c)
                continue
            want = content.pieces_from_runs(r['model'], contents)
            case = {k2: c[k2] for k2 in ('L', 'sizes', 'paths', 'cseed', 'level', 'threads', 'single', 'via_setter')}
            if c.get('oom'):
                case['oom'] = c['oom']
            ctx.sample({'case': case, 'model_pieces': r['model'][:3]})
            if c.get('short'):
                case['short'] = c['short']
                if 'exc' in obs:
                    ctx.dist['truncated-mid-run: raised ' + str(obs.get('exc_type'))] += 1
                elif obs.get('generate') is True:
                    ctx.dist['truncated-mid-run: True (%s)' % ('nothing lost' if not obs.get('bytes_lost') else
                                                               'bytes lost, count still right')] += 1
                    if len(obs['pieces'] or b'') != 20 * r['count'] or \
                            (not obs.get('bytes_lost') and obs['pieces'] != b''.join(common.sha1(w) for w in want)):
                        ctx.violation('generate() returned True with a piece string that does not hold ceil(size/L) '
                                      'digests (a file shrank while it was read)', case,
                                      {'digests': r['count']}, {'digests': len(obs['pieces'] or b'') / 20,
                                                                'ret': obs['generate'], 'bytes_lost': obs.get('bytes_lost')},
                                      MATCHERS)
                else:
                    ctx.dist['truncated-mid-run: ' + repr(obs.get('generate'))] += 1
                    if obs.get('pieces') is not None:
                        ctx.violation('generate() did not return True but stored a piece string', case,
                                      {'pieces': None}, {'ret': obs.get('generate'),
                                                         'pieces': (obs['pieces'] or b'').hex()[:80]}, MATCHERS)
                continue
            if 'exc' in obs:
                if c.get('oom') and obs.get('exc_type') == 'ReadError':
                    ctx.dist['oom-gave-up(ReadError, not a successful run)'] += 1
                    continue
                ctx.violation(f'hashing/streaming raised {obs["exc"]}', case, 'pieces', obs['exc'])
                continue
            if 'stream' in obs:
                got = [p for p, _ in obs['stream']]
                excs = [e for _, e in obs['stream'] if e]
                if got != want or excs:
                    ctx.violation('iter_pieces() differs from the chunks of the concatenated stream',
                                  case, [w.hex()[:64] for w in want[:6]],
                                  [(g.hex()[:64] if g is not None else None) for g in got[:6]] + excs[:3])
                    continue
            if 'generate' in obs:
                exp = b''.join(common.sha1(w) for w in want)
                ok = (obs['generate'] is True and obs['pieces'] == exp
                      and len(exp) == 20 * r['count'] and obs['npieces'] == r['count']
                      and list(obs['hashes']) == [common.sha1(w) for w in want])
                if not ok:
                    ctx.violation('generate() did not store sha1 of the consecutive chunks',
                                  case, {'pieces': exp.hex()[:120], 'count': r['count'], 'ret': True},
                                  {'pieces': (obs['pieces'] or b'').hex()[:120], 'ret': obs['generate'],
                                   'npieces': obs['npieces']})


# ====================================================================================== histories
# generate() inside a history of the process (model: lean/Torf/Model/GenHistory.lean; theorems
# C01_generate_history, C01_generate_reads_current_metainfo): only the metainfo of the object as it is when
# generate() runs and the bytes the listed files hold at that moment matter.

MAX_OPEN = 10       # TorrentFileStream.max_open_files (the model's `cap`)
VER_BASE = 1 << 20
GHOST = 1000000     # ids of paths the metainfo names but that were never created
MAX_TORRENTS = 4
META_KINDS = ('m_sort', 'm_reverse', 'm_swap', 'm_slice', 'm_delapp', 'm_delins', 'm_len', 'm_path', 'm_entry',
              'm_newlist', 'm_name', 'm_L', 'm_setfiles', 'm_setfilepaths', 'copy')


def _ver_bytes(cseed, ver, j, size):
    """content version `ver` of path j (version 0 is what content.make_tree writes)"""
    return content.file_bytes(cseed + 104729 * ver, j, size)


def _touched(L, ents_sizes, i):
    """positions (in the listed order) of the files that overlap piece i"""
    total = sum(ents_sizes)
    lo, hi = i * L, min((i + 1) * L, total)
    out, pos = [], 0
    for j, sz in enumerate(ents_sizes):
        if sz and pos < hi and pos + sz > lo:
            out.append(j)
        pos += sz
    return out


def _run_history(torf, _stream, wd, c):
    import copy as _copy
    import pathlib
    import random as _random
    L, sizes = c['L'], c['sizes']
    files = [{'path': p, 'size': sz} for p, sz in zip(c['paths'], sizes)]
    single = c.get('single', False)
    top = os.path.join(wd, 'T')
    content.make_tree(wd, 'T', files, seed=c['cseed'], single=single)

    def attach(t):
        t._path = pathlib.Path(top)      # as content.make_torrent does: content path without re-scanning
        t.validate = lambda: None        # only verify()'s validate() gate (small / edited piece lengths)
        return t

    torrents = [attach(content.make_torrent(torf, wd, 'T', files, L, single=single,
                                            via_setter=c.get('via_setter', False))) for _ in range(2)]
    tdir = os.path.join(wd, 'torrents')
    init_keys = [() if single else tuple(p) for p in c['paths']]
    disk = {k: {'id': j, 'ver': 0, 'size': sizes[j]} for j, k in enumerate(init_keys)}
    blobs = {(j, 0): sizes[j] for j in range(len(sizes))}
    ghosts, lids, names, keep = {}, {}, {}, []
    fresh = {'ver': 1000, 'id': len(sizes)}

    def pid(key):
        if key in disk:
            return disk[key]['id']
        return ghosts.setdefault(key, GHOST + len(ghosts))

    def fpath(key):
        return top if (single or key == ()) else os.path.join(top, *key)

    def snap(t):
        info = t.metainfo['info']
        fl = info.get('files')
        if isinstance(fl, list):
            keep.append(fl)          # keep every list object alive: id() must stay unique
            ents = [(tuple(str(x) for x in fi['path']), fi['length']) for fi in fl]
            lid = lids.setdefault(id(fl), len(lids) + 1)
        elif 'length' in info:
            ents, lid = [((), info['length'])], 0
        else:
            ents, lid = [], 0
        return {'L': info.get('piece length', 0), 'ents': ents,
                'name': names.setdefault(str(info.get('name')), len(names)), 'lid': lid}

    def meta_json(sn):
        # no content at all (`_set_files` removed 'files' and 'piece length'): the run fails whatever the piece length
        return {'L': sn['L'] if (sn['ents'] or sn['L'] > 0) else 1, 'files': [[pid(k), ln] for k, ln in sn['ents']],
                'name': sn['name'], 'listId': sn['lid']}

    def write_file(key, ver, size, how):
        """new content version of an existing path; how = 'replace' | 'r+b' | 'wb'"""
        d = disk[key]
        fp = fpath(key)
        data = _ver_bytes(c['cseed'], ver, d['id'], size)
        if how == 'replace':
            with open(fp + '.tmp~', 'wb') as f:
                f.write(data)
            os.replace(fp + '.tmp~', fp)
        else:
            with open(fp, how) as f:
                f.write(data)
                f.truncate(size)
        d['ver'], d['size'] = ver, size
        blobs[(d['id'], ver)] = size
        mops.append(['replace' if how == 'replace' else 'rewrite', d['id'], ver, size])

    last = [snap(t) for t in torrents]
    metas0 = [meta_json(sn) for sn in last]
    mops, gens, noise = [], [], 0
    streams = {}

    def flist(t):
        fl = t.metainfo['info'].get('files')
        return fl if isinstance(fl, list) and fl else None

    try:
        for op in c['ops']:
            kind = op[0]
            try:
                if kind == 'gen':
                    k = op[1] % len(torrents)
                    t = torrents[k]
                    sn = snap(t)
                    rec = {'k': k, 'sn': sn, 'before': t.metainfo['info'].get('pieces'),
                           'disk': {key: dict(disk[key]) for key, _ in sn['ents'] if key in disk}}
                    mops.append(['gen', k])
                    try:
                        rec['ret'] = t.generate(threads=op[2])
                    except BaseException as e:   # noqa
                        rec['exc'] = f'{type(e).__name__}: {e}'[:200]
                    rec['pieces'] = t.metainfo['info'].get('pieces')
                    rec['hashes'] = list(t.hashes)
                    rec['npieces'] = t.pieces
                    gens.append(rec)
                elif kind == 'verify':
                    t = torrents[op[1] % len(torrents)]
                    if t.metainfo['info'].get('pieces'):
                        t.verify(top, threads=op[2], callback=lambda *a: None)
                elif kind == 'reuse':
                    k = op[1] % len(torrents)
                    t, o = torrents[k], torrents[(k + 1) % len(torrents)]
                    if o.metainfo['info'].get('pieces'):
                        os.makedirs(tdir, exist_ok=True)
                        o.write(os.path.join(tdir, 'other.torrent'), overwrite=True)
                        t.reuse(tdir)
                elif kind == 'snew':
                    k = op[2] % len(torrents)
                    streams[op[1]] = (_stream.TorrentFileStream(torrents[k]), k)
                    mops.append(['new'])
                elif kind in ('sget', 'shash', 'sverify', 'siter'):
                    st, k = streams[op[1]]
                    sn = snap(torrents[k])
                    szs = [ln for _, ln in sn['ents']]
                    if kind == 'siter':
                        n = op[2]
                        lastpos = len(szs) - 1
                        if n is not None and sn['L'] > 0:
                            tt = _touched(sn['L'], szs, max(0, n - 1))
                            lastpos = tt[-1] if tt else lastpos
                        pos = list(range(lastpos + 1))
                    else:
                        pos = _touched(sn['L'], szs, op[2]) if sn['L'] > 0 else []
                    mops.extend(['touch', op[1], pid(sn['ents'][j][0])] for j in pos if sn['ents'][j][0] in disk)
                    if kind == 'sget':
                        st.get_piece(op[2])
                    elif kind == 'shash':
                        st.get_piece_hash(op[2])
                    elif kind == 'sverify':
                        st.verify_piece(op[2])
                    else:
                        it = st.iter_pieces()
                        n, cnt = op[2], 0
                        for _ in it:
                            cnt += 1
                            if n is not None and cnt >= n:
                                break
                        it.close()
                elif kind == 'sclose':
                    mops.append(['close', op[1]])
                    streams[op[1]][0].close()
                elif kind in ('replace', 'rewrite'):
                    key = init_keys[op[1]]
                    st_ = os.stat(fpath(key))
                    write_file(key, op[2], disk[key]['size'], 'replace' if kind == 'replace' else op[3])
                    if op[4]:
                        os.utime(fpath(key), ns=(st_.st_atime_ns, st_.st_mtime_ns))
                # ------------------------------------------------ the metainfo side
                elif kind in META_KINDS or kind == 'm_get':
                    k = op[1] % len(torrents)
                    t = torrents[k]
                    info = t.metainfo['info']
                    fl = flist(t)
                    n = len(fl) if fl else 0
                    if kind == 'm_get':
                        mops.append(['get', k])
                        w = op[2]
                        if w == 'files-iter':
                            list(t.files)
                        elif w == 'filepaths-iter':
                            list(t.filepaths)
                        else:
                            getattr(t, w)
                    elif kind == 'm_sort' and fl:
                        keyf = {'path': lambda fi: fi['path'], 'revpath': lambda fi: fi['path'][::-1],
                                'size': lambda fi: (fi['length'], fi['path'])}[op[2]]
                        fl.sort(key=keyf, reverse=bool(op[3]))
                    elif kind == 'm_reverse' and fl:
                        fl.reverse()
                    elif kind == 'm_swap' and n >= 2:
                        i, j = op[2] % n, op[3] % n
                        fl[i], fl[j] = fl[j], fl[i]
                    elif kind == 'm_slice' and fl:
                        perm = list(fl)
                        _random.Random(op[2]).shuffle(perm)
                        fl[:] = perm
                    elif kind == 'm_delapp' and fl:
                        fl.append(fl.pop(op[2] % n))
                    elif kind == 'm_delins' and fl:
                        e = fl[op[2] % n]
                        del fl[op[2] % n]
                        fl.insert(op[3] % n, e)
                    elif kind == 'm_entry' and fl:
                        i = op[2] % n
                        fl[i] = {'length': fl[i]['length'], 'path': list(fl[i]['path'])}
                    elif kind == 'm_newlist' and fl:
                        if op[2] == 'copy':
                            info['files'] = list(fl)
                        elif op[2] == 'deepcopy':
                            info['files'] = _copy.deepcopy(fl)
                        else:
                            perm = list(fl)
                            _random.Random(op[3]).shuffle(perm)
                            info['files'] = perm
                    elif kind == 'm_len':
                        if fl:
                            fi = fl[op[2] % n]
                            key, holder, field = tuple(str(x) for x in fi['path']), fi, 'length'
                        elif 'length' in info:
                            key, holder, field = (), info, 'length'
                        else:
                            continue
                        new = max(1, holder[field] + op[3])
                        if new == holder[field]:
                            new += 1
                        holder[field] = new
                        if op[4] and key in disk:
                            fresh['ver'] += 1
                            write_file(key, fresh['ver'], new, op[5])
                    elif kind == 'm_path' and fl:
                        fi = fl[op[2] % n]
                        newpath = [str(x) for x in fi['path'][:-1]] + [op[3]]
                        if op[4] == 'inplace':
                            fi['path'][-1] = op[3]
                        else:
                            fi['path'] = newpath
                        key = tuple(newpath)
                        if op[5] and key not in disk and isinstance(fi['length'], int) and fi['length'] >= 0:
                            fresh['ver'] += 1
                            d = disk[key] = {'id': fresh['id'], 'ver': fresh['ver'], 'size': fi['length']}
                            fresh['id'] += 1
                            with open(fpath(key), 'wb') as f:
                                f.write(_ver_bytes(c['cseed'], d['ver'], d['id'], d['size']))
                            blobs[(d['id'], d['ver'])] = d['size']
                            mops.append(['create', d['id'], d['ver'], d['size']])
                    elif kind == 'm_name':
                        if op[2] == 'dict':
                            info['name'] = op[3]
                        else:
                            t.name = op[3]
                    elif kind == 'm_L':
                        if op[2] == 'dict':
                            info['piece length'] = op[3]
                        else:
                            t.piece_size = op[3]
                    elif kind == 'm_setfiles':
                        try:
                            how = op[2]
                            if how == 'remove':
                                fs = t.files
                                if len(fs) > 1:
                                    fs.remove(fs[op[3] % len(fs)])
                            else:
                                fs = list(t.files)
                                if how == 'reversed':
                                    fs.reverse()
                                elif how == 'drop' and len(fs) > 1:
                                    del fs[op[3] % len(fs)]
                                t.files = fs
                        finally:
                            attach(t)        # the setter forgets a content path that is not relative to the cwd
                    elif kind == 'm_setfilepaths' and fl:
                        try:
                            fps = [fpath(key) for key, _ in snap(t)['ents'] if key in disk]
                            if op[2] == 'drop' and len(fps) > 2:
                                del fps[op[3] % len(fps)]
                            if len(fps) >= 2 and os.path.commonpath(fps) == top:
                                t.filepaths = fps
                        finally:
                            attach(t)
                    elif kind == 'copy' and len(torrents) < MAX_TORRENTS:
                        torrents.append(attach(t.copy()))
                else:
                    raise RuntimeError(f'bad history op {op!r}')
            except RuntimeError as e:
                if 'bad history op' in str(e):
                    raise
                noise += 1
            except Exception:   # noqa   what the other operations answer is not C01's business
                noise += 1
            # what the metainfo of every object reads now (raw mapping, no getter involved)
            for k, t in enumerate(torrents):
                sn = snap(t)
                if k >= len(last):
                    last.append(sn)
                    mops.append(['newtor', meta_json(sn)])
                elif sn != last[k]:
                    last[k] = sn
                    mops.append(['meta', k, meta_json(sn)])
    finally:
        for st_, _ in streams.values():
            try:
                st_.close()
            except Exception:   # noqa
                pass
    return {'gens': gens, 'noise': noise, 'metas0': metas0, 'mops': mops, 'blobs': sorted(blobs.items())}


def _mk_history(rng, L, sizes, single=False, via_setter=False, nested=True, meta=False):
    n = len(sizes)
    total = sum(sizes)
    npieces = max(1, (total + L - 1) // L)
    nonempty = [j for j, sz in enumerate(sizes) if sz] or [0]
    ops, open_streams = [], []
    st = {'nstreams': 0, 'ver': 0, 'ntor': 2, 'nm': 0}

    def tor():
        return rng.randrange(st['ntor'])

    def mutate():
        st['ver'] += 1
        j = rng.choice(nonempty)
        if rng.random() < 0.6:
            return ['replace', j, st['ver'], None, rng.random() < 0.3]
        return ['rewrite', j, st['ver'], rng.choice(['r+b', 'wb']), rng.random() < 0.3]

    def read_op(s, j=None):
        if j is None:
            i = rng.randrange(npieces)
        else:   # a piece that overlaps file j
            pos = sum(sizes[:j])
            i = min(npieces - 1, (pos + rng.randrange(max(1, sizes[j]))) // L)
        k = rng.choice(['sget', 'sget', 'shash', 'sverify', 'siter', 'siter'])
        if k == 'siter':
            return ['siter', s, rng.choice([None, i + 1, rng.randint(1, npieces)])]
        return [k, s, i]

    def new_stream():
        s = st['nstreams']
        st['nstreams'] += 1
        open_streams.append(s)
        return ['snew', s, tor()]

    def gen(k=None):
        return ['gen', tor() if k is None else k, rng.randint(1, 4)]

    def getter(k):
        return ['m_get', k, rng.choice(['files', 'files', 'files-iter', 'filepaths', 'filepaths-iter', 'size', 'pieces',
                                        'filetree', 'mode', 'name', 'piece_size', 'hashes'])]

    def new_L():
        if via_setter or rng.random() < 0.15:
            return ['dict' if rng.random() < 0.5 else 'attr', 16384 * rng.choice([1, 1, 2, 3, 4])]
        return ['dict', rng.choice([1, 2, 3, 4, 5, 8, 16, 64])]

    def edit(k):
        """an edit of the raw metainfo mapping"""
        st['nm'] += 1
        w = rng.random()
        a, b = rng.randrange(64), rng.randrange(64)
        if single or w < 0.07:
            return rng.choice([['m_len', k, a, rng.choice([-1, 1, 2, L]), rng.random() < 0.65,
                                rng.choice(['replace', 'r+b', 'wb'])],
                               ['m_name', k, rng.choice(['dict', 'attr']), f'N{st["nm"]}'],
                               ['m_L', k] + new_L()])
        if w < 0.17:
            return ['m_sort', k, rng.choice(['path', 'revpath', 'size']), rng.random() < 0.5]
        if w < 0.27:
            return ['m_reverse', k]
        if w < 0.39:
            return ['m_swap', k, a, a + 1 + rng.randrange(3)]
        if w < 0.45:
            return ['m_slice', k, rng.randrange(1 << 20)]
        if w < 0.51:
            return ['m_delapp', k, a]
        if w < 0.56:
            return ['m_delins', k, a, b]
        if w < 0.70:
            return ['m_len', k, a, rng.choice([-1, 1, 1, 2, L, -L]), rng.random() < 0.65,
                    rng.choice(['replace', 'r+b', 'wb'])]
        if w < 0.80:
            sync = rng.random() < 0.65
            return ['m_path', k, a, (f'r{st["nm"]}' if sync else f'ghost{st["nm"]}'),
                    rng.choice(['inplace', 'assign']), sync]
        if w < 0.84:
            return ['m_entry', k, a]
        if w < 0.90:
            return ['m_L', k] + new_L()
        if w < 0.94:
            return ['m_name', k, rng.choice(['dict', 'attr']), f'N{st["nm"]}']
        return ['m_newlist', k, rng.choice(['copy', 'deepcopy', 'shuffled']), rng.randrange(1 << 20)]

    def setter(k):
        if rng.random() < 0.6:
            return ['m_setfiles', k, rng.choice(['same', 'reversed', 'drop', 'remove']), rng.randrange(64)]
        return ['m_setfilepaths', k, rng.choice(['all', 'drop']), rng.randrange(64)]

    def copy_op(k):
        if st['ntor'] < MAX_TORRENTS:
            st['ntor'] += 1
        return ['copy', k]

    r0 = rng.random()
    if meta and not single and r0 < 0.14:
        # metainfo and disk disagree for a while (a run fails, getters are called), then the same entry is repaired:
        # nothing of the bad state may survive
        k, a = tor(), rng.randrange(64)
        st['nm'] += 2
        if rng.random() < 0.6:
            bad = ['m_path', k, a, f'ghost{st["nm"]}', rng.choice(['inplace', 'assign']), False]
            good = ['m_path', k, a, f'r{st["nm"] + 1}', rng.choice(['inplace', 'assign']), True]
        else:
            bad = ['m_len', k, a, rng.choice([-1, 1, 2]), False, 'wb']
            good = ['m_len', k, a, rng.choice([1, 2, 3]), True, rng.choice(['replace', 'r+b', 'wb'])]
        if rng.random() < 0.5:
            ops.append(rng.choice([gen(k), getter(k)]))
        ops.append(bad)
        for _ in range(rng.randint(1, 2)):
            ops.append(rng.choice([gen(k), gen(k), getter(k), ['m_get', k, 'filepaths-iter']]))
        ops.append(good)
        ops.append(gen(k))
    elif meta and r0 < 0.5:
        # the pattern that matters most on the metainfo side: the object has been looked at (a getter, an earlier
        # run), its metainfo is edited, generate() runs on it
        k = tor()
        for _ in range(rng.randint(1, 2)):
            ops.append(rng.choice([gen(k), getter(k), getter(k), ['verify', k, rng.randint(1, 3)]]))
        for _ in range(rng.randint(1, 2)):
            ops.append(edit(k))
        if rng.random() < 0.3:
            ops.append(getter(k))
        ops.append(gen(k))
    elif r0 < 0.45 or (meta and r0 < 0.65):
        # the pattern that matters most on the disk side: something holds handles, a file changes, generate() runs
        if rng.random() < 0.6:
            ops.append(gen())
        ops.append(new_stream())
        m = mutate()
        for _ in range(rng.randint(1, 3)):
            ops.append(read_op(open_streams[-1], m[1] if rng.random() < 0.7 else None))
        ops.append(m)
        if rng.random() < 0.3:
            ops.append(['sclose', open_streams.pop()])
        ops.append(gen())
    for _ in range(rng.randint(2, 9)):
        w = rng.random()
        if meta and w < 0.42:
            k = tor()
            v = rng.random()
            if v < 0.55:
                ops.append(edit(k))
            elif v < 0.75:
                ops.append(getter(k))
            elif v < 0.88:
                ops.append(setter(k))
            else:
                ops.append(copy_op(k))
            if rng.random() < 0.35:
                ops.append(gen(k))
            continue
        w = rng.random()
        if w < 0.22:
            ops.append(gen())
        elif w < 0.42:
            ops.append(mutate())
        elif w < 0.54 and st['nstreams'] < 4:
            ops.append(new_stream())
        elif w < 0.80 and open_streams:
            ops.append(read_op(rng.choice(open_streams)))
        elif w < 0.86 and open_streams:
            s = rng.choice(open_streams)
            open_streams.remove(s)
            ops.append(['sclose', s])
        elif w < 0.93:
            ops.append(['verify', tor(), rng.randint(1, 3)])
        elif via_setter:
            ops.append(['reuse', tor()])
        else:
            ops.append(gen())
    if ops[-1][0] != 'gen':
        ops.append(gen())
    return {'kind': 'history', 'L': L, 'sizes': sizes, 'paths': layouts.paths_for(n, rng, nested),
            'cseed': rng.randrange(1 << 30), 'single': single, 'via_setter': via_setter, 'ops': ops}


def gen_histories(ctx, scale=1.0):
    rng = ctx.rng
    cases = []
    for _ in range(int(ctx.n(640, 18000) * scale)):
        w = rng.random()
        meta = rng.random() < 0.6
        if w < 0.62:
            L = rng.choice([1, 2, 3, 4, 5, 8, 16, 64])
            sizes = [max(0, layouts.boundary_sizes(rng, L)) for _ in range(rng.randint(1, 5))]
            if sum(sizes) == 0:
                sizes[0] = L + 1
            cases.append(_mk_history(rng, L, sizes, meta=meta))
        elif w < 0.74:
            # more files than the open-handle cap: handles are evicted and re-opened
            L = rng.choice([2, 3, 8])
            sizes = [rng.choice([1, 2, L, L + 1, 0]) for _ in range(rng.randint(12, 18))]
            if sum(sizes) == 0:
                sizes[0] = L
            cases.append(_mk_history(rng, L, sizes, meta=meta))
        elif w < 0.88:
            # real piece length through the public setter, files of a few pieces (and larger than any read buffer)
            L = 16384
            sizes = [rng.choice([1, L - 1, L, L + 1, rng.randint(1, 3 * L), rng.randint(2 * L, 5 * L)])
                     for _ in range(rng.randint(1, 4))]
            cases.append(_mk_history(rng, L, sizes, via_setter=True, meta=meta))
        else:
            L = rng.choice([2, 8, 16384])
            cases.append(_mk_history(rng, L, [max(1, layouts.boundary_sizes(rng, L))], single=True,
                                     via_setter=(L == 16384), nested=False, meta=meta))
    return cases


def _run_hist_chunk(cases):
    torf = common.import_torf()
    from torf import _stream
    wd = common.worker_dir()
    out = []
    for c in cases:
        try:
            obs = _run_history(torf, _stream, wd, c)
        except BaseException as e:   # noqa
            import traceback
            obs = {'harness_exc': traceback.format_exc()[-1500:]}
        out.append((c, obs))
    return out


def _bytes_from_ver_runs(c, blobs, runs):
    out = []
    for f, o, n in runs:
        ver, j = f // VER_BASE, f % VER_BASE
        out.append(_ver_bytes(c['cseed'], ver, j, blobs[(j, ver)])[o:o + n])
    return b''.join(out)


def _hist_nontrivial(c):
    """a file changes before a generate() while another stream is open or after an earlier run, or the metainfo of
    an object is edited between a look at it (getter / run) and a generate() on it"""
    seen_gen, open_s, changed = False, set(), False
    looked, edited = set(), set()
    for op in c['ops']:
        k = op[0]
        if k == 'gen':
            if changed or op[1] in edited:
                return True
            seen_gen = True
            looked.add(op[1])
        elif k in ('m_get', 'verify'):
            looked.add(op[1])
        elif k in META_KINDS and k != 'copy' and op[1] in looked:
            edited.add(op[1])
        elif k == 'snew':
            open_s.add(op[1])
        elif k == 'sclose':
            open_s.discard(op[1])
        elif k in ('replace', 'rewrite') and (open_s or seen_gen):
            changed = True
    return False


def _expected_run(c, g):
    """the demand for one generate(): from the raw metainfo and the disk at that moment"""
    sn = g['sn']
    L = sn['L']
    parts = []
    ok = isinstance(L, int) and L > 0
    for key, ln in sn['ents']:
        d = g['disk'].get(key)
        if d is None or d['size'] != ln:
            ok = False
            break
        parts.append(_ver_bytes(c['cseed'], d['ver'], d['id'], d['size']))
    stream = b''.join(parts)
    if not ok or len(stream) < 1:
        return None
    return [stream[i:i + L] for i in range(0, len(stream), L)]


def evaluate_histories(ctx, drv, cases):
    results = common.pmap(_run_hist_chunk, common.split(cases, common.NPROC * 4))
    flat = [x for chunk in results for x in chunk]
    for c, obs in flat:
        if 'harness_exc' in obs:
            raise RuntimeError(f'harness failure: {obs["harness_exc"]}')
    replies = drv.run([{'op': 'c01.mhistory', 'cap': MAX_OPEN, 'sizes': c['sizes'], 'metas': obs['metas0'],
                        'ops': obs['mops']} for c, obs in flat])
    for (c, obs), r in zip(flat, replies):
        case = {k: c[k] for k in ('kind', 'L', 'sizes', 'paths', 'cseed', 'single', 'via_setter', 'ops')}
        has_meta = any(op[0] in META_KINDS or op[0] == 'm_get' for op in c['ops'])
        ctx.case(key=json.dumps([c['L'], c['sizes'], c['ops']]), nontrivial=_hist_nontrivial(c),
                 kind='history/' + ('single' if c['single'] else 'real-16k' if c['via_setter'] else
                                    'many-handles' if len(c['sizes']) > MAX_OPEN + 1 else 'small') +
                      ('+metainfo' if has_meta else ''))
        ctx.dist['history-ops'] += len(c['ops'])
        ctx.dist['history-metainfo-changes-observed'] += sum(1 for m in obs['mops'] if m[0] in ('meta', 'newtor'))
        ctx.dist['history-noise-exceptions(other operations, ignored)'] += obs['noise']
        ctx.sample({'case': case, 'model': [m['kind'] for m in r['model']]}, limit=3)
        if not r['hyp']:
            ctx.machinery_error('history generator left the scope of C01_generate_reads_current_metainfo (piece length 0)',
                                case)
            continue
        if not r['specEq']:
            ctx.machinery_error('runHistM != specHistM although C01_generate_reads_current_metainfo is proved', case)
            continue
        if len(r['model']) != len(obs['gens']):
            ctx.machinery_error('driver and harness disagree on the number of generate() calls', case)
            continue
        blobs = {tuple(k): v for k, v in obs['blobs']}
        for gi, (m, g) in enumerate(zip(r['model'], obs['gens'])):
            ctx.dist['history-generate-calls'] += 1
            want = _expected_run(c, g)
            # model (= specification, proved) against the demand computed here from the raw metainfo and the disk
            if want is None:
                if m['kind'] != 'failed':
                    ctx.machinery_error('model run succeeds where metainfo and disk disagree', case)
                    break
            else:
                mp = [_bytes_from_ver_runs(c, blobs, runs) for runs in m.get('pieces', [])]
                if m['kind'] != 'stored' or mp != want:
                    ctx.machinery_error('model pieces differ from the chunks of the listed files in metainfo order', case)
                    break
            vers = {'/'.join(k): d['ver'] for k, d in g['disk'].items()}
            if want is None:
                ctx.dist['history-generate: metainfo and disk disagree -> must fail'] += 1
                ok = g.get('ret') is not True and g['pieces'] == g['before']
                if not ok:
                    ctx.violation(f'generate() #{gi + 1} of the history: the metainfo lists files that are missing or '
                                  'have another size, but the run reported success or changed the stored pieces', case,
                                  {'ret': 'False or an exception', 'pieces': 'unchanged',
                                   'metainfo_files': g['sn']['ents'], 'disk': g['disk']},
                                  {'ret': g.get('ret'), 'exc': g.get('exc'),
                                   'pieces_changed': g['pieces'] != g['before']}, MATCHERS)
                    break
                continue
            exp = b''.join(common.sha1(w) for w in want)
            ok = ('exc' not in g and g.get('ret') is True and g['pieces'] == exp and g['npieces'] == len(want)
                  and g['hashes'] == [common.sha1(w) for w in want])
            if not ok:
                wrong = None
                if g.get('pieces') and len(g['pieces']) == len(exp):
                    wrong = [i for i in range(len(want)) if g['pieces'][20 * i:20 * i + 20] != exp[20 * i:20 * i + 20]]
                ctx.violation(f'generate() #{gi + 1} of the history did not store the sha1 of the chunks of the files '
                              'the metainfo lists when it ran (in that order, at that piece length, with the bytes they '
                              'hold at that moment)', case,
                              {'ret': True, 'pieces': exp.hex()[:120], 'count': len(want), 'piece_length': g['sn']['L'],
                               'metainfo_files': ['/'.join(k) for k, _ in g['sn']['ents']], 'file_versions': vers},
                              {'ret': g.get('ret'), 'exc': g.get('exc'), 'pieces': (g.get('pieces') or b'').hex()[:120],
                               'wrong_piece_indexes': wrong}, MATCHERS)
                break


# ====================================================================================== failing read layer
# iter_pieces() / generate() over content files whose RAW layer fails under a real io.BufferedReader
# (harness/impl/rawfault.py; model: lean/Torf/Model/StreamFault.lean; theorems C01_read_fault_never_true,
# C01_read_fault_code_partial, C01_read_fault_no_loss_exact, C01_read_fault_seek_back_sound).

RAW_ERRS = ['EIO', 'EINTR', 'EAGAIN', 'ESTALE', 'ETIMEDOUT', 'ENOMEM', 'EBADF']


def _mem_lost_only(case, observed, finding):
    """D01a: the only faults that fired are MemoryErrors, one of them after the failing read() had consumed bytes"""
    raw = (observed or {}).get('raw') or {}
    fired = raw.get('fired') or []
    # (EINTR is repeated by io.BufferedReader itself and never surfaces)
    return (case.get('kind') == 'raw' and bool(fired) and all(f[1] in ('MemoryError', 'EINTR') for f in fired)
            and any(r[0] == 'fail' and r[3] == 'mem' and r[2] > 0 for r in raw.get('reads') or [])
            and observed.get('ret') is True)


MATCHERS['memoryerror_in_the_middle_of_a_read'] = _mem_lost_only


def _run_raw_chunk(cases):
    import copy
    from harness.impl import rawfault
    torf = common.import_torf()
    from torf import _stream
    wd = common.worker_dir()
    out = []
    for c in cases:
        L, sizes = c['L'], c['sizes']
        files = [{'path': p, 'size': s} for p, s in zip(c['paths'], sizes)]
        single = c.get('single', False)
        obs = {}
        plan = copy.deepcopy(c['raw'])
        try:
            contents = content.make_tree(wd, 'T', files, seed=c['cseed'], single=single)
            t = content.make_torrent(torf, wd, 'T', files, L, single=single, via_setter=c.get('via_setter', False))
            _stream.open = rawfault.open_factory(plan)
            try:
                if c['level'] == 'stream':
                    with _stream.TorrentFileStream(t) as tfs:
                        items = list(tfs.iter_pieces())
                    obs['stream'] = [(p, [type(e).__name__ for e in exc]) for (p, fp, exc) in items]
                else:
                    obs['ret'] = t.generate(threads=c.get('threads'))
            except BaseException as e:  # noqa
                obs['exc'] = f'{type(e).__name__}: {e}'[:200]
                obs['exc_type'] = type(e).__name__
                obs['exc_torf'] = isinstance(e, torf.TorfError)
            obs['pieces'] = t.metainfo['info'].get('pieces')
            obs['hashes'] = list(t.hashes)
        except BaseException:  # noqa
            import traceback
            obs = {'harness_exc': traceback.format_exc()[-1500:]}
            contents = []
        finally:
            _stream.__dict__.pop('open', None)
        obs['raw'] = {k: plan.get(k) for k in ('calls', 'seeks', 'fired', 'reads')}
        out.append((c, obs, contents))
    return out


def gen_raw(ctx, scale=1.0):
    rng = ctx.rng
    cases = []
    for _ in range(int(ctx.n(700, 25000) * scale)):
        real = rng.random() < 0.2
        L = 16384 if real else rng.choice([2, 3, 4, 5, 8, 16, 64])
        n = rng.randint(1, 4)
        if real:
            sizes = [rng.choice([1, L - 1, L, L + 1, rng.randint(1, 3 * L), rng.randint(2 * L, 4 * L)]) for _ in range(n)]
            cap = rng.choice([8192, 8192, 4096, 5000, [8192, 100], [100, 8192], 1 << 20])
        else:
            sizes = [max(0, layouts.boundary_sizes(rng, L)) for _ in range(n)]
            cap = rng.choice([1, 1, 2, 2, 3, [1, 2], [2, 1, 3], [1, 1, 4], 5, 8192])
        if sum(sizes) == 0:
            sizes[0] = L + 1
        if rng.random() < 0.6:
            # room in the last piece: lost bytes do not change the number of pieces
            total = sum(sizes)
            want_tail = rng.choice([0, 0, L - 1, max(1, L // 2)]) % L        # 0 = a full last piece
            sizes[-1] += (want_tail - total) % L
        caps = cap if isinstance(cap, list) else [cap]
        est = sum(-(-s // max(1, min(caps))) + 1 for s in sizes) if not real else sum(s // 4096 + 2 for s in sizes)
        faults = []
        w = rng.random()
        if w > 0.12:
            for _ in range(1 if w < 0.8 else 2):
                err = 'MemoryError' if rng.random() < 0.15 else rng.choice(RAW_ERRS)
                # io.BufferedReader itself repeats a raw read that raised EINTR (PEP 475) and torf repeats a read that
                # raised MemoryError for as long as the piece queue can shrink: those two only a few times in a row
                times = rng.choice([1, 1, 2, 3]) if err in ('MemoryError', 'EINTR') else rng.choice([1, 1, 1, 2, 3, 0])
                faults.append({'at': rng.randint(1, max(1, est)), 'err': err, 'times': times})
        raw = {'max_read': cap, 'faults': faults}
        if rng.random() < 0.05:
            raw['seek_faults'] = [{'at': rng.randint(1, n), 'err': rng.choice(['EIO', 'ESTALE', 'EBADF'])}]
        c = {'kind': 'raw', 'L': L, 'sizes': sizes, 'paths': layouts.paths_for(len(sizes), rng, nested=False),
             'cseed': rng.randrange(1 << 30), 'level': 'stream' if rng.random() < 0.25 else 'generate',
             'threads': rng.randint(1, 4), 'single': False, 'via_setter': real, 'raw': raw}
        cases.append(c)
    return cases


def evaluate_raw(ctx, drv, cases):
    from harness.impl import rawfault
    results = common.pmap(_run_raw_chunk, common.split(cases, common.NPROC * 4))
    flat = [x for chunk in results for x in chunk]
    for c, obs, _ in flat:
        if 'harness_exc' in obs:
            raise RuntimeError(f'harness failure: {obs["harness_exc"]}')
    replies = drv.run([{'op': 'c01.readfault', 'L': c['L'], 'sizes': c['sizes'], 'plan': rawfault.model_plan(obs['raw'])}
                       for c, obs, _ in flat])
    for (c, obs, contents), r in zip(flat, replies):
        case = {k: c[k] for k in ('kind', 'L', 'sizes', 'paths', 'cseed', 'level', 'threads', 'single', 'via_setter', 'raw')}
        raw = obs['raw']
        fired = raw.get('fired') or []
        reads = raw.get('reads') or []
        lost_os = sum(x[2] for x in reads if x[0] == 'fail' and x[3] == 'os' and x[2] > 0)
        lost_mem = sum(x[2] for x in reads if x[0] == 'fail' and x[3] == 'mem' and x[2] > 0)
        seek_fired = any(f[0] < 0 for f in fired)
        ctx.case(key=json.dumps([c['L'], c['sizes'], c['raw'], c['level']]), nontrivial=bool(fired),
                 kind=f"raw/{c['level']}/" + ('real-16k' if c['via_setter'] else 'small'))
        ctx.dist['raw: raw read calls'] += raw.get('calls') or 0
        for f in fired:
            ctx.dist['raw: fired ' + f[1]] += 1
        if lost_os or lost_mem:
            ctx.dist['raw: a failing read() had consumed bytes'] += 1
        ctx.sample({'case': case, 'reads': reads[:8], 'fired': fired[:4], 'model': r['model']['kind']}, limit=3)
        stream = b''.join(contents)
        want = [stream[i:i + c['L']] for i in range(0, len(stream), c['L'])]
        exp = b''.join(common.sha1(w) for w in want)
        observed = {'ret': obs.get('ret'), 'exc': obs.get('exc'), 'raw': raw,
                    'pieces': (obs.get('pieces') or b'').hex()[:120]}
        # ---- I in S
        if c['level'] == 'stream':
            if 'exc' in obs:
                ok = bool(fired)          # a run without a fault must not raise
            else:
                got = [p for p, _ in obs['stream']]
                ok = got == want and not any(e for _, e in obs['stream'])
            if not ok:
                ctx.violation('iter_pieces() over a failing read layer yielded pieces that are not the chunks of the '
                              'files\' bytes (or raised without a fault)', case,
                              [w.hex()[:40] for w in want[:6]],
                              dict(observed, got=[(p.hex()[:40] if p is not None else None)
                                                  for p, _ in obs.get('stream', [])[:6]]), MATCHERS)
                continue
            ctx.dist['raw/stream: ' + ('raised' if 'exc' in obs else 'exact pieces')] += 1
            continue
        problems = []
        if obs.get('ret') is True:
            if obs.get('pieces') != exp or obs.get('hashes') != [common.sha1(w) for w in want]:
                n_got = len(obs.get('pieces') or b'') // 20
                wrong = [i for i in range(min(n_got, len(want)))
                         if obs['pieces'][20 * i:20 * i + 20] != exp[20 * i:20 * i + 20]]
                problems.append(f'generate() returned True but stored {n_got} digests of which those at piece indexes '
                                f'{wrong[:12]} are not the SHA-1 of the chunks of the files\' bytes '
                                f'({lost_os + lost_mem} bytes were consumed by read() calls that raised)')
        else:
            if obs.get('pieces') is not None:
                problems.append(f'generate() did not return True ({obs.get("ret")!r} / {obs.get("exc")}) but stored pieces')
            if not fired:
                problems.append(f'no fault fired (short raw reads only) but generate() did not return True: '
                                f'{obs.get("ret")!r} / {obs.get("exc")}')
            if 'exc' in obs and not obs.get('exc_torf'):
                problems.append(f'the failure surfaced as {obs["exc"]}, not as a torf error')
        known = None
        if problems:
            known = ctx.violation('generate() over a failing read layer: ' + '; '.join(problems), case,
                                  {'ret_true_only_with': exp.hex()[:120], 'digests': len(want)}, observed, MATCHERS)
            if known is None:
                continue
        else:
            bucket = ('True, exact' if obs.get('ret') is True else
                      'False' if 'exc' not in obs else 'raised ' + str(obs.get('exc_type')))
            ctx.dist[f'raw/generate: {"fault" if fired else "no fault"} -> {bucket}'] += 1
        # ---- M in S (theorems) and I = M
        if r['hyp'] and not r['sound']:
            ctx.machinery_error('model contradicts C01_read_fault_code_partial', case)
            continue
        if seek_fired:
            continue                      # the model has no failing seek
        mk = r['model']['kind']
        if obs.get('ret') is True:
            same = False
            if mk == 'stored':
                mp = content.pieces_from_runs(r['model']['pieces'], contents)
                same = b''.join(common.sha1(w) for w in mp) == obs.get('pieces')
            if same or known is None:
                if not same:
                    # exact digests where the code as modelled gives up or loses bytes: allowed by C01
                    ctx.dist['raw/generate: recovered exactly where the code as modelled does not (allowed)'] += 1
                agree = True
            else:
                agree = False             # a known finding: the model must predict exactly these wrong digests
        elif 'exc' in obs:
            agree = mk == 'raised'
        else:
            agree = mk == 'cancelled'
        if not agree:
            ctx.corr_break('c01.readfault', case, {'model': mk, 'osRaised': r['osRaised'], 'lost': r['lost']},
                           {'ret': obs.get('ret'), 'exc': obs.get('exc'), 'reads': reads[:12]})


# ====================================================================================== schedules
# generate() under the deterministic scheduler with hasher faults (model: lean/Torf/Model/PipelineHF.lean,
# theorems C01_hash_fault_sound, C01_hash_fault_lost_not_success, C01_hash_fault_off_refines).

STRATS = ['uniform', 'uniform', 'pct', 'pct', 'stall', 'timeouts-first']


def _mk_strategy(rng, threads):
    kind = rng.choice(STRATS)
    params = {}
    if kind == 'stall':
        params = {'victim': rng.choice(['main', 'reader', 'janitor'] + [f'hasher{i+1}' for i in range(threads)]),
                  'patience': rng.choice([30, 200, 600])}
    elif kind == 'pct':
        params = {'d': rng.choice([1, 2, 3]), 'horizon': rng.choice([60, 200, 500])}
    return {'kind': kind, 'params': params, 'seed': rng.randrange(1 << 30)}


def gen_sched(ctx, scale=1.0):
    rng = ctx.rng
    cases = []
    for _ in range(int(ctx.n(700, 30000) * scale)):
        threads = rng.choice([1, 2, 2, 2, 3, 4])
        cap = 3 * threads
        L = rng.choice([2, 3, 4, 8])
        npieces = max(1, rng.choice([1, 2, 3, cap - 1, cap, cap + 1, cap + threads + 2, rng.randint(1, 2 * cap + 3)]))
        total = max(1, npieces * L - rng.choice([0, 0, 1, L - 1]))
        nfiles = rng.randint(1, 3)
        cuts = sorted(rng.sample(range(1, total), min(total - 1, nfiles - 1))) if total > 1 else []
        sizes = [b - a for a, b in zip([0] + cuts, cuts + [total])]
        faults = []
        w = rng.random()
        if w > (0.55 if threads == 1 else 0.2):
            for _ in range(1 if w < 0.85 else 2):
                # mostly a hasher that may die from boredom (2..N); sometimes the vital one
                h = 1 if (threads == 1 or rng.random() < 0.12) else rng.randint(2, threads)
                f = [f'hasher{h}', rng.choice([1, 1, 1, 2, 2, 3, 4])]
                if f not in faults:
                    faults.append(f)
        c = {'kind': 'sched', 'mode': 'generate', 'L': L, 'sizes': sizes,
             'paths': layouts.paths_for(len(sizes), rng, nested=False), 'cseed': rng.randrange(1 << 30),
             'threads': threads, 'disk': ['ok'] * len(sizes), 'flips': [], 'cb': None, 'interval': 0,
             'strategy': _mk_strategy(rng, threads), 'hash_fault': faults,
             'max_steps': 2500 if faults else 20000}
        if rng.random() < 0.12:
            # instead: a raw read that raises under io.BufferedReader (a read() that consumed bytes and then failed)
            cap_ = rng.choice([1, 2, [1, 2], 3])
            c['hash_fault'] = []
            c['max_steps'] = 20000
            c['raw_fault'] = {'max_read': cap_, 'faults': [{
                'at': rng.randint(1, max(1, total // (cap_ if isinstance(cap_, int) else 1) + 2 * len(sizes))),
                'err': rng.choice(['EIO', 'EAGAIN', 'ESTALE', 'ETIMEDOUT', 'ENOMEM', 'EBADF']),
                'times': rng.choice([1, 1, 2, 0])}]}
        cases.append(c)
    return cases


def _run_sched_chunk(cases):
    from harness.sched import runner
    torf = common.import_torf()
    wd = common.worker_dir()
    out = []
    for c in cases:
        try:
            obs = runner.run_case(torf, wd, c)
            obs.pop('gate_nows', None)
            obs.pop('calls', None)
        except BaseException as e:   # noqa
            import traceback
            obs = {'harness_exc': traceback.format_exc()[-1500:]}
        out.append((c, obs))
    return out


def evaluate_sched(ctx, drv, cases):
    results = common.pmap(_run_sched_chunk, common.split(cases, common.NPROC * 4))
    flat = [x for chunk in results for x in chunk]
    reqs = []
    for c, obs in flat:
        if 'harness_exc' in obs:
            raise RuntimeError(f'harness failure: {obs["harness_exc"]}')
        n = obs['total']
        pqm = (obs.get('structure') or {}).get('pq_max')
        cfg = {'N': c['threads'], 'cap': pqm if pqm and pqm > 0 else 3 * c['threads'], 'items': ['data'] * n,
               'readFault': None, 'refuse': [], 'raiseOnBad': True, 'cbByDone': []}
        if (obs.get('raw_fault') or {}).get('fired') and ((obs.get('result') or {}).get('raised') or {}).get('kind') == 'read':
            # the generator raised instead of yielding item r = number of pieces the reader had pushed
            cfg['readFault'] = sum(1 for e in obs['trace'] if e[0] == 'reader' and e[1] == 'pq.put' and e[2] == 'go') - 1
        reqs.append({'op': 'c01.replayx', 'cfg': cfg, 'L': c['L'], 'sizes': c['sizes'],
                     'hashFault': [[int(h[6:]) - 1, k - 1] for h, k in c['hash_fault']], 'trace': obs['trace']})
    replies = drv.run(reqs)
    for (c, obs), rep in zip(flat, replies):
        case = {k: c[k] for k in ('kind', 'mode', 'L', 'sizes', 'paths', 'cseed', 'threads', 'disk', 'flips', 'cb',
                                  'interval', 'strategy', 'hash_fault', 'max_steps')}
        if c.get('raw_fault'):
            case['raw_fault'] = c['raw_fault']
        fired = sorted(h for h, _ in obs['hash_fault_fired'])
        raw_fired = [f for f in ((obs.get('raw_fault') or {}).get('fired') or []) if f[1] != 'EINTR']
        ctx.case(key=json.dumps(case, sort_keys=True), nontrivial=bool(fired) or bool(raw_fired) or c['threads'] >= 2,
                 kind=f"sched/{c['strategy']['kind']}/N{c['threads']}/" +
                      ('raw-fault' if c.get('raw_fault') else 'fault' if c['hash_fault'] else 'nofault'))
        ctx.dist['sched-steps'] += obs['steps']
        ctx.sample({'case': case, 'outcome': obs['outcome'], 'result': obs['result'], 'fired': obs['hash_fault_fired'],
                    'trace_tail': obs['trace'][-8:]}, limit=3)
        if obs['outcome'] == 'budget':
            ctx.dist['sched: step budget exhausted (inconclusive)'] += 1
            continue
        res = obs['result']
        ret = res.get('returned') if res and 'returned' in res else None
        stored = obs['pieces_stored']
        hang = obs['outcome'] in ('deadlock', 'livelock')
        # ---- I in S: True only together with the complete correct string, otherwise nothing stored
        problems = []
        if ret is True:
            if stored != obs['want_pieces']:
                n_got = len(stored or b'') / 20
                problems.append(f'generate() returned True but stored {n_got:g} digests that are not the '
                                f'{obs["total"]} digests of the content in order')
        else:
            if stored is not None:
                problems.append(f'generate() did not return True ({res}) but stored a piece string')
            if res and 'returned' in res and ret is not False:
                problems.append(f'generate() returned {ret!r}')
        if not fired and not raw_fired and not hang and ret is not True:
            problems.append(f'no fault fired but generate() did not return True: {res}')
        if not fired and hang:
            problems.append(f'no hasher fault fired but the run does not return: threads at {obs["stuck"]}')
        if problems:
            ctx.violation(f'generate(threads={c["threads"]}) under schedule {c["strategy"]["kind"]} with hasher faults '
                          f'{c["hash_fault"]}' + (f' / raw read faults {c["raw_fault"]}' if c.get('raw_fault') else '') +
                          ': ' + '; '.join(problems), case,
                          {'ret_true_only_with': obs['want_pieces'].hex()[:120], 'digests': obs['total']},
                          {'result': res, 'stored': (stored or b'').hex()[:120], 'fired': obs['hash_fault_fired'],
                           'raw_fired': raw_fired, 'raw_reads': ((obs.get('raw_fault') or {}).get('reads') or [])[:12],
                           'outcome': obs['outcome'], 'trace_tail': obs['trace'][-25:]}, MATCHERS)
            continue
        if raw_fired:
            ctx.dist['sched: raw read fault -> ' + ('True, exact' if ret is True else 'False' if ret is False else
                                                      'raised ' + str(((res or {}).get('raised') or {}).get('kind')))] += 1
        elif not fired:
            ctx.dist['sched: no fault fired -> True'] += 1
        elif hang:
            ctx.dist['sched: fault, run does not return (no success claimed; see notes: candidate finding)'] += 1
        elif ret is True:
            ctx.dist['sched: fault fired, run still complete -> True'] += 1
        elif ret is False:
            ctx.dist['sched: fault swallowed (dead hasher pruned by the janitor) -> False, nothing stored'] += 1
        else:
            ctx.dist['sched: fault re-raised by join -> exception, nothing stored'] += 1
        # ---- M in S (theorem) and I = M (replay of the trace in the model with hasher faults)
        if not rep['ok']:
            ctx.corr_break('c01.replayx', case, {k: rep[k] for k in rep if k != 'id'},
                           {'trace_around': obs['trace'][max(0, rep['at'] - 6): rep['at'] + 2]})
            continue
        if rep['hyp'] and not rep['sound']:
            ctx.machinery_error('model state contradicts C01_hash_fault_sound / C01_hash_fault_lost_not_success', case)
            continue
        mg = (rep['generate'] or {}).get('kind')
        if hang:
            agree = (not rep['terminal']) and (not rep['canProgress'])
        elif ret is True:
            agree = rep['terminal'] and mg == 'stored'
        elif ret is False:
            agree = rep['terminal'] and mg == 'cancelled'
        elif raw_fired:
            agree = (rep['terminal'] and mg == 'raised' and ((res or {}).get('raised') or {}).get('kind') == 'read' and
                     ((rep['result'] or {}).get('raised') or {}).get('kind') == 'read')
        else:
            is_inj = bool(res and 'raised' in res and res['raised'].get('exc_type') == 'MemoryError')
            agree = rep['terminal'] and mg == 'raised' and is_inj and 'hasherExc' in (rep['result'] or {})
        if agree and sorted(rep['dead']) != fired:
            agree = False
        if not agree:
            ctx.corr_break('c01.replayx(final)', case,
                           {'terminal': rep['terminal'], 'canProgress': rep['canProgress'], 'result': rep['result'],
                            'generate': mg, 'dead': rep['dead'], 'lost': rep['lost']},
                           {'outcome': obs['outcome'], 'result': res, 'fired': obs['hash_fault_fired'],
                            'stuck': obs['stuck']})


def _corpus_cases():
    out = []
    for p in sorted(glob.glob(os.path.join(common.CORPUS_DIR, 'C01', '*.json'))):
        cc = json.load(open(p))
        out.append(cc.get('case', cc))
    return out


def _dispatch(ctx, drv, cases):
    """route cases (corpus, replay) to the evaluator of their kind"""
    plain = [c for c in cases if c.get('kind') not in ('history', 'sched', 'raw')]
    hist = [c for c in cases if c.get('kind') == 'history']
    sch = [c for c in cases if c.get('kind') == 'sched']
    rawc = [c for c in cases if c.get('kind') == 'raw']
    if rawc:
        evaluate_raw(ctx, drv, rawc)
    if plain:
        evaluate(ctx, drv, plain)
    if hist:
        evaluate_histories(ctx, drv, hist)
    if sch:
        evaluate_sched(ctx, drv, sch)


def run(ctx, drv):
    ctx.notes['rule'] = RULE
    ctx.notes['assumptions'] = [
        'SHA-1 is a parameter H of the model; the harness applies real hashlib.sha1 to the model pieces',
        'Torrent.pieces uses float division: exact for sizes < 2^52 (generators stay far below)',
        'the model covers content whose files are all present with the recorded size (other branch: C10)',
        'thread schedules of the fault-free pipeline are covered by C03; here the collector sort is the theorem C01_collect_perm',
        'histories: files do not change while a generate() is in progress; a handle obtained from the cache is read from '
        'offset 0 to EOF (fh.seek(0) is unconditional; offsets left by earlier reads: C19); metainfo entries keep pairwise '
        'distinct paths and positive piece lengths; the content path is attached to Torrent._path by the harness (as for '
        'every C01 case) and re-attached after the files/filepaths setters and copy(); the demand is computed from the '
        'raw mapping Torrent.metainfo[\'info\'] (no getter) and the harness\' own record of the disk',
        'failing read layer: the raw layer (harness/impl/rawfault.py) is an io.FileIO subclass under the real '
        'io.BufferedReader handed out by a shadowed open() of torf._stream; the model works at the granularity of '
        'fh.read(size) calls, its plan (ok | consume k then raise) is the trace recorded by a tracing subclass of '
        'BufferedReader (k = logical position after - before); EINTR is repeated by BufferedReader itself; an exact '
        'result where the modelled code gives up (a retry that seeks back) is accepted',
        'schedules: same granularity and shim as C03/C04 (one label per queue/event/thread operation); a hasher fault is an '
        'exception raised by sha1() inside HasherPool._handle_piece (module global torf._generate.sha1 replaced from the harness)',
    ]
    corpus = _corpus_cases()
    if corpus:
        _dispatch(ctx, drv, corpus)
    evaluate(ctx, drv, gen_cases(ctx))
    evaluate_raw(ctx, drv, gen_raw(ctx))
    evaluate_histories(ctx, drv, gen_histories(ctx))
    evaluate_sched(ctx, drv, gen_sched(ctx))
    ctx.exhaustive = False


def search(ctx, drv):
    evaluate(ctx, drv, gen_cases(ctx, scale=3.0))
    evaluate_raw(ctx, drv, gen_raw(ctx, scale=3.0))
    evaluate_histories(ctx, drv, gen_histories(ctx, scale=3.0))
    evaluate_sched(ctx, drv, gen_sched(ctx, scale=3.0))


def replay(ctx, drv, rp):
    c = dict(rp['case'])
    if c.get('kind') not in ('history', 'sched', 'raw'):
        c.setdefault('level', 'both')
    _dispatch(ctx, drv, [c])
    return {'fails': bool(ctx.violations or ctx.corr_breaks), 'violations': ctx.violations,
            'corr_breaks': ctx.corr_breaks}
