"""
C01 — piece hashes are the SHA-1 of the concatenated content stream.

Correspondence: the Lean model `Stream.iterPieces` (proved equal to `chunks L stream`) is run on
the same layout as the real `TorrentFileStream.iter_pieces` and `Torrent.generate`; the model's
pieces (sent as runs of (file, offset, length)) are turned into bytes from the real files and
compared byte for byte / digest for digest.
"""
import os

from harness import common
from harness.gen import layouts
from harness.impl import content

RULE = ('layouts = (piece length, file sizes in metainfo order): exhaustive small scopes + '
        'boundary-directed random (runs of tiny files, >11 files, nested dirs, real 16 KiB '
        'multiples, 1..8 hasher threads); non-trivial = at least two files and a file boundary '
        'strictly inside a piece; distinct = distinct (L, sizes)')


def _run_chunk(cases):
    torf = common.import_torf()
    from torf import _stream
    wd = common.worker_dir()
    out = []
    for c in cases:
        L, sizes = c['L'], c['sizes']
        files = [{'path': p, 'size': s} for p, s in zip(c['paths'], sizes)]
        single = c.get('single', False)
        name = 'T'
        obs = {}
        try:
            contents = content.make_tree(wd, name, files, seed=c['cseed'], single=single)
            t = content.make_torrent(torf, wd, name, files, L, single=single,
                                     via_setter=c.get('via_setter', False))
            oom = c.get('oom')
            if oom:
                import builtins
                plan = {'n': 0, 'at': oom['at'], 'burst': oom['burst'], 'fired': 0}

                class _F:
                    def __init__(self, fh):
                        self._fh = fh

                    def read(self, *a):
                        plan['n'] += 1
                        if plan['at'] <= plan['n'] < plan['at'] + plan['burst']:
                            plan['fired'] += 1
                            raise MemoryError('injected')
                        return self._fh.read(*a)

                    def __getattr__(self, k):
                        return getattr(self._fh, k)
                _stream.open = lambda p, mode='r', *a, **k: _F(builtins.open(p, mode, *a, **k))
            if c['level'] in ('stream', 'both'):
                with _stream.TorrentFileStream(t) as tfs:
                    items = list(tfs.iter_pieces())
                obs['stream'] = [(p, [type(e).__name__ for e in exc]) for (p, fp, exc) in items]
            if c['level'] in ('generate', 'both'):
                r = t.generate(threads=c.get('threads'))
                obs['generate'] = r
                obs['pieces'] = t.metainfo['info'].get('pieces')
                obs['hashes'] = t.hashes
                obs['npieces'] = t.pieces
        except BaseException as e:  # noqa
            obs['exc'] = f'{type(e).__name__}: {e}'
            obs['exc_type'] = type(e).__name__
        finally:
            _stream.__dict__.pop('open', None)
        if c.get('oom'):
            obs['oom_fired'] = plan['fired'] if 'plan' in dir() else 0
        out.append((c, obs, contents))
    return out


def _mk_case(L, sizes, rng, level='stream', threads=None, nested=True, single=False, via_setter=False):
    return {'L': L, 'sizes': sizes, 'paths': layouts.paths_for(len(sizes), rng, nested),
            'cseed': rng.randrange(1 << 30), 'level': level, 'threads': threads,
            'single': single, 'via_setter': via_setter}


def gen_cases(ctx, scale=1.0):
    rng = ctx.rng
    cases = []
    # 1. exhaustive small scopes (stream level; every 7th also end-to-end through generate)
    if ctx.thorough:
        ex = list(layouts.exhaustive([1, 2, 3], 4)) + list(layouts.exhaustive([4], 3))
    else:
        ex = list(layouts.exhaustive([1, 2], 4)) + list(layouts.exhaustive([3], 3))
    ex = [(L, s) for (L, s) in ex if sum(s) > 0]
    for i, (L, sizes) in enumerate(ex):
        lvl = 'both' if i % (7 if ctx.thorough else 11) == 0 else 'stream'
        cases.append(_mk_case(L, sizes, rng, lvl, threads=1 + i % 4, nested=False))
    ctx.notes['exhaustive_scope'] = ('L<=3 with <=4 files and L=4 with <=3 files, sizes 0..2L+1'
                                     if ctx.thorough else
                                     'L<=2 with <=4 files and L=3 with <=3 files, sizes 0..2L+1')
    # 2. boundary-directed random, small piece lengths written directly into the metainfo
    for _ in range(int(ctx.n(700, 20000) * scale)):
        L = rng.choice([1, 2, 3, 4, 5, 7, 8, 16, 31, 64])
        shape, sizes = layouts.random_sizes(rng, L)
        c = _mk_case(L, sizes, rng, rng.choice(['stream', 'both', 'generate']), threads=rng.randint(1, 8))
        c['shape'] = shape
        cases.append(c)
    # 3. real piece lengths through the public setter
    for _ in range(int(ctx.n(60, 1500) * scale)):
        L = 16384 * rng.choice([1, 1, 2, 3, 4])
        n = rng.randint(1, 14)
        sizes = [max(0, rng.choice([0, 1, L - 1, L, L + 1, rng.randint(0, 2 * L), rng.randint(0, L // 8)]))
                 for _ in range(n)]
        if sum(sizes) == 0:
            sizes[0] = L + 1
        c = _mk_case(L, sizes, rng, 'generate', threads=rng.randint(1, 8), via_setter=True)
        c['shape'] = 'real-16k'
        cases.append(c)
    # 3b. files much larger than the piece length, piece lengths that are not powers of two
    for _ in range(int(ctx.n(24, 400) * scale)):
        L = 16384 * rng.choice([1, 3, 3, 5, 6, 7, 12, 48])
        n = rng.randint(1, 3)
        sizes = [rng.choice([rng.randint(1 << 20, 3 << 20), rng.randint(1, 2 * L), (1 << 20) + L + 1]) for _ in range(n)]
        sizes[rng.randrange(n)] = rng.randint((1 << 20) + 1, 3 << 20)
        c = _mk_case(L, sizes, rng, 'both', threads=rng.randint(1, 4), via_setter=True)
        c['shape'] = 'big-files'
        cases.append(c)
    # 3c. a transient out-of-memory burst while reading (the run recovers): the result must still be right
    for _ in range(int(ctx.n(150, 3000) * scale)):
        L = rng.choice([2, 3, 8, 64, 16384])
        shape, sizes = layouts.random_sizes(rng, L, nmax=10)
        c = _mk_case(L, sizes, rng, 'generate', threads=rng.randint(1, 4))
        c['oom'] = {'at': rng.randint(1, 2 * (sum(sizes) // L + len(sizes)) + 1), 'burst': rng.choice([1, 1, 2, 3])}
        c['shape'] = 'transient-oom'
        cases.append(c)
    # 4. single-file torrents
    for _ in range(int(ctx.n(40, 600) * scale)):
        L = rng.choice([1, 2, 3, 8, 16384])
        sizes = [max(1, layouts.boundary_sizes(rng, L))]
        c = _mk_case(L, sizes, rng, 'both', threads=rng.randint(1, 4), nested=False, single=True)
        c['shape'] = 'single'
        cases.append(c)
    return cases


def evaluate(ctx, drv, cases):
    replies = drv.run([{'op': 'c01.iter', 'L': c['L'], 'sizes': c['sizes']} for c in cases])
    by_id = {id(c): r for c, r in zip(cases, replies)}
    results = common.pmap(_run_chunk, common.split(cases, common.NPROC * 4))
    k = 0
    for chunk in results:
        for (c, obs, contents) in chunk:
            r = replies[k]
            k += 1
            ctx.case(key=layouts.nontrivial_key(c['L'], c['sizes']),
                     nontrivial=layouts.nontrivial_key(c['L'], c['sizes']) is not None,
                     kind=c.get('shape', 'exhaustive') + '/' + c['level'])
            if len(c['sizes']) > 11:
                ctx.dist['more-files-than-handle-cap'] += 1
            if not r['specEq']:
                ctx.machinery_error('model != spec although C01_iter_eq_chunks is proved', c)
                continue
            want = content.pieces_from_runs(r['model'], contents)
            case = {k2: c[k2] for k2 in ('L', 'sizes', 'paths', 'cseed', 'level', 'threads', 'single', 'via_setter')}
            if c.get('oom'):
                case['oom'] = c['oom']
            ctx.sample({'case': case, 'model_pieces': r['model'][:3]})
            if 'exc' in obs:
                if c.get('oom') and obs.get('exc_type') == 'ReadError':
                    ctx.dist['oom-gave-up(ReadError, not a successful run)'] += 1
                    continue
                ctx.violation(f'hashing/streaming raised {obs["exc"]}', case, 'pieces', obs['exc'])
                continue
            if 'stream' in obs:
                got = [p for p, _ in obs['stream']]
                excs = [e for _, e in obs['stream'] if e]
                if got != want or excs:
                    ctx.violation('iter_pieces() differs from the chunks of the concatenated stream',
                                  case, [w.hex()[:64] for w in want[:6]],
                                  [(g.hex()[:64] if g is not None else None) for g in got[:6]] + excs[:3])
                    continue
            if 'generate' in obs:
                exp = b''.join(common.sha1(w) for w in want)
                ok = (obs['generate'] is True and obs['pieces'] == exp
                      and len(exp) == 20 * r['count'] and obs['npieces'] == r['count']
                      and list(obs['hashes']) == [common.sha1(w) for w in want])
                if not ok:
                    ctx.violation('generate() did not store sha1 of the consecutive chunks',
                                  case, {'pieces': exp.hex()[:120], 'count': r['count'], 'ret': True},
                                  {'pieces': (obs['pieces'] or b'').hex()[:120], 'ret': obs['generate'],
                                   'npieces': obs['npieces']})


def run(ctx, drv):
    ctx.notes['rule'] = RULE
    ctx.notes['assumptions'] = [
        'SHA-1 is a parameter H of the model; the harness applies real hashlib.sha1 to the model pieces',
        'Torrent.pieces uses float division: exact for sizes < 2^52 (generators stay far below)',
        'the model covers content whose files are all present with the recorded size (other branch: C10)',
        'thread schedules of the pipeline are covered by C03; here the collector sort is the theorem C01_collect_perm',
    ]
    cases = gen_cases(ctx)
    evaluate(ctx, drv, cases)
    ctx.exhaustive = False


def search(ctx, drv):
    cases = gen_cases(ctx, scale=3.0)
    evaluate(ctx, drv, cases)


def replay(ctx, drv, rp):
    c = dict(rp['case'])
    c.setdefault('level', 'both')
    evaluate(ctx, drv, [c])
    return {'fails': bool(ctx.violations), 'violations': ctx.violations}
