"""
C05 — metainfo survives a dump/read round trip byte for byte.

Three correspondences with the Lean models (`Bencode.parse/ser`, `Codec.decode*/encode*`,
`ReadStream.read/dump/infoBytes`) and one specification check:

* c05.parse      flatbencode.decode on canonical documents and on a mutation stream (unsorted
                 / duplicate keys, odd arity, non-bytes keys, `-0`, leading zeros, 4300-digit
                 limit, truncation, trailing data): value (with dict order) or error, compared
                 with the stack-machine model; the model's strict parser is compared with an
                 independent strict parser written in Python.
* c05.roundtrip  Torrent.read_stream(x, validate) → metainfo / error kind; dump(); infohash;
                 second read — compared with the model; under the hypothesis of C05_dump_read
                 (canonical bytes, UTF-8 keys, private ∈ {0,1}, representable creation date,
                 accepted by validate) the SPEC is: dump == x, second read equal, infohash equal.
"""
import datetime
import hashlib

from harness import common
from harness.gen import metainfo as gen
from harness.gen import metainfo_wide as wide
from harness.gen import unitext
from harness.impl import bencode_strict as bstrict
from harness.impl import pyval
from harness.impl import depthprobe
from harness.impl import tzenv
from harness.impl import mdedit

RULE = ('documents = bencoded metainfo from a grammar (single/multi-file, extra keys at top level, in info and '
        'in file entries, nesting <= 6, empty containers, integers up to 10^4299, valid/invalid UTF-8 byte '
        'strings, multi-byte keys incl. astral vs BMP-private-use) + a wide-text pass (harness/gen/unitext.py: '
        'non-NFC / non-NFD / non-NFKC text, composition exclusions, unassigned code points, noncharacters, non-BMP, '
        'bidi and zero-width controls, case-mapping specials, edge white space and BOM, ill-formed UTF-8 incl. '
        'WTF-8 surrogates inside well-formed text; in values and in keys, in name, path components, comment, source, '
        'URLs, unknown fields at top level / in info / in file entries, normalisation-equivalent key groups in one '
        'dict) + structure/byte mutations; depth probes = a torrent with one unknown field nested d levels (lists, '
        'dicts, mixed, bushy; at top level, in info, in a file entry, below a list / a dict; leaf empty / int / text / '
        'bytes / bigint) read and written with exactly B Python frames left, for the greatest d the reader accepts and '
        'a ladder of depths below it; non-trivial = satisfies the hypothesis of C05_dump_read (canonical, validate '
        'accepts, UTF-8 keys, private in {0,1}, creation date representable) and has at least one of: non-UTF-8 byte '
        'string, multi-byte key, integer >= 2^64, nesting >= 4, empty container, a wide-text label, or (depth probe) '
        'accepted by the reader at depth >= 16, or a creation date that is before 1970 / within an hour of a transition / '
        'at an offset different from the epoch\'s / in a fold / at an offset that is not whole hours; process environment = '
        'the time zone the torrent is read and written in (TZ + tzset in the worker: system zones with DST, pre-1970 rules, '
        'half-hour / 45-minute / second-granular offsets, negative DST, date-line changes, UTC+14 / UTC-12, and synthetic '
        'TZif zones written by the harness), dates around every kind of transition, before 1970, at the year-1 / year-9999 '
        'edges, 32-bit edges, values no calendar holds; histories = a loaded torrent on which exports (infohash, '
        'infohash_base32, magnet, dump, dump(validate=False), write_stream) are interleaved with edits at every nesting '
        'depth (in-place on nested lists / dicts / path components / file entries, assignment at the top level of info / of '
        'the metainfo, replacement by copies, attribute setters), the round-trip clauses judged after every stage; '
        'non-trivial history stage = a nested in-place edit after a hash export, under the hypothesis; distinct = distinct '
        'input bytes (per zone) resp. distinct (family, budget, depth) resp. distinct (history, stage)')

MATCHERS = {}


def ekind(e):
    n = type(e).__name__
    return {'MetainfoError': 'metainfo', 'BdecodeError': 'bdecode', 'ReadError': 'read',
            'ValueError': 'value', 'MagnetError': 'magnet'}.get(n, 'internal:' + n)


def canon_json(j):
    """sort dict entries (dict order is not an API-level observable of Torrent.metainfo)"""
    if isinstance(j, dict) and j.get('t') == 'd':
        items = [[canon_json(k), canon_json(v)] for k, v in j['v']]
        items.sort(key=lambda kv: repr(kv[0]))
        return {'t': 'd', 'v': items}
    if isinstance(j, dict) and j.get('t') in ('l', 'u'):
        return {'t': j['t'], 'v': [canon_json(x) for x in j['v']]}
    return j


def raw_json(v):
    """flatbencode result → PyVal JSON keeping dict order"""
    return pyval.to_json(v)


def _attempt(f):
    try:
        return {'ok': f()}
    except Exception as e:  # noqa
        return {'err': ekind(e)}


_ZONES = None


def zone_table():
    """[{label, value, trans}] of the zones of this run (system zones that exist + synthetic TZif files in the scratch dir)"""
    global _ZONES
    if _ZONES is None:
        _ZONES = [{'label': l, 'value': v, 'trans': tzenv.transitions(p)} for l, v, p in tzenv.zones(common.scratch_root())]
    return _ZONES


def _run_chunk(cases):
    import os
    import time
    orig = os.environ.get('TZ')
    try:
        return _run_chunk_tz(cases)
    finally:                                  # workers are reused (and with VERIF_JOBS=1 this is the main process)
        if orig is None:
            os.environ.pop('TZ', None)
        else:
            os.environ['TZ'] = orig
        time.tzset()


def _run_chunk_tz(cases):
    import time
    torf = common.import_torf()
    import flatbencode
    zmap = {z['label']: z['value'] for z in zone_table()}
    out = []
    for c in cases:
        x = bytes.fromhex(c['x'])
        obs = {}
        if c['op'] == 'lawgrid':
            z = [z for z in zone_table() if z['label'] == c['tz']][0]
            tzenv.set_tz(z['value'])
            out.append(tzenv.law_grid(z['trans']))
            continue
        # the process environment of this case: the time zone (TZ + tzset) in which the torrent is read and written
        tzenv.set_tz(zmap.get(c.get('tz') or 'UTC', 'UTC'))
        if c['op'] == 'parse':
            try:
                obs['parse'] = {'ok': raw_json(flatbencode.decode(x))}
            except (flatbencode.DecodingError, ValueError, OverflowError):
                obs['parse'] = {'err': 'error'}
            except Exception as e:  # noqa
                obs['parse'] = {'err': 'internal:' + type(e).__name__}
            obs['strict'] = bstrict.is_canonical(x, lim=4300)
            out.append(obs)
            continue
        V = c['validate']
        # oracles: datetime.fromtimestamp on the raw creation date; does validate() accept
        cd = None
        try:
            top = flatbencode.decode(x)
            v = top.get(b'creation date') if isinstance(top, dict) else None
            if isinstance(v, int):
                try:
                    cd = pyval.to_json(datetime.datetime.fromtimestamp(v))
                except (ValueError, OverflowError, OSError):
                    cd = None
        except Exception:  # noqa
            top = None
        obs['cd'] = cd
        obs['clock'] = None
        try:
            if isinstance(top, dict) and isinstance(top.get(b'creation date'), int):
                i = top[b'creation date']
                loc, st = tzenv.local_of(i)
                feat = []
                if loc is not None and abs(i) < 2 ** 40:
                    off = time.localtime(i).tm_gmtoff
                    if off != time.localtime(0).tm_gmtoff:
                        feat.append('offset-differs-from-epoch')
                    if i < 0:
                        feat.append('before-1970')
                    if loc[1]:
                        feat.append('fold')
                    if any(time.localtime(i + dlt).tm_gmtoff != off for dlt in (-3600, 3600)):
                        feat.append('within-1h-of-transition')
                    if off % 3600:
                        feat.append('offset-not-whole-hours')
                obs['clock'] = {'i': str(i) if abs(i) < 10 ** 30 else None, 'local': loc,
                                'stamp': None if st is None else str(st), 'feat': feat}
        except Exception:  # noqa
            pass
        vok = False
        try:
            t0 = torf.Torrent.read_stream(x, validate=False)
            t0.validate()
            vok = True
        except Exception:  # noqa
            pass
        obs['vok'] = vok
        try:
            t = torf.Torrent.read_stream(x, validate=V)
        except Exception as e:  # noqa
            obs['read'] = {'err': ekind(e)}
            out.append(obs)
            continue
        obs['read'] = {'ok': canon_json(pyval.to_json(t.metainfo))}
        d = _attempt(lambda: t.dump(validate=V))
        obs['dump'] = {'ok': d['ok'].hex()} if 'ok' in d else d
        obs['infohash'] = _attempt(lambda: t.infohash)
        if 'ok' in d:
            try:
                t2 = torf.Torrent.read_stream(d['ok'], validate=V)
                obs['second'] = {'ok': canon_json(pyval.to_json(t2.metainfo))}
                obs['second_eq'] = (t2 == t)
                obs['second_infohash'] = _attempt(lambda: t2.infohash)
                obs['second_dump_same'] = _attempt(lambda: t2.dump(validate=V) == d['ok'])
            except Exception as e:  # noqa
                obs['second'] = {'err': ekind(e)}
        out.append(obs)
    return out


BATCH = 2500


def gen_cases(ctx, n_docs, small_scope=True):
    r = ctx.rng
    cases = []
    for i in range(n_docs):
        k = r.random()
        opts = {}
        kind = 'canonical'
        if k < 0.06:
            opts['private'] = r.choice([2, -1, 10 ** 20, b'', b'x', [], [0], {}])
            kind = 'private-not-01'
        elif k < 0.12:
            opts['cdate'] = r.choice([253402300800, -62135596801, 10 ** 20, -10 ** 20, b'', b'x', [], [1], {},
                                      2 ** 63, 10 ** 400])
            kind = 'cdate-odd'
        elif k < 0.17:
            opts['badkeys'] = 0.5
            kind = 'non-utf8-keys'
        elif k < 0.19:
            opts['nopieces'] = True
            kind = 'no-pieces'
        md = gen.metainfo(r, opts)
        if r.random() < 0.6:
            wide.widen(r, md)
        tz = 'UTC'
        zk = r.random()
        if kind == 'canonical' and zk < 0.3:
            z = r.choice(zone_table())
            md[b'creation date'] = tzenv.dates(r, z['trans'])[0]
            kind, tz = 'cdate-zone', z['label']
        elif zk < 0.45:
            tz = r.choice(zone_table())['label']
        if k >= 0.19 and k < 0.21:
            md[b'info'][b'pieces'] = r.choice([5, [b'x' * 20], {b'a': b'b'}, []])
            kind = 'pieces-not-bytes'
        if 0.21 <= k < 0.23:
            r.choice([md.pop, md[b'info'].pop])(r.choice([b'info', b'name', b'piece length']), None)
            kind = 'missing-mandatory'
        if 0.23 <= k < 0.25:
            md[b'info'] = r.choice([5, b'info', [], [md[b'info']]])
            kind = 'info-not-dict'
        x = bstrict.ser(md)
        feats = gen.features(md) | wide.wide_features(md)
        validate = r.random() < 0.8
        cases.append({'op': 'roundtrip', 'x': x.hex(), 'validate': validate, 'kind': kind, 'feats': sorted(feats),
                      'tz': tz})
        cases.append({'op': 'parse', 'x': x.hex(), 'kind': 'parse/canonical'})
        # mutation stream
        if r.random() < 0.5:
            mk, y = gen.mutate_structure(r, md)
            cases.append({'op': 'parse', 'x': y.hex(), 'kind': 'parse/' + mk})
            if r.random() < 0.5:
                cases.append({'op': 'roundtrip', 'x': y.hex(), 'validate': r.random() < 0.7, 'kind': 'mut/' + mk,
                              'feats': []})
        if r.random() < 0.5:
            mk, y = gen.mutate_bytes(r, x)
            cases.append({'op': 'parse', 'x': y.hex(), 'kind': 'parse/' + mk})
            if r.random() < 0.3:
                cases.append({'op': 'roundtrip', 'x': y.hex(), 'validate': r.random() < 0.7, 'kind': 'mut/' + mk,
                              'feats': []})
    if not small_scope:
        return cases
    cases.extend(curated_text_cases())
    cases.extend(zone_date_cases())
    # non-dict top-level values and tiny documents (exhaustive over a small alphabet)
    small = [b'', b'e', b'de', b'le', b'i0e', b'0:', b'd0:0:e', b'd1:ae', b'd4:infodee', b'd4:infoi1ee',
             b'd4:info0:e', b'd4:infod6:pieces0:ee', b'd13:creation datei0e4:infodee',
             b'd4:infod7:privatei1eee', b'd4:infod7:privatei0eee', b'd13:creation date0:4:infodee']
    alpha = [b'd', b'l', b'e', b'i', b'1', b'0', b':', b'-', b'a']
    if ctx.thorough:
        import itertools
        for n in range(1, 6):
            for tup in itertools.product(alpha, repeat=n):
                small.append(b''.join(tup))
    else:
        import itertools
        for n in range(1, 5):
            for tup in itertools.product(alpha, repeat=n):
                small.append(b''.join(tup))
    for s in small:
        cases.append({'op': 'parse', 'x': s.hex(), 'kind': 'parse/small-exhaustive'})
    for s in small[:16]:
        for V in (True, False):
            cases.append({'op': 'roundtrip', 'x': s.hex(), 'validate': V, 'kind': 'tiny', 'feats': []})
    return cases


def curated_text_cases():
    """small scope, exhaustive over the curated wide alphabet: every cluster of `unitext.CURATED` and every
    ill-formed sequence of `unitext.INVALID` once in every text position of a minimal multi-file torrent
    (name, path component, comment, source, unknown key and value at top level / in info / in a file entry /
    in a nested dict and list)"""
    out = []
    items = [(c, s.encode('utf8')) for c, l in sorted(unitext.CURATED.items()) for s in l]
    items += [('invalid', b) for b in unitext.INVALID]
    for cls, b in items:
        valid = cls != 'invalid'
        key = b if valid else b'k'
        f = {b'length': 20000, b'path': [b'd' + b, b], b'path.utf-8': [b], b'x' + key: b}
        info = {b'name': b, b'piece length': gen.K16, b'pieces': bytes(range(20)) * 2, b'files': [f],
                b'source': b, b'name.utf-8': b, key + b'!': [b, {key: b, b'a' + key: [b + b'a']}]}
        md = {b'info': info, b'comment': b, b'created by': b + b' 1.0', key + b'?': {key: b, key + key: [b]}}
        out.append({'op': 'roundtrip', 'x': bstrict.ser(md).hex(), 'validate': True, 'kind': 'curated-text/' + cls,
                    'feats': sorted(gen.features(md) | wide.wide_features(md))})
    return out


def zone_date_cases():
    """small scope: in every zone of the run, a minimal torrent dated at the zone's first / last pre-1970 and first
    post-1970 transition (one second before, at, 3599 s after: gap and fold), on two pre-1970 summer days, a pre-1970
    winter day, the epoch and a recent date"""
    out = []
    for z in zone_table():
        neg = [t for t in z['trans'] if -2 ** 31 < t < 0]
        pos = [t for t in z['trans'] if t >= 0]
        ts = [-14182940, -144590400, -648000, 0, 1513440897]
        for t in neg[:1] + neg[-2:] + pos[:1] + pos[-1:]:
            ts += [t - 1, t, t + 3599]
        for i in dict.fromkeys(ts):
            md = {b'creation date': i,
                  b'info': {b'length': 20000, b'name': b'dated', b'piece length': gen.K16, b'pieces': bytes(range(20)) * 2}}
            out.append({'op': 'roundtrip', 'x': bstrict.ser(md).hex(), 'validate': True, 'kind': 'zone-dates', 'feats': [],
                        'tz': z['label']})
    return out


def _load_corpus(ctx):
    import glob
    import json
    import os
    out = []
    for p in sorted(glob.glob(os.path.join(common.CORPUS_DIR, ctx.prop, '*.json'))):
        j = json.load(open(p))
        out.extend(j if isinstance(j, list) else [j])
    return out


NONTRIVIAL_FEATS = {'non-utf8-bytes', 'multibyte-key', 'bigint', 'depth>=4', 'empty-list', 'empty-dict',
                    'utf16-order-differs'}


def _nontrivial(feats):
    return bool(feats & NONTRIVIAL_FEATS) or any(
        f.startswith(('text:', 'key:', 'date:')) and f != 'text:non-utf8-bytes' for f in feats)


def evaluate(ctx, drv, cases):
    results = common.pmap(_run_chunk, common.split(cases, common.NPROC * 4))
    obs_all = [o for chunk in results for o in chunk]
    reqs = []
    for c, o in zip(cases, obs_all):
        if c['op'] == 'parse':
            reqs.append({'op': 'c05.parse', 'x': c['x']})
        else:
            ck = o.get('clock')
            reqs.append({'op': 'c05.roundtrip', 'x': c['x'], 'validate': c['validate'], 'vok': o['vok'],
                         'cd': o['cd'],
                         'clock': None if not ck or ck['i'] is None else {k: ck[k] for k in ('i', 'local', 'stamp')}})
    replies = drv.run(reqs)
    for c, o, m in zip(cases, obs_all, replies):
        case = {'op': c['op'], 'x': c['x'], 'validate': c.get('validate'), 'kind': c['kind']}
        if c.get('tz'):
            case['tz'] = c['tz']
        if c['op'] == 'parse':
            ctx.case(key=None, nontrivial=False, kind=c['kind'])
            model = {'ok': m['model']} if m['model'] is not None else {'err': 'error'}
            if o['parse'] != model:
                ctx.corr_break('c05.parse', case, _short(model), _short(o['parse']))
            if o['strict'] != m['strict']:
                ctx.corr_break('c05.parse/strict', case, m['strict'], o['strict'])
            if m['strict'] and m['reser'] != c['x']:
                ctx.machinery_error('strict parser accepted bytes that are not ser(parse) (contradicts C05_parse_ser)', case)
            continue
        hyp = bool(m['hyp']) and o['vok'] and c['validate']
        feats = set(c.get('feats', []))
        if o.get('clock'):
            feats |= {'date:' + f for f in o['clock']['feat']}
            if m.get('lawful') is not None:
                ctx.dist['clock-law-at-the-document-date:' + ('holds' if m['lawful'] else 'fails')] += 1
                # the setter refused (local is None): lawful vacuously, not representable
                exp = bool(m['lawful']) and o['clock']['local'] is not None
                if m['flags'].get('canon') and 'dateOk' in m['flags'] and exp != bool(m['flags']['dateOk']):
                    ctx.machinery_error('Clock.lawfulAt and DateOk disagree (contradicts C05_date_setter_getter_at)', case)
            ctx.dist['zone-of-dated-torrent:' + (c.get('tz') or 'UTC')] += 1
        ctx.case(key=(c['x'][:4000], c.get('tz') or 'UTC') if hyp else None, nontrivial=hyp and _nontrivial(feats),
                 kind='roundtrip/' + c['kind'] + ('/hyp' if hyp else ''))
        for f in feats:
            ctx.dist['feature:' + f] += 1
        if hyp:
            ctx.sample({'case': {**case, 'x': c['x'][:160] + ('…' if len(c['x']) > 160 else '')},
                        'flags': m['flags'], 'features': sorted(feats)})
        # --- specification (only under the theorem's hypothesis)
        if hyp:
            bad = None
            if 'ok' not in o['read']:
                bad = ('read_stream rejected a canonical metainfo that validate() accepts', o['read'])
            elif o['dump'] != {'ok': c['x']}:
                bad = ('read_stream(x).dump() != x', _short(o['dump']))
            elif not o.get('second_eq'):
                bad = ('read_stream(t.dump()) != t', _short(o.get('second')))
            elif o['infohash'] != o.get('second_infohash') or 'ok' not in o['infohash']:
                bad = ('infohash changed by dump/read', [o['infohash'], o.get('second_infohash')])
            elif o.get('second_dump_same') != {'ok': True}:
                bad = ('second dump differs', o.get('second_dump_same'))
            if bad:
                ctx.violation(bad[0], case, {'dump': c['x'][:400], 'equal': True}, bad[1], finding_matchers=MATCHERS)
                continue
            # model must satisfy the spec too (theorem C05_dump_read)
            if m['read'].get('ok') is None or m.get('dump') != {'ok': m['spec']}:
                ctx.machinery_error('model violates C05_dump_read under its hypothesis', case)
                continue
        # --- correspondence model vs implementation (everywhere)
        mread = m['read']
        if 'ok' in mread:
            mread = {'ok': canon_json(mread['ok'])}
        if mread != o['read']:
            ctx.corr_break('c05.roundtrip/read', case, _short(mread), _short(o['read']))
            continue
        if 'ok' not in mread:
            continue
        if m['dump'] != o['dump']:
            ctx.corr_break('c05.roundtrip/dump', case, _short(m['dump']), _short(o['dump']))
            continue
        mih = m['infoBytes']
        if 'ok' in mih:
            mih = {'ok': hashlib.sha1(bytes.fromhex(mih['ok'])).hexdigest()}
        if mih != o['infohash']:
            ctx.corr_break('c05.roundtrip/infohash', case, mih, o['infohash'])
            continue
        if 'ok' in m['dump']:
            msec = m['second']
            if msec and 'ok' in msec:
                msec = {'ok': canon_json(msec['ok'])}
            if msec != o.get('second'):
                ctx.corr_break('c05.roundtrip/second-read', case, _short(msec), _short(o.get('second')))



# ---------------------------------------------------------------------------------------------- depth probes
# Everything the reader accepts must be writable again: the nesting depth `read_stream` accepts is bounded by
# CPython's recursion limit (RecursionError -> BdecodeError), the depth `dump` / `infohash` / `write` can export is
# bounded by the same limit (RecursionError -> MetainfoError), and the two recursions have different frame costs.
# See harness/impl/depthprobe.py for how a probe is run at a fixed number of remaining frames `B`.

SL, SE = 1, 1          # leaf / entry slack of the unchanged code (Torf.Depth.Rel, theorem C05_depth_dump_read)
WHERES = ['top', 'info', 'file', 'top-list', 'info-dict']
PATTERNS = ['l', 'd', 'ld', 'dl', 'lld', 'ddl']
LEAVES = ['empty', 'int', 'ascii', 'text', 'bytes', 'bigint']
BIG_B = [960, 959]
SMALL_B = [241, 240, 121, 120, 81, 80]


def _d05a(case, observed, finding):
    """D05a and nothing else: the reader accepted, the writer raised MetainfoError for lack of frames, and the
    writer needs at most 2 frames (dump / infohash) resp. 3 frames (Torrent.read -> Torrent.write) more than the
    reader needed for the same document, i.e. the document is within one nesting level (two via files) of the
    deepest one the reader accepts at this stack depth."""
    try:
        if case.get('op') != 'depth' or observed.get('kind') != 'metainfo':
            return False
        nr, nw, B = observed['need_read'], observed['need_write'], observed['B']
        lim = 2 if observed['api'] == 'mem' else 3
        return nr <= B < nw and 0 < nw - nr <= lim
    except (KeyError, TypeError):
        return False


MATCHERS['d05a_export_needs_more_frames'] = _d05a


def gen_depth_families(ctx, n_small, n_big):
    r = ctx.rng
    fams = []

    def fam(B, where=None, pattern=None, leaf=None, bush=False):
        pat = pattern or (r.choice(PATTERNS) if r.random() < 0.7
                          else ''.join(r.choice('ld') for _ in range(r.randint(3, 7))))
        return {'op': 'depth', 'where': where or r.choice(WHERES), 'pattern': pat, 'leaf': leaf or r.choice(LEAVES),
                'bush': r.randrange(1, 10 ** 6) if bush else None, 'multi': r.random() < 0.3, 'B': B,
                'seed': r.randrange(10 ** 6), 'nrandom': 3}
    # fixed part: the default-limit budgets, both parities, a text leaf (the writer's dearest leaf)
    fixed = [('top', 'l', 'text'), ('info', 'd', 'bytes'), ('file', 'ld', 'empty'), ('info-dict', 'dl', 'int')]
    for i in range(n_big):
        w, p, l = fixed[i % len(fixed)]
        fams.append(fam(BIG_B[(i // len(fixed)) % 2] if i >= len(fixed) else BIG_B[i % 2], w, p, l))
    for i in range(n_small):
        fams.append(fam(SMALL_B[i % len(SMALL_B)] if i < 2 * len(SMALL_B) else r.choice(SMALL_B) - r.choice([0, 0, 7, 20]),
                        bush=r.random() < 0.35))
    return fams


def all_depth_families():
    out = []
    for B in SMALL_B[:4]:
        for w in WHERES:
            for p in PATTERNS:
                for l in LEAVES:
                    out.append({'op': 'depth', 'where': w, 'pattern': p, 'leaf': l, 'bush': None, 'multi': False,
                                'B': B, 'seed': len(out), 'nrandom': 1})
    return out


def _run_depth_chunk(chunk):
    import sys
    torf = common.import_torf()
    tmp = common.worker_dir()
    old = sys.getrecursionlimit()
    sys.setrecursionlimit(depthprobe.LIMIT)
    try:
        depthprobe.warm(torf, tmp)
        out = []
        for fam in chunk:
            if fam == 'calibrate':
                out.append(depthprobe.calibrate(torf, tmp))
            else:
                out.append(depthprobe.probe_family(torf, fam, tmp, fam.get('extra', ())))
        return out
    finally:
        sys.setrecursionlimit(old)


def evaluate_depth(ctx, drv, fams, cost=None):
    chunks = [[f] for f in sorted(fams, key=lambda f: -f['B'])]
    if cost is None:
        chunks = [['calibrate']] + chunks
    res = [o for ch in common.pmap(_run_depth_chunk, chunks) for o in ch]
    if cost is None:
        cost, res = res[0], res[1:]
        ctx.notes['frame_costs_measured'] = cost
    fams = [c[0] for c in chunks if c != ['calibrate']]
    model_cost = cost if cost and not cost.get('_inconsistent') else None
    if model_cost is None:
        ctx.notes['frame_costs_note'] = ('the anchored converter functions could not be measured; depth probes ran '
                                         'against the specification only')
    reqs, index = [], []
    for fi, (fam, pr) in enumerate(zip(fams, res)):
        for d in sorted(pr['obs']):
            x, _ = depthprobe.family_doc(fam, d)
            nd = pr['needs'].get(d) or {}
            index.append((fi, d, x))
            if model_cost is not None:
                reqs.append({'op': 'c05.depth', 'x': x.hex(), 'validate': True, 'vok': nd.get('vok', True), 'cd': None,
                             'cost': {k: v for k, v in model_cost.items() if not k.startswith(('floor', '_'))},
                             'B': pr['obs'][d]['B'], 'sl': SL, 'se': SE})
    replies = drv.run(reqs) if reqs else [None] * len(index)
    rel_reported = False
    for (fi, d, x), m in zip(index, replies):
        fam, pr = fams[fi], res[fi]
        o, nd, R = pr['obs'][d], pr['needs'].get(d) or {}, pr['R']
        B = o['B']
        case = {'op': 'depth', 'family': {k: fam[k] for k in ('where', 'pattern', 'leaf', 'bush', 'multi', 'B')},
                'depth': d, 'R': R, 'x': x.hex() if len(x) <= 20000 else None, 'kind': 'depth'}
        kind = 'depth/%s/%s/B%s' % (fam['where'], fam['leaf'], 'default' if fam['B'] >= 900 else 'small')
        hyp = (m is None or bool(m['hyp'])) and nd.get('vok', True)
        ctx.case(key=('depth', fam['where'], fam['pattern'], fam['leaf'], fam['bush'], fam['multi'], B, d),
                 nontrivial=hyp and o['read'] == 'ok' and d >= 16, kind=kind)
        ctx.dist['depth:R-d=%s' % (R - d if R - d <= 8 else '>8')] += 1
        if d == R:
            ctx.sample({'case': {**case, 'x': None}, 'observed': o, 'frames_needed': nd,
                        'model': None if m is None else {k: m.get(k) for k in ('readNeed', 'dumpNeed', 'infoNeed', 'rel')}},
                       limit=9)
        # --- specification: accepted by the reader (at budget B)  =>  writable, hashable, equal after re-reading
        bad = []
        if hyp and o['read'] == 'ok':
            if o.get('dump') != 'same':
                bad.append(('mem', 'read_stream(x) succeeded but dump() ' + (
                    'raised' if ':' not in o.get('dump', '') else 'returned different bytes'), o.get('dump'), 'dump'))
            elif o.get('second') != 'equal':
                bad.append(('mem', 'read_stream(t.dump()) != t', o.get('second'), 'dump'))
            if o.get('infohash') != 'same':
                bad.append(('mem', 'read_stream(x) succeeded but infohash is not the SHA-1 of the info span',
                            o.get('infohash'), 'hash'))
        if hyp and o.get('readf') == 'ok' and o.get('writef') != 'same':
            bad.append(('file', 'Torrent.read(f) succeeded but write(g) ' + (
                'raised' if ':' not in o.get('writef', '') else 'wrote different bytes'), o.get('writef'), 'writef'))
        for api, what, got, nk in bad:
            observed = {'api': api, 'kind': got if got and ':' not in got else 'differs', 'B': B if api == 'mem' else B,
                        'need_read': nd.get('read' if api == 'mem' else 'readf'), 'need_write': nd.get(nk),
                        'detail': got}
            ctx.violation(what + ' (nesting depth %d, reader accepts up to %d with %d frames left)' % (d, R, B), case,
                          {'dump': 'the input bytes', 'infohash': 'sha1(info span)'}, observed,
                          finding_matchers=MATCHERS)
        if m is None:
            continue
        # --- the model with the measured costs must satisfy the proved theorem
        if not m['rel']:
            if not rel_reported:
                rel_reported = True
                ctx.corr_break('c05.depth/cost-relation', {'op': 'depth', 'cost': model_cost, 'sl': SL, 'se': SE},
                               'Rel C 1 1 (writer needs no more frames per level than the reader, <= 1 more per leaf, '
                               '<= 1 more on entry): hypothesis of C05_depth_dump_read', 'measured costs violate it')
        elif hyp and 'ok' in m['read']:
            if m.get('dumpSlack') != {'ok': x.hex()} or 'ok' not in m.get('infoBytes', {}):
                ctx.machinery_error('model violates C05_depth_dump_read / C05_depth_infohash under Rel', case)
                continue
        # --- correspondence: outcome at budget B
        mo = {'read': 'ok' if 'ok' in m['read'] else m['read']['err']}
        io = {'read': o['read']}
        if 'ok' in m['read'] and o['read'] == 'ok':
            mo['dump'] = 'same' if m['dump'] == {'ok': x.hex()} else m['dump'].get('err', 'differs')
            mo['infohash'] = 'same' if 'ok' in m['infoBytes'] else m['infoBytes']['err']
            io['dump'] = o['dump'].split(':')[0]
            io['infohash'] = o['infohash'].split(':')[0]
        mo['readf'] = 'ok' if 'ok' in m['readFile'] else m['readFile']['err']
        io['readf'] = o['readf']
        if 'ok' in m['readFile'] and o['readf'] == 'ok':
            mo['writef'] = 'same' if m['writeFile'] == {'ok': x.hex()} else m['writeFile'].get('err', 'differs')
            io['writef'] = o['writef'].split(':')[0]
        if mo != io and B >= 60:
            ctx.corr_break('c05.depth/outcome', case, mo, io)
            continue
        # --- correspondence: frames needed (only where the recursion dominates the input-independent rest)
        if nd and d >= 16 and 'read' in nd and m.get('readNeed') is not None:
            mn = {'read': m['readNeed'], 'readf': m['readNeed'] + model_cost['rdf']}
            im = {'read': nd['read'], 'readf': nd.get('readf')}
            if 'dumpNeed' in m and 'dump' in nd:
                mn.update({'dump': m['dumpNeed'], 'writef': m['dumpNeed'] + model_cost['wrf']})
                im.update({'dump': nd['dump'], 'writef': nd.get('writef')})
                if fam['where'] not in ('top', 'top-list'):
                    mn['hash'] = m['infoNeed']
                    im['hash'] = nd['hash']
            if mn != im:
                ctx.corr_break('c05.depth/frames', case, mn, im)
    return cost


# ---------------------------------------------------------------------------------------------- histories on one object
# The round-trip clauses in EVERY state an object goes through: a torrent is loaded, exports (infohash, infohash_base32,
# magnet(), dump(), dump(validate=False), write_stream()) are interleaved with edits of its metainfo at every nesting
# depth (harness/impl/mdedit.py), and after every stage the clauses are judged on the live object.  Model: the exports
# are functions of the current metainfo value (Torf.Model.History.exportOf; theorems C05_exports_history_independent,
# C05_history_roundtrip): the harness reads the live metainfo value at every stage and the driver computes the exports
# from that value alone.
H_EXPORTS = ['infohash', 'b32', 'magnet', 'dump', 'dump_nv', 'write_stream']


def _htext(r):
    return unitext.wtext(r, 1, 2) if r.random() < 0.35 else r.choice(['a', 'tag', 'hd', 'x y', 'README', ''])


def history_cases(ctx, n):
    r = ctx.rng
    cases = []
    for _ in range(n):
        md = gen.metainfo(r, {})
        if r.random() < 0.4:
            wide.widen(r, md)
        info = md[b'info']
        if b'files' not in info and r.random() < 0.6:          # most histories on multi-file torrents (path lists)
            size = info.pop(b'length')
            info.pop(b'md5sum', None)
            a = size // 2
            info[b'files'] = [{b'length': a, b'path': [b'docs', b'manual.pdf']},
                              {b'length': size - a, b'path': [b'src', b'main.c'], b'x-attr': [b'x', [b'y']]}]
        # unknown nested structures to edit in place: in info, at top level, in a file entry
        info[b'x-tags'] = [b'release', [b'nested', 7, {b'k': [1, 2]}]]
        if r.random() < 0.7:
            md[b'x-tree'] = {b'a': [1, [2, [3]]], b'b': {b'c': {b'd': [b'deep']}}}
        if r.random() < 0.5:
            info[b'x-map'] = {b'k': {b'l': [b'v']}, b'e': []}
        tz = 'UTC'
        if r.random() < 0.4:
            z = r.choice(zone_table())
            tz = z['label']
            if r.random() < 0.6:
                md[b'creation date'] = tzenv.dates(r, z['trans'])[0]
        stages = []
        for si in range(r.randint(3, 7)):
            ex = [r.choice(H_EXPORTS) for _ in range(r.choice([0, 1, 1, 2, 3, 5]))]
            if si == 0 and r.random() < 0.5:
                ex = []                                          # edited before anybody looked at the object
            edit = None if si == 0 else mdedit.gen_edit(r, _htext)
            if edit and r.random() < 0.55 and edit['kind'] not in mdedit.NESTED:
                edit = mdedit.gen_edit(r, _htext)                # bias towards nested in-place edits
            stages.append({'edit': edit, 'exports': ex})
        cases.append({'op': 'history', 'x': bstrict.ser(md).hex(), 'tz': tz, 'stages': stages, 'kind': 'history'})
    return cases


def _info_span_sha1(y):
    v, spans = bstrict.strict_parse(y)
    s, e = spans[id(v)][b'info']
    return hashlib.sha1(y[s:e]).hexdigest()


def _run_history_chunk(cases):
    import os
    import time
    orig = os.environ.get('TZ')
    try:
        return [_run_history(c) for c in cases]
    finally:
        if orig is None:
            os.environ.pop('TZ', None)
        else:
            os.environ['TZ'] = orig
        time.tzset()


def _export(torf, t, name):
    import base64
    import io
    try:
        if name == 'infohash':
            return {'ok': t.infohash}
        if name == 'b32':
            return {'ok': base64.b16encode(base64.b32decode(t.infohash_base32)).decode().lower()}
        if name == 'magnet':
            s = str(t.magnet())
            xt = [p[3:] for p in s.split('?', 1)[1].split('&') if p.startswith('xt=')][0]
            return {'ok': xt}
        if name == 'dump':
            return {'ok': t.dump().hex()}
        if name == 'dump_nv':
            return {'ok': t.dump(validate=False).hex()}
        if name == 'write_stream':
            b = io.BytesIO()
            t.write_stream(b)
            return {'ok': b.getvalue().hex()}
    except Exception as e:  # noqa
        return {'err': ekind(e)}
    raise ValueError(name)


def _run_history(c):
    import flatbencode
    torf = common.import_torf()
    zmap = {z['label']: z['value'] for z in zone_table()}
    tzenv.set_tz(zmap.get(c.get('tz') or 'UTC', 'UTC'))
    x = bytes.fromhex(c['x'])
    try:
        t = torf.Torrent.read_stream(x)
    except Exception as e:  # noqa
        return {'setup_failed': ekind(e)}
    out = {'stages': []}
    normal = True
    for st in c['stages']:
        so = {}
        if st['edit'] is not None:
            try:
                so['applied'] = mdedit.apply_edit(t, st['edit'])
            except Exception as e:  # noqa      an edit the library refuses is no state change
                so['applied'] = None
                so['edit_raised'] = type(e).__name__
            if so['applied'] is not None and not mdedit.spec_is_normal(st['edit']):
                normal = False
        so['normal'] = normal
        so['md'] = pyval.to_json(t.metainfo)
        try:
            t.validate()
            so['vok'] = True
        except Exception:  # noqa
            so['vok'] = False
        so['outs'] = [[name, _export(torf, t, name)] for name in st['exports']]
        so['unchanged'] = pyval.to_json(t.metainfo) == so['md']
        # the round-trip clauses on the live object, now
        y = _attempt(lambda: t.dump())
        if 'ok' in y:
            yb = y['ok']
            so['y'] = yb.hex()
            so['hash_now'] = _attempt(lambda: t.infohash)
            try:
                so['span_sha1'] = _info_span_sha1(yb)
            except Exception as e:  # noqa
                so['span_sha1'] = 'not-canonical:' + type(e).__name__
            try:
                t2 = torf.Torrent.read_stream(yb)
                so['second'] = {'eq': t2 == t, 'dump_same': _attempt(lambda: t2.dump() == yb),
                                'infohash': _attempt(lambda: t2.infohash)}
            except Exception as e:  # noqa
                so['second'] = {'err': ekind(e)}
            so['clock'] = None
            try:
                i = flatbencode.decode(yb).get(b'creation date')
                if isinstance(i, int) and abs(i) < 10 ** 30:
                    loc, stp = tzenv.local_of(i)
                    so['clock'] = {'i': str(i), 'local': loc, 'stamp': None if stp is None else str(stp)}
            except Exception:  # noqa
                pass
        else:
            so['y'] = None
            so['y_err'] = y['err']
        out['stages'].append(so)
    return out


def _history_py(c, upto):
    """the history as the Python a user would write (for the report)"""
    lines = ["t = torf.Torrent.read_stream(bytes.fromhex(x))    # TZ=%s" % c.get('tz', 'UTC')]
    for si, st in enumerate(c['stages'][:upto + 1]):
        if st['edit'] is not None:
            e = st['edit']
            lines.append('# stage %d: mdedit.apply_edit(t, %r)' % (si, {k: e[k] for k in e if k != 'attr'} if e['kind'] != 'attr'
                                                                     else {'kind': 'attr', 'attr': e['attr']}))
        for name in st['exports']:
            lines.append({'infohash': 't.infohash', 'b32': 't.infohash_base32', 'magnet': 'str(t.magnet())', 'dump': 't.dump()',
                          'dump_nv': 't.dump(validate=False)', 'write_stream': 't.write_stream(io.BytesIO())'}[name])
        lines.append('y = t.dump(); h = t.infohash; t2 = torf.Torrent.read_stream(y); t2 == t; t2.dump() == y; t2.infohash == h '
                     '== sha1(info span of y)   # the clauses, judged after every stage%s' % (' <-- fails here' if si == upto else ''))
    return lines


def evaluate_history(ctx, drv, cases):
    results = [o for ch in common.pmap(_run_history_chunk, common.split(cases, common.NPROC * 4)) for o in ch]
    reqs, index = [], []
    for ci, (c, o) in enumerate(zip(cases, results)):
        if 'setup_failed' in o:
            ctx.dist['history-setup-failed:' + o['setup_failed']] += 1
            continue
        for si, so in enumerate(o['stages']):
            index.append((ci, si))
            reqs.append({'op': 'c05.stage', 'md': so['md'], 'vok': so['vok'], 'cd': None, 'clock': so.get('clock')})
    replies = drv.run(reqs)
    profile = {}
    for (ci, si), m in zip(index, replies):
        c, so = cases[ci], results[ci]['stages'][si]
        st = c['stages'][si]
        case = {'op': 'history', 'x': c['x'], 'tz': c['tz'], 'stages': c['stages'][:si + 1], 'stage': si, 'kind': 'history',
                'py': _history_py(c, si)}
        applied = so.get('applied')
        ek = (st['edit'] or {}).get('kind', 'load')
        nested = ek in mdedit.NESTED and applied is not None
        before = [n for s2 in c['stages'][:si] for n in s2['exports']]
        ctx.dist['history-stage/%s' % (ek if applied is not None or st['edit'] is None else ek + ' (nothing to edit)')] += 1
        hyp = bool(m['hyp']) and so['vok'] and so['y'] is not None
        # date representable in this zone (clock law at the dumped date)
        if so.get('clock') and so['clock']['local'] is not None and so['clock']['stamp'] != so['clock']['i']:
            hyp = False
        nontrivial = hyp and nested and any(n in ('infohash', 'b32', 'magnet') for n in before)
        profile.setdefault(ci, []).append((ek, tuple(st['exports'])))
        ctx.case(key=('history', c['x'][:2000], c['tz'], si), nontrivial=nontrivial,
                 kind='history/' + ('nested in-place edit after a hash export' if nontrivial else
                                    'nested in-place edit' if nested else 'top-level edit / attribute / load') + ('/hyp' if hyp else ''))
        if nontrivial and ctx.dist['sampled-history'] < 2:
            ctx.dist['sampled-history'] += 1
            ctx.sample({'case': {k: case[k] for k in ('op', 'tz', 'stage', 'py')}, 'applied': applied,
                        'outs': [[n, _short(r, 80)] for n, r in so['outs']], 'span_sha1': so.get('span_sha1')}, limit=12)
        # --- specification
        bad = None
        if not so['unchanged']:
            bad = ('an export changed the metainfo of the object', [n for n, _ in so['outs']])
        elif bool(m['hyp']) and so['vok'] and so['y'] is None and 'ok' in m['dump']:
            # "dumping a valid torrent … yields": the object passes validate(), the model (under the theorem's hypothesis on the
            # current value: UTF-8 keys, private flag, date) says the dump exists - a dump() that raises here is not a harmless
            # deviation of the model, it is the round trip failing at its first step (seed C05-6a: one container reachable by
            # two paths was reported as a cyclic reference)
            bad = ('t.dump() raised for a torrent that passes validate() (stage %d, after %s)' % (si, ek),
                   {'error': so.get('y_err'), 'model_dump': _short(m['dump'], 120)})
        elif hyp:
            h = so['span_sha1']
            y = so['y']
            for name, r in so['outs']:
                exp = {'ok': y} if name in ('dump', 'dump_nv', 'write_stream') else \
                    {'ok': 'urn:btih:' + h} if name == 'magnet' else {'ok': h}
                if r != exp:
                    bad = ('%s on an edited object does not report the current metainfo (stage %d, after %s)' % (
                        {'infohash': 't.infohash', 'b32': 't.infohash_base32', 'magnet': 't.magnet()', 'dump': 't.dump()',
                         'dump_nv': 't.dump(validate=False)', 'write_stream': 't.write_stream()'}[name], si, ek),
                        {'export': name, 'got': _short(r, 200), 'sha1_of_info_in_dump': h})
                    break
            sec = so.get('second') or {}
            if bad is None:
                if so['hash_now'] != {'ok': h}:
                    bad = ('t.infohash != SHA-1 of the info dictionary in t.dump()', [so['hash_now'], h])
                elif 'err' in sec:
                    bad = ('read_stream(t.dump()) failed on a validated dump', sec)
                elif sec['infohash'] != {'ok': h} or sec['infohash'] != so['hash_now']:
                    bad = ('read_stream(t.dump()).infohash != t.infohash', [sec['infohash'], so['hash_now']])
                elif sec['dump_same'] != {'ok': True}:
                    bad = ('read_stream(y).dump() != y for y = t.dump()', sec['dump_same'])
                elif so['normal'] and not sec['eq']:
                    bad = ('read_stream(t.dump()) != t', 'only values that read back as themselves were stored')
        if bad:
            ctx.violation(bad[0], case, 'every export is a function of the current metainfo; the round-trip clauses hold in '
                          'every state (C05_exports_history_independent, C05_history_roundtrip)', bad[1],
                          finding_matchers=MATCHERS)
            continue
        # --- the model satisfies the clauses under its hypothesis
        if hyp:
            if 'ok' not in m['dump'] or m.get('second') != {'ok': None} or m.get('secondDump') != m['dump'] \
                    or m.get('secondInfoBytes') != m['infoBytes'] or 'ok' not in m['infoBytes']:
                ctx.machinery_error('model violates C05_history_roundtrip under its hypothesis', case)
                continue
        # --- correspondence: every export against the function of the current value
        mh = m['infoBytes']
        if 'ok' in mh:
            mh = {'ok': hashlib.sha1(bytes.fromhex(mh['ok'])).hexdigest()}
        for name, r in so['outs']:
            exp = m['dump'] if name in ('dump', 'write_stream') else m['dumpNV'] if name == 'dump_nv' else \
                ({'ok': 'urn:btih:' + mh['ok']} if 'ok' in mh else mh) if name == 'magnet' else mh
            if r != exp:
                ctx.corr_break('c05.stage/' + name, case, _short(exp, 200), _short(r, 200))
                break
        else:
            my = m['dump']
            iy = {'ok': so['y']} if so['y'] is not None else {'err': so.get('y_err')}
            if my != iy:
                ctx.corr_break('c05.stage/dump', case, _short(my, 200), _short(iy, 200))


def _short(x, n=600):
    s = repr(x)
    return s if len(s) <= n else s[:n] + '…'


def run(ctx, drv):
    ctx.notes['rule'] = RULE
    ctx.notes['assumptions'] = [
        'datetime.fromtimestamp / timestamp are an oracle (computed with the standard library per case); '
        '"representable" = int(fromtimestamp(i).timestamp()) == i',
        'Torrent.validate() is a parameter of the read/dump model (its model is property C07); the harness '
        'supplies the real verdict per document',
        'CPython int<->str limit = 4300 digits (sys default)',
        'flatbencode 0.2.1 is modelled in full (Bencode.parse / Bencode.ser)',
        'Python str holding lone surrogates is outside PyVal (cannot come out of a strict UTF-8 decode)',
        'SHA-1 is a parameter: the model returns the bytes that are hashed, the harness applies hashlib.sha1',
        'depth probes: CPython 3.12 counts exactly the Python-level frames against sys.getrecursionlimit(); every '
        'probe runs in a fresh thread at recursion limit 1000, padded so that the torf call has exactly B frames left '
        '(B in {960, 959} = default limit, small caller; {241, 240, 121, 120, 81, 80, ...} = deep caller), on warm abc '
        'caches; frames needed are the maximum call depth under sys.setprofile at an unlimited budget',
        'the frame costs of decode_value/decode_list/decode_dict, encode_value/encode_list/encode_dict, the str / '
        'datetime converters, ABCMeta.__instancecheck__, flatbencode.encode and the API entry points are parameters of '
        'the depth model (Torf.Depth.Cost), measured on the code under test at the start of every run; B >= 60 covers '
        'the input-independent frames of the parser, validate() and the setters',
        'time zones: the worker process sets TZ and calls time.tzset() per case; zones of the run = system zones found under '
        '/usr/share/zoneinfo plus synthetic TZif (version 1) files in the scratch directory; the clock law '
        'int(datetime.fromtimestamp(i).timestamp()) == i is an oracle measured with the standard library per document '
        '(flag lawful / dateOk) and on a grid around every transition of every zone (clock_law_measured); proved is what '
        'follows from the law (C05_date_setter_getter, C05_dump_read_clock) and the law itself for zones with one offset '
        'change (C05_date_zone2_lawful)',
        'histories: the object state that matters is the metainfo value; the harness reads the live value '
        '(pyval.to_json(t.metainfo)) at every stage and the model computes every export from that value alone; Python\'s '
        'own list / dict mutation semantics are trusted; stored magnet hashes (Magnet.torrent()) are C06\'s subject',
        'the unicodedata module of the running Python (Unicode %s) is used to generate and label text, never to '
        'compute an expected result' % __import__('unicodedata').unidata_version,
    ]
    import time
    t_start = time.time()
    corpus = _load_corpus(ctx)
    total = ctx.n(2500, 40000)
    first = True
    while total > 0:
        n = min(BATCH, total)
        total -= n
        evaluate(ctx, drv, (corpus if first else []) + gen_cases(ctx, n, small_scope=first))
        first = False
        if ctx.violations:
            break
    # the law the creation-date round trip relies on, measured in every zone of the run (oracle part of C05_date_*)
    grids = common.pmap(_run_chunk, [[{'op': 'lawgrid', 'x': '', 'tz': z['label']}] for z in zone_table()])
    ctx.notes['clock_law_measured'] = {
        z['label']: {'transitions': len(z['trans']), 'accepted_and_identity': g[0]['accepted_and_identity'],
                     'refused_by_setter': g[0]['refused_by_setter'],
                     'accepted_not_identity': g[0]['accepted_not_identity'][:8]}
        for z, g in zip(zone_table(), grids)}
    if not ctx.violations:
        evaluate_history(ctx, drv, history_cases(ctx, ctx.n(500, 8000)))
    t_docs = time.time()
    if not ctx.violations:
        fams = gen_depth_families(ctx, ctx.n(30, 160), ctx.n(4, 24))
        if ctx.thorough:
            fams += all_depth_families()
        evaluate_depth(ctx, drv, fams)
    ctx.notes['phase_seconds'] = {'documents': round(t_docs - t_start, 1), 'depth_probes': round(time.time() - t_docs, 1)}
    ctx.exhaustive = False
    ctx.notes['exhaustive_scope'] = ('every byte string of length <= %d over {d,l,e,i,1,0,:,-,a} through the '
                                     'parser model' % (5 if ctx.thorough else 4))


def search(ctx, drv):
    if any(str(b.get('op', '')).startswith('c05.depth') for b in ctx.corr_breaks if isinstance(b, dict)):
        evaluate_depth(ctx, drv, gen_depth_families(ctx, ctx.n(60, 200), ctx.n(8, 24)))
        if ctx.violations:
            return
    if any(str(b.get('op', '')).startswith('c05.stage') for b in ctx.corr_breaks if isinstance(b, dict)):
        evaluate_history(ctx, drv, history_cases(ctx, ctx.n(1500, 6000)))
        if ctx.violations:
            return
    for _ in range(2):
        evaluate(ctx, drv, gen_cases(ctx, ctx.n(2500, 5000), small_scope=False))
        if ctx.violations:
            break


def replay(ctx, drv, rp):
    c = dict(rp['case'])
    if c.get('op') == 'history':
        evaluate_history(ctx, drv, [c])
        return {'fails': bool(ctx.violations or ctx.corr_breaks), 'violations': ctx.violations,
                'corr_breaks': ctx.corr_breaks}
    if c.get('op') == 'depth':
        if 'family' not in c:
            return {'fails': False, 'note': 'not a document case'}
        fam = {'op': 'depth', **c['family'], 'seed': 0, 'nrandom': 0, 'extra': [c['depth']]}
        evaluate_depth(ctx, drv, [fam])
        return {'fails': bool(ctx.violations or ctx.corr_breaks), 'violations': ctx.violations,
                'corr_breaks': ctx.corr_breaks}
    c.setdefault('kind', 'replay')
    c.setdefault('feats', [])
    if c.get('validate') is None:
        c['validate'] = True
    evaluate(ctx, drv, [c])
    return {'fails': bool(ctx.violations or ctx.corr_breaks), 'violations': ctx.violations,
            'corr_breaks': ctx.corr_breaks}
