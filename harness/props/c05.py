"""
C05 — metainfo survives a dump/read round trip byte for byte.

Three correspondences with the Lean models (`Bencode.parse/ser`, `Codec.decode*/encode*`,
`ReadStream.read/dump/infoBytes`) and one specification check:

* c05.parse      flatbencode.decode on canonical documents and on a mutation stream (unsorted
                 / duplicate keys, odd arity, non-bytes keys, `-0`, leading zeros, 4300-digit
                 limit, truncation, trailing data): value (with dict order) or error, compared
                 with the stack-machine model; the model's strict parser is compared with an
                 independent strict parser written in Python.
* c05.roundtrip  Torrent.read_stream(x, validate) → metainfo / error kind; dump(); infohash;
                 second read — compared with the model; under the hypothesis of C05_dump_read
                 (canonical bytes, UTF-8 keys, private ∈ {0,1}, representable creation date,
                 accepted by validate) the SPEC is: dump == x, second read equal, infohash equal.
"""
import datetime
import hashlib

from harness import common
from harness.gen import metainfo as gen
from harness.impl import bencode_strict as bstrict
from harness.impl import pyval

RULE = ('documents = bencoded metainfo from a grammar (single/multi-file, extra keys at top level, in info and '
        'in file entries, nesting <= 6, empty containers, integers up to 10^4299, valid/invalid UTF-8 byte '
        'strings, multi-byte keys incl. astral vs BMP-private-use) + structure/byte mutations of them; '
        'non-trivial = satisfies the hypothesis of C05_dump_read (canonical, validate accepts, UTF-8 keys, '
        'private in {0,1}, creation date representable) and has at least one of: non-UTF-8 byte string, '
        'multi-byte key, integer >= 2^64, nesting >= 4, empty container; distinct = distinct input bytes')

MATCHERS = {}


def ekind(e):
    n = type(e).__name__
    return {'MetainfoError': 'metainfo', 'BdecodeError': 'bdecode', 'ReadError': 'read',
            'ValueError': 'value', 'MagnetError': 'magnet'}.get(n, 'internal:' + n)


def canon_json(j):
    """sort dict entries (dict order is not an API-level observable of Torrent.metainfo)"""
    if isinstance(j, dict) and j.get('t') == 'd':
        items = [[canon_json(k), canon_json(v)] for k, v in j['v']]
        items.sort(key=lambda kv: repr(kv[0]))
        return {'t': 'd', 'v': items}
    if isinstance(j, dict) and j.get('t') in ('l', 'u'):
        return {'t': j['t'], 'v': [canon_json(x) for x in j['v']]}
    return j


def raw_json(v):
    """flatbencode result → PyVal JSON keeping dict order"""
    return pyval.to_json(v)


def _attempt(f):
    try:
        return {'ok': f()}
    except Exception as e:  # noqa
        return {'err': ekind(e)}


def _run_chunk(cases):
    torf = common.import_torf()
    import flatbencode
    out = []
    for c in cases:
        x = bytes.fromhex(c['x'])
        obs = {}
        if c['op'] == 'parse':
            try:
                obs['parse'] = {'ok': raw_json(flatbencode.decode(x))}
            except (flatbencode.DecodingError, ValueError, OverflowError):
                obs['parse'] = {'err': 'error'}
            except Exception as e:  # noqa
                obs['parse'] = {'err': 'internal:' + type(e).__name__}
            obs['strict'] = bstrict.is_canonical(x, lim=4300)
            out.append(obs)
            continue
        V = c['validate']
        # oracles: datetime.fromtimestamp on the raw creation date; does validate() accept
        cd = None
        try:
            top = flatbencode.decode(x)
            v = top.get(b'creation date') if isinstance(top, dict) else None
            if isinstance(v, int):
                try:
                    cd = pyval.to_json(datetime.datetime.fromtimestamp(v))
                except (ValueError, OverflowError, OSError):
                    cd = None
        except Exception:  # noqa
            pass
        obs['cd'] = cd
        vok = False
        try:
            t0 = torf.Torrent.read_stream(x, validate=False)
            t0.validate()
            vok = True
        except Exception:  # noqa
            pass
        obs['vok'] = vok
        try:
            t = torf.Torrent.read_stream(x, validate=V)
        except Exception as e:  # noqa
            obs['read'] = {'err': ekind(e)}
            out.append(obs)
            continue
        obs['read'] = {'ok': canon_json(pyval.to_json(t.metainfo))}
        d = _attempt(lambda: t.dump(validate=V))
        obs['dump'] = {'ok': d['ok'].hex()} if 'ok' in d else d
        obs['infohash'] = _attempt(lambda: t.infohash)
        if 'ok' in d:
            try:
                t2 = torf.Torrent.read_stream(d['ok'], validate=V)
                obs['second'] = {'ok': canon_json(pyval.to_json(t2.metainfo))}
                obs['second_eq'] = (t2 == t)
                obs['second_infohash'] = _attempt(lambda: t2.infohash)
                obs['second_dump_same'] = _attempt(lambda: t2.dump(validate=V) == d['ok'])
            except Exception as e:  # noqa
                obs['second'] = {'err': ekind(e)}
        out.append(obs)
    return out


BATCH = 2500


def gen_cases(ctx, n_docs, small_scope=True):
    r = ctx.rng
    cases = []
    for i in range(n_docs):
        k = r.random()
        opts = {}
        kind = 'canonical'
        if k < 0.06:
            opts['private'] = r.choice([2, -1, 10 ** 20, b'', b'x', [], [0], {}])
            kind = 'private-not-01'
        elif k < 0.12:
            opts['cdate'] = r.choice([253402300800, -62135596801, 10 ** 20, -10 ** 20, b'', b'x', [], [1], {},
                                      2 ** 63, 10 ** 400])
            kind = 'cdate-odd'
        elif k < 0.17:
            opts['badkeys'] = 0.5
            kind = 'non-utf8-keys'
        elif k < 0.19:
            opts['nopieces'] = True
            kind = 'no-pieces'
        md = gen.metainfo(r, opts)
        if k >= 0.19 and k < 0.21:
            md[b'info'][b'pieces'] = r.choice([5, [b'x' * 20], {b'a': b'b'}, []])
            kind = 'pieces-not-bytes'
        if 0.21 <= k < 0.23:
            r.choice([md.pop, md[b'info'].pop])(r.choice([b'info', b'name', b'piece length']), None)
            kind = 'missing-mandatory'
        if 0.23 <= k < 0.25:
            md[b'info'] = r.choice([5, b'info', [], [md[b'info']]])
            kind = 'info-not-dict'
        x = bstrict.ser(md)
        feats = gen.features(md)
        validate = r.random() < 0.8
        cases.append({'op': 'roundtrip', 'x': x.hex(), 'validate': validate, 'kind': kind, 'feats': sorted(feats)})
        cases.append({'op': 'parse', 'x': x.hex(), 'kind': 'parse/canonical'})
        # mutation stream
        if r.random() < 0.5:
            mk, y = gen.mutate_structure(r, md)
            cases.append({'op': 'parse', 'x': y.hex(), 'kind': 'parse/' + mk})
            if r.random() < 0.5:
                cases.append({'op': 'roundtrip', 'x': y.hex(), 'validate': r.random() < 0.7, 'kind': 'mut/' + mk,
                              'feats': []})
        if r.random() < 0.5:
            mk, y = gen.mutate_bytes(r, x)
            cases.append({'op': 'parse', 'x': y.hex(), 'kind': 'parse/' + mk})
            if r.random() < 0.3:
                cases.append({'op': 'roundtrip', 'x': y.hex(), 'validate': r.random() < 0.7, 'kind': 'mut/' + mk,
                              'feats': []})
    if not small_scope:
        return cases
    # non-dict top-level values and tiny documents (exhaustive over a small alphabet)
    small = [b'', b'e', b'de', b'le', b'i0e', b'0:', b'd0:0:e', b'd1:ae', b'd4:infodee', b'd4:infoi1ee',
             b'd4:info0:e', b'd4:infod6:pieces0:ee', b'd13:creation datei0e4:infodee',
             b'd4:infod7:privatei1eee', b'd4:infod7:privatei0eee', b'd13:creation date0:4:infodee']
    alpha = [b'd', b'l', b'e', b'i', b'1', b'0', b':', b'-', b'a']
    if ctx.thorough:
        import itertools
        for n in range(1, 6):
            for tup in itertools.product(alpha, repeat=n):
                small.append(b''.join(tup))
    else:
        import itertools
        for n in range(1, 5):
            for tup in itertools.product(alpha, repeat=n):
                small.append(b''.join(tup))
    for s in small:
        cases.append({'op': 'parse', 'x': s.hex(), 'kind': 'parse/small-exhaustive'})
    for s in small[:16]:
        for V in (True, False):
            cases.append({'op': 'roundtrip', 'x': s.hex(), 'validate': V, 'kind': 'tiny', 'feats': []})
    return cases


def _load_corpus(ctx):
    import glob
    import json
    import os
    out = []
    for p in sorted(glob.glob(os.path.join(common.CORPUS_DIR, ctx.prop, '*.json'))):
        j = json.load(open(p))
        out.extend(j if isinstance(j, list) else [j])
    return out


NONTRIVIAL_FEATS = {'non-utf8-bytes', 'multibyte-key', 'bigint', 'depth>=4', 'empty-list', 'empty-dict',
                    'utf16-order-differs'}


def evaluate(ctx, drv, cases):
    results = common.pmap(_run_chunk, common.split(cases, common.NPROC * 4))
    obs_all = [o for chunk in results for o in chunk]
    reqs = []
    for c, o in zip(cases, obs_all):
        if c['op'] == 'parse':
            reqs.append({'op': 'c05.parse', 'x': c['x']})
        else:
            reqs.append({'op': 'c05.roundtrip', 'x': c['x'], 'validate': c['validate'], 'vok': o['vok'],
                         'cd': o['cd']})
    replies = drv.run(reqs)
    for c, o, m in zip(cases, obs_all, replies):
        case = {'op': c['op'], 'x': c['x'], 'validate': c.get('validate'), 'kind': c['kind']}
        if c['op'] == 'parse':
            ctx.case(key=None, nontrivial=False, kind=c['kind'])
            model = {'ok': m['model']} if m['model'] is not None else {'err': 'error'}
            if o['parse'] != model:
                ctx.corr_break('c05.parse', case, _short(model), _short(o['parse']))
            if o['strict'] != m['strict']:
                ctx.corr_break('c05.parse/strict', case, m['strict'], o['strict'])
            if m['strict'] and m['reser'] != c['x']:
                ctx.machinery_error('strict parser accepted bytes that are not ser(parse) (contradicts C05_parse_ser)', case)
            continue
        hyp = bool(m['hyp']) and o['vok'] and c['validate']
        feats = set(c.get('feats', []))
        ctx.case(key=c['x'][:4000] if hyp else None, nontrivial=hyp and bool(feats & NONTRIVIAL_FEATS),
                 kind='roundtrip/' + c['kind'] + ('/hyp' if hyp else ''))
        for f in feats:
            ctx.dist['feature:' + f] += 1
        if hyp:
            ctx.sample({'case': {**case, 'x': c['x'][:160] + ('…' if len(c['x']) > 160 else '')},
                        'flags': m['flags'], 'features': sorted(feats)})
        # --- specification (only under the theorem's hypothesis)
        if hyp:
            bad = None
            if 'ok' not in o['read']:
                bad = ('read_stream rejected a canonical metainfo that validate() accepts', o['read'])
            elif o['dump'] != {'ok': c['x']}:
                bad = ('read_stream(x).dump() != x', _short(o['dump']))
            elif not o.get('second_eq'):
                bad = ('read_stream(t.dump()) != t', _short(o.get('second')))
            elif o['infohash'] != o.get('second_infohash') or 'ok' not in o['infohash']:
                bad = ('infohash changed by dump/read', [o['infohash'], o.get('second_infohash')])
            elif o.get('second_dump_same') != {'ok': True}:
                bad = ('second dump differs', o.get('second_dump_same'))
            if bad:
                ctx.violation(bad[0], case, {'dump': c['x'][:400], 'equal': True}, bad[1], finding_matchers=MATCHERS)
                continue
            # model must satisfy the spec too (theorem C05_dump_read)
            if m['read'].get('ok') is None or m.get('dump') != {'ok': m['spec']}:
                ctx.machinery_error('model violates C05_dump_read under its hypothesis', case)
                continue
        # --- correspondence model vs implementation (everywhere)
        mread = m['read']
        if 'ok' in mread:
            mread = {'ok': canon_json(mread['ok'])}
        if mread != o['read']:
            ctx.corr_break('c05.roundtrip/read', case, _short(mread), _short(o['read']))
            continue
        if 'ok' not in mread:
            continue
        if m['dump'] != o['dump']:
            ctx.corr_break('c05.roundtrip/dump', case, _short(m['dump']), _short(o['dump']))
            continue
        mih = m['infoBytes']
        if 'ok' in mih:
            mih = {'ok': hashlib.sha1(bytes.fromhex(mih['ok'])).hexdigest()}
        if mih != o['infohash']:
            ctx.corr_break('c05.roundtrip/infohash', case, mih, o['infohash'])
            continue
        if 'ok' in m['dump']:
            msec = m['second']
            if msec and 'ok' in msec:
                msec = {'ok': canon_json(msec['ok'])}
            if msec != o.get('second'):
                ctx.corr_break('c05.roundtrip/second-read', case, _short(msec), _short(o.get('second')))


def _short(x, n=600):
    s = repr(x)
    return s if len(s) <= n else s[:n] + '…'


def run(ctx, drv):
    ctx.notes['rule'] = RULE
    ctx.notes['assumptions'] = [
        'datetime.fromtimestamp / timestamp are an oracle (computed with the standard library per case); '
        '"representable" = int(fromtimestamp(i).timestamp()) == i',
        'Torrent.validate() is a parameter of the read/dump model (its model is property C07); the harness '
        'supplies the real verdict per document',
        'CPython int<->str limit = 4300 digits (sys default)',
        'flatbencode 0.2.1 is modelled in full (Bencode.parse / Bencode.ser)',
        'Python str holding lone surrogates is outside PyVal (cannot come out of a strict UTF-8 decode)',
        'SHA-1 is a parameter: the model returns the bytes that are hashed, the harness applies hashlib.sha1',
    ]
    corpus = _load_corpus(ctx)
    total = ctx.n(2500, 40000)
    first = True
    while total > 0:
        n = min(BATCH, total)
        total -= n
        evaluate(ctx, drv, (corpus if first else []) + gen_cases(ctx, n, small_scope=first))
        first = False
        if ctx.violations:
            break
    ctx.exhaustive = False
    ctx.notes['exhaustive_scope'] = ('every byte string of length <= %d over {d,l,e,i,1,0,:,-,a} through the '
                                     'parser model' % (5 if ctx.thorough else 4))


def search(ctx, drv):
    for _ in range(2):
        evaluate(ctx, drv, gen_cases(ctx, ctx.n(2500, 5000), small_scope=False))
        if ctx.violations:
            break


def replay(ctx, drv, rp):
    c = dict(rp['case'])
    c.setdefault('kind', 'replay')
    c.setdefault('feats', [])
    if c.get('validate') is None:
        c['validate'] = True
    evaluate(ctx, drv, [c])
    return {'fails': bool(ctx.violations or ctx.corr_breaks), 'violations': ctx.violations,
            'corr_breaks': ctx.corr_breaks}
