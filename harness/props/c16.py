"""
C16 — tracker and seed lists stay in sync with the metainfo under any edit history.

Per history (start state + list of operations) the real `torf.Torrent` is driven through its public
API (`torrent.trackers`, `.webseeds`, `.httpseeds`: assignment and in-place list edits, every
operation through a fresh getter call), and after EVERY operation the four metainfo fields, the
three read-back lists and the error kind are compared with

  * the Lean model `Torf.Lists.step` (correspondence, only claimed under the theorem hypothesis),
  * the Lean specification `Torf.Lists.Spec.holds` evaluated by the driver on the OBSERVED data,
  * an independent Python statement of the same invariants (`py_holds`) and of the rejection rule
    (`reject_expected`), so the spec check does not depend on the model.

`utils.is_url` is a parameter of the model: the real function is evaluated on every string of the
case (and its space→plus image) and passed to the driver as a table.  There is no assumption on it:
`URL()` accepts a string iff it is valid as given AND after its spaces were replaced by '+'.

Held-object histories (`op: get`): a list object is obtained once (`ws = t.webseeds`, `tr = t.trackers`,
`tier = tr[i]`) and edited several times, also after operations that raised.  After every operation
`held_reasons` states the property for the held objects on the real code (metainfo mirrors the held
object, read-back equals it); `plan_op` gives the equivalent fresh-getter history for the driver.

Index and slice assignment on URL lists (`lst[i] = u`, `lst[a:b:st] = us`, `lst[:] = lst`,
`t.webseeds = t.webseeds`; /repo e62ce6d) and `replace()` on a held Trackers object that raises
(/repo 41bec34) are judged like every other operation (I vs S, I vs M); only slice assignment on the
tiers container (`t.trackers[a:b] = …`, open finding D16b) is outside the theorem hypothesis.

Typed values (round 3): every value slot of an operation may hold a value of any Python type / origin
(`harness/impl/urlvalues.py`: tuple, generator, iterator, set, dict, dict views, deque, a str subclass, a
`URL` object, a detached `URLs` / `Trackers` object, a list object of ANOTHER torrent, this torrent's own
webseeds / httpseeds / tier / Trackers object — held or fresh —, `obj + […]`, `obj[a:b]`, nested to any
depth).  The real code gets the object, the model its STRUCTURE (str | list of structures in iteration
order; `Torf.Lists.PyV`, `stepV`, `C16_value_type_irrelevant`): the claim under test is that nothing but the
structure matters.  `value_items` states in Python what such a value stands for (rejection rule, "what was
given is stored" rule), `on: ext` operations edit another torrent's object after it was given as a value.

`reverse()` (/repo 3d3793a) is an operation of the alphabet on all four kinds of list; with `pop`, `remove`,
`+=`, `append`, `extend` every mutating MutableSequence mixin method is covered.  `reverse_expected` states
C16_reverse / C16_tiers_reverse on the real code (no error; a URL list reads back reversed; the tiers
container reads back in reversed tier order since /repo f86a28a).
"""
import itertools
import json
import os

from harness import common
from harness.impl import urlvalues

RULE = ('histories = start state + operations on trackers / a tier / webseeds / httpseeds, each through a fresh getter '
        'call or on a list object obtained once and held (get) '
        '(set, append, insert, extend, +=, delete, slice delete, clear, remove, pop, replace, reverse, index '
        'and slice assignment — plain and extended slices, the list assigned to itself), every value of any Python type / origin '
        '(plain list / str, tuple, generator, iterator, set, dict, dict view, deque, str subclass, URL object, URLs / Trackers object '
        'detached, of another torrent or of this torrent (other tier, webseeds, httpseeds, the Trackers object; held or fresh), '
        'obj + [...], obj[a:b], nested deeper) over the URL alphabet {a, b, c, d, "http://a b", "http://a+b", invalid, '
        'blank, leading-space (valid as given, invalid as stored)}: exhaustive short histories + an exhaustive grid of index / slice assignments on lists of 0–3 URLs and on tiers + random histories up to 8 operations '
        'from the empty torrent and from non-trivial start states; every prefix is one evaluation; '
        'non-trivial = the prefix changed at least one metainfo field at least twice or ended in an '
        'error after a change; distinct = distinct (start, operation prefix)')

A, B, C = 'http://a/1', 'http://b/2', 'udp://c:80/3'
D = 'http://d/4'
E = 'http://e/5'
SP, PL = 'http://a b', 'http://a+b'          # duplicates of each other after coercion
BAD = 'foo'                                  # invalid (no scheme / netloc)
BAD2 = 'http://h:99999/'                     # invalid (port)
BAD3 = 'ht tp://x/'                          # invalid (scheme), but its space→plus image is a URL
LEAD = ' http://l/'                          # is_url() accepts it, its coerced form '+http://l/' is invalid:
                                             # URL() must reject it (former finding D16c, /repo ae2b587)
URLS = [A, B, C, SP, PL, BAD]

# what `utils.is_url` is documented to decide (scheme and netloc present, port valid)
IS_URL_EXPECTED = {A: True, B: True, C: True, SP: True, PL: True, BAD: False, BAD2: False, BAD3: False,
                   'ht+tp://x/': True, '': False,
                   'http://': False, 'http://[::1': False, 'None': False, 'h': False}

START_STATES = {
    'empty': None,
    'full': {'announce': A, 'announce-list': [[A, B], [C]], 'url-list': [A, B], 'httpseeds': [C]},
    'single': {'announce': B, 'announce-list': None, 'url-list': [PL], 'httpseeds': None},
    # states that only a torrent file can produce (the getter's `announce not in flat_urls` branch)
    'legacy-announce': {'announce': C, 'announce-list': [[A], [B]], 'url-list': None, 'httpseeds': None},
    'legacy-list-only': {'announce': None, 'announce-list': [[A]], 'url-list': None, 'httpseeds': None},
}

FIELDS = ('announce', 'announce-list', 'url-list', 'httpseeds')


# ----------------------------------------------------------------------------------------------
# real code
# ----------------------------------------------------------------------------------------------

def _pyval(v):
    if isinstance(v, dict) and v == {'other': 1}:       # {"other": 1}: neither None, str nor iterable
        return 5
    return v


def _val(x):
    """a JSON list is copied (operation dicts are shared between histories); a typed value — tuple,
    generator, URLs object … — is handed over as it is"""
    return list(x) if type(x) is list else x


def _apply_u(lst, op):
    n = op['op']
    if n == 'insert':
        lst.insert(op['i'], op['u'])
    elif n == 'append':
        lst.append(op['u'])
    elif n == 'extend':
        lst.extend(_val(op['us']))
    elif n == 'delete':
        del lst[op['i']]
    elif n == 'delslice':
        del lst[op['a']:op['b']]
    elif n == 'clear':
        lst.clear()
    elif n == 'remove':
        lst.remove(op['u'])
    elif n == 'pop':
        lst.pop() if op['i'] is None else lst.pop(op['i'])
    elif n == 'replace':
        lst.replace(lst if op.get('self') else _val(op['us']))
    elif n == 'setitem':
        lst[op['i']] = op['u']
    elif n == 'setslice':
        # `lst[a:b:st] = us`; 'self': the list object itself is the value (`lst[:] = lst`)
        lst[slice(op['a'], op['b'], op.get('st'))] = lst if op.get('self') else _val(op['us'])
    elif n == 'reverse':
        lst.reverse()
    else:
        raise RuntimeError(f'harness: unknown op {n}')


def _apply_t(tr, op):
    """operation on a Trackers object (fresh from the getter or held)"""
    n = op['op']
    if n == 'insert':
        tr.insert(op['i'], op['v'])
    elif n == 'append':
        tr.append(op['v'])
    elif n == 'extend':
        tr.extend(_val(op['vs']))
    elif n == 'delete':
        del tr[op['i']]
    elif n == 'delslice':
        del tr[op['a']:op['b']]
    elif n == 'clear':
        tr.clear()
    elif n == 'remove':
        tr.remove(list(op['us']))
    elif n == 'pop':
        tr.pop() if op['i'] is None else tr.pop(op['i'])
    elif n == 'replace':
        tr.replace(tr if op.get('self') else _val(op['vs']))
    elif n == 'setitem':
        tr[op['i']] = op['v']
    elif n == 'setslice':
        tr[op['a']:op['b']] = _val(op['vs'])
    elif n == 'reverse':
        tr.reverse()
    else:
        raise RuntimeError(f'harness: unknown op {n}')


def new_held():
    return {'ws': None, 'hs': None, 'tr': None, 'tiers': {}, 'ext': {}}


def _attached(H, k):
    """the tier handle k is bound and its object is still an element of the held Trackers object"""
    tier, tr = H['tiers'].get(k), H['tr']
    if tier is None or tr is None:
        return None
    for i, x in enumerate(tr):
        if x is tier:
            return i
    return None


def resolve_self(t, H, op):
    """`'self': True` = the value is the list object the operation is applied to (`lst[a:b] = lst`,
    `lst.replace(lst)`, `t.webseeds = t.webseeds`, `t.trackers = t.trackers`; the held object if one is held).  Returns the
    operation with the value written out (what the model is given): the content of that object as it
    is BEFORE the operation."""
    on, r = op['on'], {x: y for x, y in op.items() if x != 'self'}
    try:
        if on in ('ws', 'hs'):
            obj = H[on] if H[on] is not None else getattr(t, 'webseeds' if on == 'ws' else 'httpseeds')
            cur = [str(u) for u in obj]
        elif on == 'tr':
            obj = H['tr'] if H['tr'] is not None else t.trackers
            cur = [[str(u) for u in tier] for tier in obj]
        elif 'k' in op:
            cur = [str(u) for u in (H['tiers'].get(op['k']) or ())]
        else:
            obj = H['tr'] if H['tr'] is not None else t.trackers
            cur = [str(u) for u in obj[op['ti']]]
    except Exception:  # noqa  (the getter / the index raises: so will the operation itself)
        cur = []
    r['v' if op['op'] == 'set' else 'vs' if on == 'tr' else 'us'] = cur
    return r


def plan_op(H, op):
    """(via, model operation): how the operation is routed — 'get' (a list object is obtained and
    held), 'get-tier' (a tier of the held Trackers object is held), 'held' (applied to the held
    object of that list), 'skip' (a tier handle that is unbound or no longer part of the held
    Trackers object: nothing is done), 'fresh' (through a fresh getter call, as in the plain
    histories) — and the operation of the fresh-getter state machine it is equivalent to while the
    held object's change callback is alive (None = the identity)."""
    on, n = op['on'], op['op']
    if n == 'get':
        return ('get-tier' if on == 'tier' and H['tr'] is not None else 'get'), None
    if on == 'ext':
        # an edit of a list object of ANOTHER torrent that was given to this one as a value earlier
        # (`'keep'`): this torrent and its list objects must not notice (no aliasing)
        return ('ext' if op.get('k') in H.get('ext', {}) else 'skip'), None
    if on == 'tier' and 'k' in op:
        i = _attached(H, op['k'])
        if i is None:
            return 'skip', None
        m = {x: y for x, y in op.items() if x != 'k'}
        m['ti'] = i
        if n == 'iadd':          # `tier += us` on a local name: extend, no Trackers.__setitem__
            m['op'] = 'extend'
        return 'held', m
    g = 'tr' if on == 'tier' else on
    if n == 'set' or H[g] is None:
        return 'fresh', op
    if n == 'iadd' and on != 'tier':     # `held += us`: MutableSequence.__iadd__ = extend, no property setter
        m = dict(op)
        m['op'] = 'extend'
        return 'held', m
    return 'held', op


def apply_op(t, op, H=None):
    """Apply one operation; `H` = the held list objects of this history (new_held())."""
    if H is None:
        H = new_held()
    on, n = op['on'], op['op']
    if on == 'ext':
        o = H['ext'][op['k']]
        if 'ti' in op:
            o = o[op['ti']]
        if n == 'iadd':
            o += _val(op['us'])
        else:
            _apply_u(o, op)
    elif n == 'get':
        if on == 'ws':
            H['ws'] = t.webseeds
        elif on == 'hs':
            H['hs'] = t.httpseeds
        elif on == 'tr':
            H['tr'], H['tiers'] = t.trackers, {}
        elif on == 'tier':
            if H['tr'] is None:
                H['tr'], H['tiers'] = t.trackers, {}
            H['tiers'].pop(op['k'], None)
            H['tiers'][op['k']] = H['tr'][op['ti']]
        else:
            raise RuntimeError(f'harness: unknown target {on}')
    elif on in ('ws', 'hs'):
        attr = 'webseeds' if on == 'ws' else 'httpseeds'
        if n == 'set':
            if op.get('self'):
                setattr(t, attr, H[on] if H[on] is not None else getattr(t, attr))
            else:
                setattr(t, attr, _pyval(op['v']))
            H[on] = None                       # assignment succeeded: a held object is stale now
        elif H[on] is not None:
            h = H[on]
            if n == 'iadd':
                h += _val(op['us'])
            else:
                _apply_u(h, op)
        elif n == 'iadd':
            if on == 'ws':
                t.webseeds += _val(op['us'])
            else:
                t.httpseeds += _val(op['us'])
        else:
            _apply_u(getattr(t, attr), op)
    elif on == 'tier':
        if 'k' in op:
            tier = H['tiers'][op['k']]
            if n == 'iadd':
                tier += _val(op['us'])
            else:
                _apply_u(tier, op)
        else:
            tr = H['tr'] if H['tr'] is not None else t.trackers
            if n == 'iadd':
                tr[op['ti']] += _val(op['us'])
            else:
                _apply_u(tr[op['ti']], op)
    elif on == 'tr':
        if n == 'set':
            if op.get('self'):
                t.trackers = H['tr'] if H['tr'] is not None else t.trackers
            else:
                t.trackers = _pyval(op['v'])
            H['tr'], H['tiers'] = None, {}
        elif H['tr'] is not None:
            h = H['tr']
            if n == 'iadd':
                h += _val(op['vs'])
            else:
                _apply_t(h, op)
        elif n == 'iadd':
            t.trackers += _val(op['vs'])
        else:
            _apply_t(t.trackers, op)
    else:
        raise RuntimeError(f'harness: unknown target {on}')


def observe_held(H):
    """content of the held list objects (None entries = no object held for that list)"""
    out = {}
    for on in ('ws', 'hs'):
        if H[on] is not None:
            out[on] = [_cs(u) for u in H[on]]
    if H['tr'] is not None:
        out['tr'] = [[_cs(u) for u in tier] for tier in H['tr']]
    return out


def _cs(x):
    return str(x) if isinstance(x, str) else f'<py:{type(x).__name__}>'


def _clist(x):
    if x is None:
        return None
    if isinstance(x, (list, tuple)):
        return [_cs(u) for u in x]
    return [f'<py:{type(x).__name__}:not-a-list>']


def observe(t):
    md = t.metainfo
    al = md.get('announce-list')
    if al is not None:
        al = [_clist(tier) for tier in al] if isinstance(al, (list, tuple)) else [[f'<py:{type(al).__name__}>']]
    ann = md.get('announce')
    mi = {'announce': None if ann is None else _cs(ann), 'announce-list': al,
          'url-list': _clist(md.get('url-list')), 'httpseeds': _clist(md.get('httpseeds'))}
    try:
        rb = {'tr': [[_cs(u) for u in tier] for tier in t.trackers],
              'ws': [_cs(u) for u in t.webseeds], 'hs': [_cs(u) for u in t.httpseeds]}
        exc = None
    except Exception as e:  # noqa
        rb, exc = None, type(e).__name__
    return mi, rb, exc


def strings_of(case):
    out = set(IS_URL_EXPECTED)
    def walk(x):
        if isinstance(x, str):
            out.add(x)
        elif isinstance(x, (list, tuple)):
            for y in x:
                walk(y)
        elif isinstance(x, dict):
            for k, y in x.items():
                if k not in ('on', 'op', '$', 'keep'):
                    walk(y)
    walk(case.get('init'))
    walk(case['ops'])
    for s in list(out):
        out.add(s.replace(' ', '+'))
    return sorted(out)


def run_history(torf, case):
    """Drive the real code; returns per step {'mi','rb','out','rbexc'} and the is_url table."""
    from torf import _utils
    t = torf.Torrent()
    init = case.get('init')
    if init:
        for k in FIELDS:
            if init.get(k) is not None:
                t.metainfo[k] = json.loads(json.dumps(init[k]))
    steps = []
    H = new_held()
    for op in case['ops']:
        pyop, rop = op, op
        if op.get('self'):
            rop = resolve_self(t, H, op)
        elif urlvalues.has_spec(op):
            # typed values: the real code gets the Python objects, the model their structure
            pyop, rop = urlvalues.resolve_op(torf, t, H, op)
        via, mop = plan_op(H, rop)
        try:
            if via != 'skip':
                apply_op(t, pyop, H)
            out = 'skip' if via == 'skip' else 'ok'
        except torf.URLError:
            out = 'url'
        except IndexError:
            out = 'index'
        except ValueError:
            out = 'value'
        except RuntimeError:
            raise
        except Exception as e:  # noqa
            out = f'internal:{type(e).__name__}'
        mi, rb, exc = observe(t)
        try:
            held = observe_held(H)
        except Exception as e:  # noqa  (a held object that cannot even be iterated)
            held = {'error': type(e).__name__}
        steps.append({'mi': mi, 'rb': rb, 'out': out, 'rbexc': exc, 'held': held, 'via': via, 'mop': mop})
    strs = set(strings_of(case))
    for st in steps:                     # strings that only appear in resolved values (chars of a str that was iterated)
        if st['mop'] is not None:
            strs.update(strings_of({'ops': [st['mop']]}))
    table = [[s, bool(_utils.is_url(s))] for s in sorted(strs)]
    return steps, table


def _run_chunk(cases):
    torf = common.import_torf()
    out = []
    for c in cases:
        try:
            steps, table = run_history(torf, c)
            out.append((steps, table, None))
        except Exception as e:  # noqa  (harness-level problem)
            out.append(([], [], f'{type(e).__name__}: {e}'))
    return out


# ----------------------------------------------------------------------------------------------
# independent statement of the property (Python)
# ----------------------------------------------------------------------------------------------

def py_holds(mi, rb, is_url):
    """List of reasons why (metainfo, read-back) violates C16; [] = holds."""
    if rb is None:
        return ['readback-failed']
    why = []
    tiers, ws, hs = rb['tr'], rb['ws'], rb['hs']
    flat = [u for tier in tiers for u in tier]
    first = tiers[0][0] if tiers and tiers[0] else None
    if mi['announce'] != first:
        why.append('tr:announce-is-not-first-url')
    if mi['announce-list'] != (tiers if len(flat) > 1 else None):
        why.append('tr:announce-list-is-not-tiers')
    if mi['url-list'] != (ws or None):
        why.append('ws:url-list-is-not-webseeds')
    if mi['httpseeds'] != (hs or None):
        why.append('hs:httpseeds-field-is-not-httpseeds')
    if len(set(flat)) != len(flat):
        why.append('tr:duplicate')
    if len(set(ws)) != len(ws):
        why.append('ws:duplicate')
    if len(set(hs)) != len(hs):
        why.append('hs:duplicate')
    if any(len(tier) == 0 for tier in tiers):
        why.append('tr:empty-tier')
    if not all(is_url.get(u, False) for u in flat):
        why.append('tr:invalid-url-stored')
    if not all(is_url.get(u, False) for u in ws):
        why.append('ws:invalid-url-stored')
    if not all(is_url.get(u, False) for u in hs):
        why.append('hs:invalid-url-stored')
    return why


def held_reasons(mi, rb, held):
    """The same sentence for list objects that the caller still holds: the metainfo fields mirror
    the CONTENT OF THE HELD OBJECT, and reading the list back from the torrent gives that content.
    All reasons start with 'held:<list>:'."""
    why = []
    if 'error' in held:
        return ['held:?:held-object-cannot-be-read-' + str(held['error'])]
    for on, fld in (('ws', 'url-list'), ('hs', 'httpseeds')):
        if on in held:
            h = held[on]
            if mi[fld] != (h or None):
                why.append(f'held:{on}:field-does-not-mirror-held-object')
            if rb is not None and rb[on] != h:
                why.append(f'held:{on}:readback-differs-from-held-object')
    if 'tr' in held:
        tiers = held['tr']
        flat = [u for tier in tiers for u in tier]
        first = tiers[0][0] if tiers and tiers[0] else None
        if mi['announce'] != first:
            why.append('held:tr:announce-is-not-first-url-of-held-object')
        if mi['announce-list'] != (tiers if len(flat) > 1 else None):
            why.append('held:tr:announce-list-is-not-tiers-of-held-object')
        if any(len(tier) == 0 for tier in tiers):
            why.append('held:tr:empty-tier-in-held-object')
        if rb is not None and rb['tr'] != tiers:
            why.append('held:tr:readback-differs-from-held-object')
    return why


def value_items(op):
    """Independent Python statement of what an operation tries to store, for values of any structure
    (str = one string, list = anything that is iterated; counterpart of Torf.Lists.lowerOp):
    (list of URL strings it tries to store, error kind that is due BEFORE anything is stored or None,
    prefix flag: the strings are stored one by one, so those before a bad item stay).
    Where ONE URL is expected (append / insert / lst[i] = … / the items of extend, +=, replace, slice
    assignment on a URL list) nothing is flattened: a non-string there is the URL error.  Where a TIER
    or a whole seed list is built (URLs.__init__) a string is one URL (a blank string given as a TIER
    is the empty tier) and everything else is flattened to any depth.  A str given where several
    values are expected is iterated character by character; `replace(<str>)` is the ValueError."""
    n, on = op['op'], op['on']
    if n in ('delete', 'delslice', 'clear', 'remove', 'pop', 'reverse', 'get'):
        return [], None
    flat = urlvalues.flat
    def it(x):
        return list(x) if isinstance(x, str) else x
    if on in ('ws', 'hs', 'tier'):
        if n == 'set':
            v = op['v']
            return ([v] if isinstance(v, str) else flat(v) if isinstance(v, list) else []), None
        if 'u' in op:
            return ([op['u']], None) if isinstance(op['u'], str) else ([], 'url')
        us = op['us']
        if n == 'replace' and isinstance(us, str):
            return [], 'value'
        out = []
        for x in it(us):
            if not isinstance(x, str):
                return out, 'url'
            out.append(x)
        return out, None
    def tier_urls(v, as_tier=True):
        if isinstance(v, str):
            return [] if (as_tier and not v.strip()) else [v]
        return flat(v)
    if n == 'set':
        v = op['v']
        if isinstance(v, str):
            return [v], None
        return ([u for x in v for u in tier_urls(x)] if isinstance(v, list) else []), None
    if n == 'setslice':
        return tier_urls(op['vs'], as_tier=False), None
    if 'v' in op:
        return tier_urls(op['v']), None
    if n == 'replace' and isinstance(op['vs'], str):
        return [], 'value'
    return [u for x in it(op['vs']) for u in tier_urls(x)], None


def stored_urls(op):
    """URLs the operation tries to store (a blank string given as a TIER is the empty tier)."""
    return value_items(op)[0]


def acceptable(u, is_url):
    """what URL() may store: the string is a URL as given AND after the coercion (the stored string
    is `u.replace(' ', '+')`; "every stored URL is well-formed" leaves no other choice)"""
    return bool(is_url.get(u, False)) and bool(is_url.get(u.replace(' ', '+'), False))


def reject_expected(op, before_rb, is_url):
    """The error kind the property demands for this operation, or None: 'url' if it tries to store a
    URL that is invalid as given or as it would be stored, or something that is not a string where one
    URL is expected; 'value' for replace(<str>) — and, for an operation on a tier, that tier exists."""
    urls, err = value_items(op)
    want = 'url' if not all(acceptable(u, is_url) for u in urls) else err
    if want is None:
        return None
    if op['on'] == 'tier':
        if before_rb is None:
            return None
        n = len(before_rb['tr'])
        if not (-n <= op['ti'] < n):
            return None
    return want


def not_stored(mop, rb, is_url):
    """An edit is a list edit: after an operation that RETURNED NORMALLY every acceptable URL it was
    given is in the list it was given to (as its coerced string; for the trackers: in some tier — the
    de-duplication may keep it where it already was).  Returns the URLs that are missing.  (Values that
    silently vanish — e.g. a one-shot iterator that was consumed by a validation pass before it was
    used — keep everything in sync, so only this rule gives a failing input for them.)"""
    if rb is None or _affected(mop) or (mop['on'] == 'tr' and mop['op'] == 'setitem'):
        # (`tr[i] = v` is exempt: the new tier is de-duplicated against ALL current URLs, those of the
        #  tier it replaces included, so `tr = [[c]]; tr[0] = [a, c]` leaves [[a]] — documented behaviour
        #  of Trackers.__setitem__, C16_tiers_setitem_stored_noop, notes/C16.md)
        return []
    urls, err = value_items(mop)
    if err:
        return []
    g = _group(mop)
    have = {u for tier in rb['tr'] for u in tier} if g == 'tr' else set(rb[g])
    return [u for u in urls if acceptable(u, is_url) and u.replace(' ', '+') not in have]


def reverse_expected(mop, before_rb):
    """What `reverse()` must do (counterpart of C16_reverse / C16_reverse_tier / C16_tiers_reverse;
    list.reverse() has no documented error): (allowed outcomes, expected read-back of the edited list
    or None = not judged).  On a URL list (webseeds, httpseeds, a tier) the list read back afterwards
    is exactly the reversed list; on the tiers container (/repo f86a28a) the tiers read back are
    exactly the old tiers in reversed order (each tier unchanged)."""
    if before_rb is None:
        return ('ok', 'url'), None                 # the getter itself fails (state broken before)
    on = mop['on']
    if on in ('ws', 'hs'):
        return ('ok',), {on: list(reversed(before_rb[on]))}
    if on == 'tier':
        tiers, n = before_rb['tr'], len(before_rb['tr'])
        if not (-n <= mop['ti'] < n):
            return ('index',), {'tr': tiers}
        k = mop['ti'] % n
        return ('ok',), {'tr': tiers[:k] + [list(reversed(tiers[k]))] + tiers[k + 1:]}
    return ('ok',), {'tr': list(reversed(before_rb['tr']))}


# ----------------------------------------------------------------------------------------------
# known findings
# ----------------------------------------------------------------------------------------------

def _group(op):
    return 'tr' if op['on'] in ('tr', 'tier') else op['on']


def _own_reasons(observed, group):
    """reasons without those about the held object of the same list (they accompany a deviation of
    that list; a held-object reason about ANOTHER list is kept and makes the matcher fail)"""
    return [r for r in observed.get('reasons', []) if not r.startswith(f'held:{group}:')]


def _reasons_in_group(observed, group):
    rs = _own_reasons(observed, group)
    return bool(rs) and all(r == 'readback-failed' or r.startswith(group + ':') for r in rs)


def match_d16b(case, observed, finding):
    """first deviation AT a slice assignment on the tiers container"""
    k = observed.get('step')
    if k is None or observed.get('kind') != 'state':
        return False
    op = case['ops'][k]
    return op['on'] == 'tr' and op['op'] == 'setslice' and _reasons_in_group(observed, 'tr')


# D16a (index / slice assignment on a URL list, repaired in /repo e62ce6d) and D16d (Trackers.replace()
# not atomic on a held object, repaired in /repo 41bec34) have no matcher any more: their operations
# are judged like every other one; the witnesses are regression cases in corpus/C16/.
MATCHERS = {'c16_slice_assignment_on_tiers': match_d16b}


# ----------------------------------------------------------------------------------------------
# generators
# ----------------------------------------------------------------------------------------------

def _u(on, name, **kw):
    return dict(on=on, op=name, **kw)


def single_ops_full():
    ops = []
    for on in ('ws',):
        ops += [_u(on, 'append', u=u) for u in (A, B, SP, PL, BAD, BAD3, LEAD)]
        ops += [_u(on, 'insert', i=0, u=u) for u in (A, B, BAD)] + [_u(on, 'insert', i=-1, u=SP)]
        ops += [_u(on, 'set', v=v) for v in (None, A, [A, B], [SP, PL], [A, BAD], [], {'other': 1}, '')]
        ops += [_u(on, 'extend', us=us) for us in ([A, B], [A, BAD, B], [PL, SP], [])]
        ops += [_u(on, 'iadd', us=[B, A]), _u(on, 'iadd', us=[B, BAD])]
        ops += [_u(on, 'delete', i=i) for i in (0, -1, 1)]
        ops += [_u(on, 'delslice', a=0, b=1), _u(on, 'delslice', a=1, b=None), _u(on, 'clear')]
        ops += [_u(on, 'remove', u=A), _u(on, 'remove', u=PL), _u(on, 'pop', i=None), _u(on, 'pop', i=0)]
        ops += [_u(on, 'replace', us=[B, A]), _u(on, 'replace', us=[A, BAD]), _u(on, 'replace', us=[B, LEAD]),
                _u(on, 'replace', self=True)]
        ops += [_u(on, 'setitem', i=0, u=A), _u(on, 'setitem', i=0, u=B), _u(on, 'setitem', i=-1, u=SP),
                _u(on, 'setitem', i=0, u=BAD), _u(on, 'setitem', i=1, u=A), _u(on, 'setitem', i=5, u=C),
                _u(on, 'setitem', i=5, u=BAD), _u(on, 'setitem', i=-3, u=C)]
        ops += [_u(on, 'setslice', a=0, b=1, us=[A, A]), _u(on, 'setslice', a=0, b=0, us=[B]),
                _u(on, 'setslice', a=None, b=None, us=[A, B]),
                _u(on, 'setslice', a=None, b=None, self=True),                 # lst[:] = lst
                _u(on, 'setslice', a=1, b=None, us=[C, BAD, B]),               # invalid URL in the middle
                _u(on, 'setslice', a=None, b=None, st=2, us=[C]),              # extended slices: size right / wrong
                _u(on, 'setslice', a=None, b=None, st=-1, us=[B, A]),          #   depending on the length
                _u(on, 'setslice', a=None, b=None, st=0, us=[A]),
                _u(on, 'setslice', a=0, b=1, us=[]),
                _u(on, 'set', self=True),                                      # t.webseeds = t.webseeds
                _u(on, 'reverse')]
    ops += [_u('hs', 'append', u=A), _u('hs', 'append', u=BAD), _u('hs', 'set', v=[A, B]),
            _u('hs', 'clear'), _u('hs', 'setitem', i=0, u=A), _u('hs', 'setslice', a=None, b=None, self=True),
            _u('hs', 'reverse')]
    ops += [_u('tr', 'set', v=v) for v in (None, A, [A, B], [[A, B], [SP]], [[A], [BAD]], BAD, [],
                                           [[A], [A, B]], {'other': 1}, '', [''])]
    ops += [_u('tr', 'append', v=v) for v in (A, [A, B], [B, PL], [BAD], '', [C, BAD], BAD3, [C, LEAD])]
    ops += [_u('tr', 'insert', i=0, v=[B]), _u('tr', 'insert', i=0, v=SP), _u('tr', 'insert', i=-1, v=[C])]
    ops += [_u('tr', 'extend', vs=[[A], [B]]), _u('tr', 'extend', vs=[[C], [BAD], [B]]), _u('tr', 'extend', vs=[])]
    ops += [_u('tr', 'iadd', vs=[[B, A]]), _u('tr', 'iadd', vs=[])]
    ops += [_u('tr', 'delete', i=0), _u('tr', 'delete', i=-1), _u('tr', 'delslice', a=0, b=1), _u('tr', 'clear')]
    ops += [_u('tr', 'remove', us=[A]), _u('tr', 'remove', us=[A, B]), _u('tr', 'pop', i=None)]
    ops += [_u('tr', 'replace', vs=[[B], [A]]), _u('tr', 'replace', vs=[[B], [BAD]]), _u('tr', 'replace', self=True)]
    ops += [_u('tr', 'setitem', i=0, v=[B]), _u('tr', 'setitem', i=0, v=[A]), _u('tr', 'setitem', i=1, v=PL),
            _u('tr', 'setitem', i=5, v=[BAD]), _u('tr', 'setitem', i=5, v=[C])]
    ops += [_u('tr', 'setslice', a=0, b=1, vs=[[A]]), _u('tr', 'setslice', a=0, b=0, vs=[[A, B]])]
    ops += [_u('tr', 'set', self=True)]                                        # t.trackers = t.trackers
    ops += [_u('tr', 'reverse')]
    for ti, names in ((0, None), (1, ('append-b', 'delete', 'clear', 'setitem-a', 'extend', 'setitem-b', 'setslice-empty', 'reverse')),
                      (-1, ('append-a', 'pop', 'append-bad', 'setslice-self'))):
        cand = {
            'append-a': _u('tier', 'append', ti=ti, u=A), 'append-b': _u('tier', 'append', ti=ti, u=B),
            'append-sp': _u('tier', 'append', ti=ti, u=SP), 'append-bad': _u('tier', 'append', ti=ti, u=BAD),
            'append-lead': _u('tier', 'append', ti=ti, u=LEAD),
            'insert': _u('tier', 'insert', ti=ti, i=0, u=PL), 'delete': _u('tier', 'delete', ti=ti, i=0),
            'clear': _u('tier', 'clear', ti=ti), 'extend': _u('tier', 'extend', ti=ti, us=[A, B]),
            'extend-bad': _u('tier', 'extend', ti=ti, us=[C, BAD]),
            'iadd': _u('tier', 'iadd', ti=ti, us=[B]), 'remove': _u('tier', 'remove', ti=ti, u=A),
            'pop': _u('tier', 'pop', ti=ti, i=None), 'replace': _u('tier', 'replace', ti=ti, us=[B]),
            'replace-self': _u('tier', 'replace', ti=ti, us=[A, C]),
            'delslice': _u('tier', 'delslice', ti=ti, a=0, b=None),
            'setitem-a': _u('tier', 'setitem', ti=ti, i=0, u=A), 'setitem-b': _u('tier', 'setitem', ti=ti, i=0, u=B),
            'setslice': _u('tier', 'setslice', ti=ti, a=0, b=1, us=[A, A]),
            'setitem-c': _u('tier', 'setitem', ti=ti, i=0, u=C),               # a URL that may live in another tier
            'setitem-range': _u('tier', 'setitem', ti=ti, i=4, u=C),
            'setslice-empty': _u('tier', 'setslice', ti=ti, a=None, b=None, us=[]),       # the tier is emptied
            'setslice-self': _u('tier', 'setslice', ti=ti, a=None, b=None, self=True),
            'setslice-other': _u('tier', 'setslice', ti=ti, a=None, b=None, us=[C, B]),   # only URLs of other tiers?
            'setslice-ext': _u('tier', 'setslice', ti=ti, a=None, b=None, st=-1, us=[C, A]),
            'setslice-bad': _u('tier', 'setslice', ti=ti, a=0, b=0, us=[C, BAD]),
            'reverse': _u('tier', 'reverse', ti=ti),
        }
        ops += [v for k, v in cand.items() if names is None or k in names]
    return ops


def single_ops_small():
    """state-building operations for the first positions of the depth-3 enumeration"""
    return [
        _u('ws', 'append', u=A), _u('ws', 'append', u=SP), _u('ws', 'set', v=[A, B]), _u('ws', 'set', v=[PL]),
        _u('ws', 'insert', i=0, u=B), _u('ws', 'delete', i=0), _u('ws', 'extend', us=[A, BAD, B]),
        _u('ws', 'setitem', i=0, u=A), _u('ws', 'setslice', a=0, b=0, us=[B, B]), _u('ws', 'setslice', a=None, b=None, st=-1, us=[B, A]),
        _u('tr', 'set', v=A), _u('tr', 'set', v=[A, B]), _u('tr', 'set', v=[[A, B], [SP]]), _u('tr', 'set', v=None),
        _u('tr', 'append', v=[B, PL]), _u('tr', 'append', v=A), _u('tr', 'insert', i=0, v=[C]),
        _u('tr', 'delete', i=0), _u('tr', 'setitem', i=0, v=[B]), _u('tr', 'setslice', a=0, b=1, vs=[[A]]),
        _u('tier', 'append', ti=0, u=B), _u('tier', 'append', ti=-1, u=PL), _u('tier', 'delete', ti=0, i=0),
        _u('tier', 'clear', ti=0), _u('tier', 'setitem', ti=0, i=0, u=A), _u('tier', 'insert', ti=0, i=0, u=C),
        _u('tier', 'reverse', ti=0), _u('ws', 'reverse'),
    ]


def rnd_url(rng, lead_ok=True):
    r = rng.random()
    if r < 0.78:
        return rng.choice([A, B, C, SP, PL, A, B, C, SP, PL, D])
    if r < 0.93:
        return rng.choice([BAD, BAD2, BAD3, ''])
    if lead_ok and r < 0.96:
        return LEAD
    return rng.choice(['http://d/ 4', 'http://d/+4'])


def rnd_idx(rng, n=3):
    return rng.choice([0, 0, 1, -1, 2, -2, n, -n - 1, 5])


def rnd_bound(rng):
    return rng.choice([None, None, 0, 1, 2, -1, 3])


def rnd_urls(rng, lo=0, hi=3):
    return [rnd_url(rng) for _ in range(rng.randint(lo, hi))]


def rnd_tierval(rng):
    r = rng.random()
    if r < 0.25:
        return rnd_url(rng)
    return rnd_urls(rng, 0, 3)


def rnd_step(rng):
    return rng.choice([None, None, None, None, 1, 2, 2, -1, -1, -2, 3, 0])


def rnd_uop(rng, on, allow_set=True, **kw):
    # (index and slice assignment on a URL list are ordinary operations since /repo e62ce6d;
    #  `allow_set` only governs slice assignment on the tiers container, see rnd_op)
    names = ['insert', 'append', 'append', 'extend', 'iadd', 'delete', 'delslice', 'clear', 'remove',
             'pop', 'replace', 'setitem', 'setslice', 'setslice', 'reverse']
    n = rng.choice(names)
    if n in ('insert', 'setitem'):
        return _u(on, n, i=rnd_idx(rng), u=rnd_url(rng), **kw)
    if n in ('append', 'remove'):
        return _u(on, n, u=rnd_url(rng), **kw)
    if n == 'replace' and rng.random() < 0.1:
        return _u(on, n, self=True, **kw)
    if n in ('extend', 'iadd', 'replace'):
        return _u(on, n, us=rnd_urls(rng), **kw)
    if n == 'delete':
        return _u(on, n, i=rnd_idx(rng), **kw)
    if n == 'delslice':
        return _u(on, n, a=rnd_bound(rng), b=rnd_bound(rng), **kw)
    if n == 'pop':
        return _u(on, n, i=rng.choice([None, None, 0, 1, -1, 4]), **kw)
    if n == 'setslice':
        r = rng.random()
        if r < 0.12:
            return _u(on, n, a=rnd_bound(rng), b=rnd_bound(rng), st=rnd_step(rng), self=True, **kw)
        return _u(on, n, a=rnd_bound(rng), b=rnd_bound(rng), st=rnd_step(rng), us=rnd_urls(rng, 0, 4 if r < 0.5 else 3), **kw)
    return _u(on, n, **kw)


def rnd_op(rng, allow_set=True):
    op = _rnd_op(rng, allow_set)
    if rng.random() < 0.25 and not op.get('self'):
        op = rnd_wrap(rng, op)                # the value gets a random type / origin
    return op


def _rnd_op(rng, allow_set=True):
    on = rng.choice(['tr', 'tr', 'tr', 'tier', 'tier', 'ws', 'ws', 'hs'])
    if on in ('ws', 'hs'):
        if rng.random() < 0.2:
            if rng.random() < 0.1:
                return _u(on, 'set', self=True)
            v = rng.choice([None, rnd_url(rng), rnd_urls(rng), rnd_urls(rng), {'other': 1}])
            return _u(on, 'set', v=v)
        return rnd_uop(rng, on, allow_set)
    if on == 'tier':
        return rnd_uop(rng, 'tier', allow_set, ti=rng.choice([0, 0, 0, 1, 1, -1, 2, -3]))
    names = ['set', 'set', 'insert', 'append', 'append', 'extend', 'iadd', 'delete', 'delslice', 'clear',
             'remove', 'pop', 'replace', 'setitem', 'reverse']
    if allow_set:
        names += ['setslice']
    n = rng.choice(names)
    if n == 'set':
        r = rng.random()
        if r < 0.04:
            return _u('tr', n, self=True)
        if r < 0.1:
            v = None
        elif r < 0.25:
            v = rnd_url(rng)
        elif r < 0.3:
            v = {'other': 1}
        else:
            v = [rnd_tierval(rng) for _ in range(rng.randint(0, 3))]
        return _u('tr', n, v=v)
    if n in ('insert', 'setitem'):
        return _u('tr', n, i=rnd_idx(rng), v=rnd_tierval(rng))
    if n == 'append':
        return _u('tr', n, v=rnd_tierval(rng))
    if n == 'replace' and rng.random() < 0.1:
        return _u('tr', n, self=True)
    if n in ('extend', 'iadd', 'replace'):
        return _u('tr', n, vs=[rnd_tierval(rng) for _ in range(rng.randint(0, 3))])
    if n == 'delete':
        return _u('tr', n, i=rnd_idx(rng))
    if n == 'delslice':
        return _u('tr', n, a=rnd_bound(rng), b=rnd_bound(rng))
    if n == 'remove':
        return _u('tr', n, us=rnd_urls(rng, 1, 2))
    if n == 'pop':
        return _u('tr', n, i=rng.choice([None, None, 0, 1, -1, 4]))
    if n == 'setslice':
        return _u('tr', n, a=rnd_bound(rng), b=rnd_bound(rng), vs=[rnd_tierval(rng) for _ in range(rng.randint(0, 3))])
    return _u('tr', n)


# ---- held-object histories: a list object is obtained once and edited several times ----------

def _get(on, **kw):
    return dict(on=on, op='get', **kw)


def held_ops_urls(on, **kw):
    """operations applied to ONE held URL list (webseeds / httpseeds / a held tier): successful ones,
    ones that raise URLError (at the start, in the middle and at the end of a batch), ValueError,
    IndexError"""
    o = lambda n, **a: _u(on, n, **kw, **a)   # noqa
    return [o('append', u=A), o('append', u=B), o('append', u=C), o('append', u=BAD), o('append', u=SP), o('append', u=LEAD),
            o('insert', i=0, u=C), o('insert', i=0, u=BAD2),
            o('extend', us=[B, C]), o('extend', us=[C, BAD]), o('extend', us=[BAD, C]), o('extend', us=[B, BAD, C]),
            o('iadd', us=[C]), o('iadd', us=[C, BAD]), o('iadd', us=[BAD]),
            o('replace', us=[B, C]), o('replace', us=[C, BAD]), o('replace', us=[]), o('replace', us=[C, LEAD]),
            o('replace', self=True),
            o('remove', u=A), o('remove', u=C), o('pop', i=None), o('pop', i=7), o('delete', i=0), o('delete', i=5),
            o('delslice', a=0, b=1), o('clear'),
            o('setitem', i=0, u=C), o('setitem', i=0, u=BAD), o('setslice', a=0, b=0, us=[C, BAD]),
            o('setitem', i=-1, u=A), o('setitem', i=1, u=B), o('setitem', i=5, u=C),
            o('setslice', a=None, b=None, self=True), o('setslice', a=None, b=None, us=[]),
            o('setslice', a=0, b=1, us=[B, B, A]), o('setslice', a=1, b=None, us=[C, B]),
            o('setslice', a=None, b=None, st=-1, us=[B, A]), o('setslice', a=None, b=None, st=2, us=[C, C]),
            o('reverse')]


def held_ops_tiers():
    """operations applied to ONE held Trackers object, and to its tiers through it"""
    o = lambda n, **a: _u('tr', n, **a)   # noqa
    ops = [o('append', v=C), o('append', v=[B, C]), o('append', v=[BAD]), o('append', v=[C, BAD]), o('append', v=''),
           o('insert', i=0, v=[C]), o('insert', i=0, v=BAD),
           o('extend', vs=[[C], [SP]]), o('extend', vs=[[C], [BAD]]), o('extend', vs=[[BAD], [C]]),
           o('iadd', vs=[[C]]), o('iadd', vs=[[C], [BAD], [B]]),
           o('replace', vs=[[B], [C]]), o('replace', vs=[]), o('replace', vs=[[C], [BAD]]), o('replace', vs=[[BAD], [C]]),
           o('replace', vs=[[C, LEAD]]),
           o('remove', us=[A]), o('remove', us=[C]), o('pop', i=None), o('pop', i=7), o('delete', i=0), o('delete', i=5),
           o('delslice', a=0, b=1), o('clear'), o('setitem', i=0, v=[C]), o('setitem', i=0, v=[BAD]),
           o('replace', vs=[[A, B], [BAD2]]), o('replace', self=True), o('setitem', i=-1, v=[A, C]), o('setitem', i=5, v=[C]),
           o('reverse')]
    for ti in (0, 1):
        ops += [_u('tier', 'append', ti=ti, u=C), _u('tier', 'extend', ti=ti, us=[C, BAD]),
                _u('tier', 'iadd', ti=ti, us=[C, BAD]), _u('tier', 'iadd', ti=ti, us=[C]),
                _u('tier', 'clear', ti=ti), _u('tier', 'pop', ti=ti, i=None), _u('tier', 'remove', ti=ti, u=B),
                _u('tier', 'setitem', ti=ti, i=0, u=C), _u('tier', 'setitem', ti=ti, i=0, u=B),
                _u('tier', 'setslice', ti=ti, a=None, b=None, us=[]),
                _u('tier', 'setslice', ti=ti, a=0, b=1, us=[C, C, SP]),
                _u('tier', 'setslice', ti=ti, a=0, b=None, us=[A, BAD]), _u('tier', 'reverse', ti=ti)]
    return ops


def gen_held_exhaustive(ctx):
    cases = []
    def add(start, ops):
        cases.append({'start': start, 'ops': ops, 'kind': 'held-exh'})
    # one held URL list, two operations (the second one sees whatever the first left behind)
    for on in ('ws', 'hs'):
        alpha = held_ops_urls(on)
        for start, pre in (('empty', []), ('empty', [_u(on, 'set', v=[A])]), ('full', [])):
            if on == 'hs' and start == 'full' and not ctx.thorough:
                continue
            for a, b in itertools.product(alpha, repeat=2):
                add(start, pre + [_get(on)] + [a, b])
    # one held Trackers object
    alpha = held_ops_tiers()
    for start in ('empty', 'full'):
        for a, b in itertools.product(alpha, repeat=2):
            add(start, [_get('tr')] + [a, b])
    # one held tier (its Trackers object stays alive behind it), then the tier through the handle
    alpha = held_ops_urls('tier', k=0)
    tr_side = [_u('tr', 'append', v=[C]), _u('tr', 'delete', i=0), _u('tr', 'clear'), _u('tier', 'append', ti=0, u=C),
               _u('tr', 'setitem', i=0, v=[C])]
    for start, ti in (('full', 0), ('full', 1), ('single', 0)):
        for a, b in itertools.product(alpha, repeat=2):
            add(start, [_get('tier', ti=ti, k=0), a, b])
        for a, x, b in itertools.product(alpha[::3], tr_side, alpha[::2]):
            add(start, [_get('tier', ti=ti, k=0), a, x, b])
    # a failed batch operation, then three more operations on the same object (thorough: longer tails)
    fails = {'ws': [_u('ws', 'extend', us=[B, BAD, C]), _u('ws', 'iadd', us=[BAD]), _u('ws', 'replace', us=[C, BAD]),
                    _u('ws', 'setslice', a=0, b=0, us=[C, BAD]), _u('ws', 'remove', u=C), _u('ws', 'pop', i=7),
                    _u('ws', 'setitem', i=7, u=C), _u('ws', 'setslice', a=None, b=None, st=2, us=[C, B, A])],
             'tr': [_u('tr', 'extend', vs=[[C], [BAD]]), _u('tr', 'iadd', vs=[[BAD]]), _u('tr', 'append', v=[C, BAD]),
                    _u('tier', 'extend', ti=0, us=[C, BAD]), _u('tier', 'iadd', ti=-1, us=[BAD]), _u('tr', 'pop', i=7),
                    _u('tr', 'replace', vs=[[C], [BAD]]), _u('tr', 'replace', vs=[[B, SP], [C], BAD2]),
                    _u('tr', 'replace', vs=[[BAD]]), _u('tier', 'setslice', ti=0, a=0, b=1, us=[C, BAD]),
                    _u('tier', 'setitem', ti=0, i=9, u=SP)]}
    tails = {'ws': [_u('ws', 'append', u=C), _u('ws', 'insert', i=0, u=SP), _u('ws', 'remove', u=A), _u('ws', 'clear'),
                    _u('ws', 'extend', us=[B, C]), _u('ws', 'delete', i=0), _u('ws', 'reverse')],
             'tr': [_u('tr', 'append', v=[C]), _u('tier', 'append', ti=0, u=SP), _u('tier', 'clear', ti=0), _u('tr', 'clear'),
                    _u('tr', 'delete', i=-1), _u('tier', 'remove', ti=0, u=A), _u('tier', 'setitem', ti=0, i=0, u=C),
                    _u('tier', 'reverse', ti=0), _u('tr', 'reverse')]}
    for g in ('ws', 'tr'):
        for f in fails[g]:
            for tail in itertools.product(tails[g], repeat=3 if ctx.thorough else 2):
                add('full', [_get(g), f] + list(tail))
    return cases


def gen_assign_grid(ctx):
    """index and slice assignment on a URL list (MonitoredList.__setitem__), exhaustively over small
    shapes: lists of 0-3 URLs (webseeds through a fresh getter, a held webseeds object, both tiers of
    [[a, b], [c]] fresh and through a held Trackers object) x every index -4..3 x {a URL inside the
    list, outside it, in another tier, coercion duplicates, invalid} and x a grid of plain and
    extended slices x {nothing, one item inside / outside, duplicates among the new items, an
    invalid URL in the middle, the whole content, the list itself}"""
    cases = []
    setups = [('empty', [_u('ws', 'set', v=L)], 'ws', {}) for L in ([], [A], [A, B], [A, B, C])]
    setups += [('empty', [_u('ws', 'set', v=[A, B, C]), _get('ws')], 'ws', {})]
    setups += [('full', [], 'tier', {'ti': 0}), ('full', [], 'tier', {'ti': 1}),
               ('full', [_get('tr')], 'tier', {'ti': 0}), ('full', [_get('tier', ti=1, k=0)], 'tier', {'k': 0})]
    if ctx.thorough:
        setups += [('empty', [_u('hs', 'set', v=[SP, B]), _get('hs')], 'hs', {}),
                   ('empty', [_u('tr', 'set', v=[[A, B, C], [D]])], 'tier', {'ti': 0}),
                   ('single', [_get('tier', ti=0, k=0)], 'tier', {'k': 0})]
    idx = [-4, -3, -2, -1, 0, 1, 2, 3]
    urls = [A, B, C, D, PL, SP, BAD] + ([LEAD, BAD3] if ctx.thorough else [])
    if ctx.thorough:
        bounds, steps = [None, -5, -3, -2, -1, 0, 1, 2, 3, 5], [None, 1, 2, 3, -1, -2, -3, 0]
    else:
        bounds, steps = [None, -1, 0, 1, 2, 4], [None, 2, -1, -2, 0]
    vals = [dict(us=[]), dict(us=[A]), dict(us=[D]), dict(us=[B, B]), dict(us=[C, A]), dict(us=[D, BAD, A]),
            dict(us=[A, B, C]), dict(self=True)]
    if ctx.thorough:
        vals += [dict(us=[SP, PL]), dict(us=[C, B, A]), dict(us=[D, D, A, A]), dict(us=[B, LEAD])]
    for start, pre, on, kw in setups:
        for i in idx:
            for u in urls:
                cases.append({'start': start, 'ops': pre + [_u(on, 'setitem', i=i, u=u, **kw)], 'kind': 'assign-grid'})
        for a, b, st in itertools.product(bounds, bounds, steps):
            for v in vals:
                cases.append({'start': start, 'ops': pre + [_u(on, 'setslice', a=a, b=b, st=st, **v, **kw)],
                              'kind': 'assign-grid'})
    return cases


def gen_reverse_family(ctx):
    """`reverse()` exhaustively over small shapes: URL lists of 0-5 URLs (webseeds through a fresh getter
    and held, httpseeds held, a tier through a fresh getter / the held Trackers object / a tier handle)
    and tiers containers of 0-4 tiers (fresh and held; every tier index, existing or not), each followed by
    every operation of a small follow-up set (reverse again, an edit that depends on the order)"""
    cases = []
    def add(start, ops):
        cases.append({'start': start, 'ops': ops, 'kind': 'reverse-exh'})
    pool = [A, B, C, D, PL]
    follow_u = lambda on, **kw: [None, _u(on, 'reverse', **kw), _u(on, 'append', u=SP, **kw), _u(on, 'pop', i=None, **kw),   # noqa
                                 _u(on, 'insert', i=0, u=A, **kw), _u(on, 'setitem', i=0, u=D, **kw), _u(on, 'remove', u=A, **kw),
                                 _u(on, 'iadd', us=[SP, A], **kw), _u(on, 'setslice', a=None, b=None, st=-1, self=True, **kw)]
    for n in range(0, 6):
        L = pool[:n]
        for on in ('ws', 'hs'):
            for held in (False, True):
                if on == 'hs' and not (held or ctx.thorough):
                    continue
                pre = [_u(on, 'set', v=L)] + ([_get(on)] if held else [])
                for f in follow_u(on):
                    add('empty', pre + [_u(on, 'reverse')] + ([f] if f else []))
                    if f and f['op'] != 'reverse':
                        add('empty', pre + [f, _u(on, 'reverse')])
    shapes = [[], [[A]], [[A], [B]], [[A, B], [C]], [[A, B, C], [D], [PL]], [[A], [B], [C], [D]], [[A, B, C, D, PL]]]
    follow_t = [None, _u('tr', 'reverse'), _u('tier', 'reverse', ti=0), _u('tier', 'reverse', ti=-1), _u('tr', 'append', v=[SP]),
                _u('tr', 'pop', i=None), _u('tr', 'remove', us=[A]), _u('tr', 'iadd', vs=[[SP], [A]]), _u('tr', 'insert', i=0, v=[SP, A]),
                _u('tr', 'setitem', i=0, v=[SP]), _u('tr', 'delete', i=0)]
    for T in shapes:
        for held in (False, True):
            pre = [_u('tr', 'set', v=T)] + ([_get('tr')] if held else [])
            for f in follow_t:
                add('empty', pre + [_u('tr', 'reverse')] + ([f] if f else []))
                if f and f['op'] != 'reverse':
                    add('empty', pre + [f, _u('tr', 'reverse')])
            for ti in range(-len(T) - 1, len(T) + 1):
                for f in follow_t:
                    add('empty', pre + [_u('tier', 'reverse', ti=ti)] + ([f] if f else []))
        for ti in range(len(T)):                      # through a tier handle
            for f in follow_u('tier', k=0):
                add('empty', [_u('tr', 'set', v=T), _get('tier', ti=ti, k=0), _u('tier', 'reverse', k=0)] + ([f] if f else []))
    return cases


# ---- typed values: the TYPE / ORIGIN of a value as a dimension of every operation (round 3) ------

def K(kind, x=None, **kw):
    """value spec, see harness/impl/urlvalues.py"""
    d = {'$': kind}
    if x is not None:
        d['x'] = x
    d.update(kw)
    return d


def container_kinds(p, thorough=True):
    """the list `p` (of strings, or of tier values) as every kind of iterable"""
    ks = [K('tuple', p), K('gen', p), K('iter', p), K('set', p), K('dict', p), K('dictkeys', p)]
    if thorough:
        ks += [K('frozenset', p), K('dictvalues', p), K('deque', p), K('list', p)]
    return ks


def url_list_values(thorough):
    """values for a slot that takes SEVERAL URLs of one list (extend, +=, replace, slice assignment on a URL
    list; also a seed attribute and ONE TIER of the tiers container): iterables of every type whose
    items are strings / URL objects / str subclasses, list objects of this and of another torrent that
    overlap the stored URLs partly, fully or not at all, derived objects, empty ones"""
    vals = []
    for p in ([D, A], [C, D, D], [SP, PL, D], []):
        vals += container_kinds(p, thorough)
        vals += [K('urls', p), K('other_ws', p, keep='o')]
    vals += [[K('urlobj', D), K('strsub', A), K('urlobj', SP)], K('tuple', [K('strsub', D), K('urlobj', C)]),
             K('ws'), K('hs'), K('tier', ti=0), K('tier', ti=1), K('tierk', k=0),
             K('add', base=K('tier', ti=0), x=[D]), K('add', base=K('ws'), x=[D, A]), K('add', base=K('hs'), x=K('tuple', [E, C])),
             K('add', base=K('tierk', k=0), x=K('tier', ti=1)),
             K('slice', base=K('tier', ti=0)), K('slice', base=K('ws'), a=1), K('copy', base=K('hs')),
             K('other_tier', [[A, D], [E]], ti=0, keep='o'), K('other_tier', [[E], [C, D]], ti=1, keep='o'),
             K('other_hs', [D, E], keep='o')]
    return vals


def nested_values():
    """nested deeper than a list of strings: flattened where a tier / a seed list is built
    (URLs.__init__), the URL error where one URL per item is expected"""
    return [[[D]], [D, [E]], [[A, [D]], [[E]]], K('tuple', [K('gen', [D, A]), K('iter', [E])]), [[]], K('gen', [K('tuple', [])]),
            K('tr'), K('other_tr', [[A, D], [E]], keep='o'), K('trackers', [[D], [E, C]]), [K('ws'), K('tier', ti=1)],
            K('slice', base=K('tr')), K('add', base=K('tr'), x=[[D], [E]])]


def tiers_values(thorough):
    """values for a slot that takes SEVERAL TIERS (tr.extend, tr +=, tr.replace, torrent.trackers = …)"""
    vals = []
    for p in ([[A, D], [E]], [[D], [D, C]], [D, [E, A], ''], []):
        vals += container_kinds(p, thorough)
    vals += [K('gen', [K('gen', [A, D]), K('iter', [E]), K('strsub', C)]),
             [K('ws'), K('add', base=K('tier', ti=0), x=[D])], [K('other_tier', [[A, D]], ti=0, keep='o'), K('hs'), K('urlobj', E)],
             K('tuple', [K('tier', ti=1), K('tier', ti=0), K('tierk', k=0)]),
             K('tr'), K('other_tr', [[A, D], [C, E]], keep='o'), K('other_tr', [[D], [E]], keep='o'), K('trackers', [[D, A], [E]]),
             K('ws'), K('hs'), K('tier', ti=0), K('add', base=K('tr'), x=[[D], [E]]), K('add', base=K('ws'), x=[D]),
             K('slice', base=K('tr')), K('slice', base=K('tr'), a=1), K('copy', base=K('tr')),
             [[[D], [A]], [[[E]]]], K('dict', [K('tuple', [D, A]), E])]
    return vals


def single_url_values():
    """values for a slot that takes ONE URL (append, insert, lst[i] = … on a URL list): str-like objects,
    and things that are not strings (the URL error: nothing is flattened there)"""
    return [K('strsub', D), K('urlobj', D), K('urlobj', SP), K('strsub', BAD), K('strsub', A), K('urlobj', C),
            [D], K('tuple', [D]), K('gen', [D]), K('tier', ti=1), K('ws'), [], K('other_ws', [D], keep='o')]


VALUE_FOLLOW_UPS = [None, _u('ws', 'append', u=E), _u('tier', 'append', k=0, u=E), _u('tier', 'append', ti=-1, u=E),
                    dict(on='ext', k='o', op='append', u=E), dict(on='ext', k='o', op='clear'), _u('hs', 'pop', i=None)]


def _refs(x, out=None):
    """which live objects a value spec refers to"""
    out = set() if out is None else out
    if isinstance(x, list):
        for y in x:
            _refs(y, out)
    elif isinstance(x, dict):
        if x.get('$') in ('ws', 'hs', 'tr', 'tier', 'tierk'):
            out.add(x['$'])
        if 'keep' in x:
            out.add('ext:' + x['$'])
        for k in ('x', 'base'):
            if k in x:
                _refs(x[k], out)
    return out


def value_follow_ups(op):
    """edits that matter after an operation with a typed value: through every OTHER handle of an object
    the value was (or was derived from) — aliasing —, and, after an operation on the tiers container,
    through the tiers it now has (do they carry this container's hooks?)"""
    refs = set()
    for sl in urlvalues.SLOTS:
        if sl in op:
            _refs(op[sl], refs)
    fus = [None]
    if op['on'] == 'tr':
        fus += [_u('tier', 'append', ti=-1, u=E), _u('tier', 'clear', ti=0)]
    elif op['on'] == 'tier':
        fus += [_u('tier', 'append', u=E, **({'k': op['k']} if 'k' in op else {'ti': op['ti']}))]
    else:
        fus += [_u(op['on'], 'append', u=E)]
    if 'ws' in refs and op['on'] != 'ws':
        fus += [_u('ws', 'append', u=E)]
    if 'hs' in refs and op['on'] != 'hs':
        fus += [_u('hs', 'insert', i=0, u=E)]
    if refs & {'tier', 'tierk', 'tr'} and op['on'] != 'tier':
        fus += [_u('tier', 'append', k=0, u=E), _u('tier', 'pop', ti=1, i=None)]
    for r in refs:
        if r.startswith('ext:'):
            fus += [dict(on='ext', k='o', op='append', u=E)] if r in ('ext:other_ws', 'ext:other_hs', 'ext:other_tier') else \
                   [dict(on='ext', k='o', ti=0, op='append', u=E)]
    return fus


def gen_value_types(ctx):
    """every operation that takes URLs or tiers x every type / origin of its value, from the state
    tiers [[a, b], [c]], webseeds [a, b], httpseeds [c], through fresh getters and with every list object
    held (so that a value that IS a held object can be edited afterwards through its other handle:
    aliasing), each alone and followed by an edit through another handle"""
    th = ctx.thorough
    ops = []
    ul, nv, tv, sv = url_list_values(th), nested_values(), tiers_values(th), single_url_values()
    for v in ul + nv + sv[:6]:                                      # ONE TIER of the container
        ops += [_u('tr', 'append', v=v), _u('tr', 'insert', i=0, v=v), _u('tr', 'setitem', i=1, v=v)]
        if th:
            ops += [_u('tr', 'insert', i=1, v=v), _u('tr', 'setitem', i=0, v=v), _u('tr', 'setitem', i=-1, v=v)]
        ops += [_u('ws', 'set', v=v)] + ([_u('hs', 'set', v=v)] if th else [])          # a seed attribute
    for v in tv:                                                     # SEVERAL TIERS
        ops += [_u('tr', 'extend', vs=v), _u('tr', 'iadd', vs=v), _u('tr', 'replace', vs=v), _u('tr', 'set', v=v)]
    for v in [D, K('strsub', D), K('urlobj', D)]:                    # a str where several tiers are expected
        ops += [_u('tr', 'extend', vs=v), _u('tr', 'replace', vs=v), _u('tr', 'set', v=v)]
    targets = [('ws', {}), ('tier', {'ti': 1}), ('tier', {'k': 0})] + ([('hs', {}), ('tier', {'ti': 0})] if th else [])
    for on, kw in targets:                                           # in-place operations on a URL list
        for v in ul + nv[:7] + [D, K('strsub', D)]:
            ops += [_u(on, 'extend', us=v, **kw), _u(on, 'iadd', us=v, **kw), _u(on, 'replace', us=v, **kw),
                    _u(on, 'setslice', a=0, b=1, us=v, **kw), _u(on, 'setslice', a=None, b=None, st=-1, us=v, **kw)]
            if th:
                ops += [_u(on, 'setslice', a=None, b=None, us=v, **kw), _u(on, 'setslice', a=1, b=1, us=v, **kw)]
        for v in sv:
            ops += [_u(on, 'append', u=v, **kw), _u(on, 'insert', i=0, u=v, **kw), _u(on, 'setitem', i=0, u=v, **kw)]
    held_pre = [_get('ws'), _get('hs'), _get('tr'), _get('tier', ti=0, k=0)]
    cases = []
    for i, op in enumerate(ops):
        for pre in ([], held_pre):
            if not pre and op.get('k') is not None:
                continue
            fus = value_follow_ups(op)
            if th:
                fus = fus + [f for f in VALUE_FOLLOW_UPS if f not in fus]
            for f in fus:
                cases.append({'start': 'full', 'ops': pre + [op] + ([f] if f else []), 'kind': 'value-types'})
    return cases


def rnd_wrap(rng, op):
    """give the value of a random operation a random type / origin"""
    n, on = op['op'], op['on']
    def wrap_list(p):
        r = rng.random()
        if r < 0.55:
            return K(rng.choice(['tuple', 'gen', 'iter', 'set', 'dict', 'dictkeys', 'frozenset', 'deque', 'urls', 'other_ws']), p,
                     **({'keep': 'o'} if r < 0.1 else {}))
        if r < 0.7:
            return [rng.choice([lambda u: K('urlobj', u), lambda u: K('strsub', u), lambda u: u])(u) if isinstance(u, str) else u for u in p]
        base = rng.choice([K('ws'), K('hs'), K('tier', ti=rng.choice([0, 1, -1])), K('tierk', k=0), K('tr'),
                           K('other_tier', [p or [D], [E]], ti=0, keep='o')])
        r = rng.random()
        return base if r < 0.4 else K('add', base=base, x=p) if r < 0.8 else K('slice', base=base)
    op = dict(op)
    if n == 'remove':                          # the argument of remove() is compared, not stored
        return op
    if 'us' in op and isinstance(op['us'], list):
        op['us'] = wrap_list(op['us']) if rng.random() < 0.85 else [op['us']]
    elif 'vs' in op and isinstance(op['vs'], list):
        r = rng.random()
        if r < 0.5:
            op['vs'] = K(rng.choice(['tuple', 'gen', 'iter', 'dict']), [wrap_list(x) if isinstance(x, list) and rng.random() < 0.5 else
                                                                       K('tuple', x) if isinstance(x, list) else x for x in op['vs']])
        elif r < 0.8:
            op['vs'] = [wrap_list(x) if isinstance(x, list) else x for x in op['vs']]
        else:
            op['vs'] = rng.choice([K('tr'), K('other_tr', op['vs'] or [[D]], keep='o'), K('add', base=K('tr'), x=op['vs']), K('ws'),
                                   K('slice', base=K('tr'))])
    elif 'v' in op and isinstance(op['v'], list):
        if on == 'tr' and n == 'set':
            op['v'] = K(rng.choice(['tuple', 'gen', 'dict']), [K('tuple', x) if isinstance(x, list) else x for x in op['v']]) \
                if rng.random() < 0.6 else [wrap_list(x) if isinstance(x, list) else x for x in op['v']]
        else:
            op['v'] = wrap_list(op['v']) if rng.random() < 0.8 else [[op['v']]]
    elif 'u' in op and isinstance(op['u'], str) and n != 'remove':
        op['u'] = rng.choice([K('urlobj', op['u']), K('strsub', op['u']), K('strsub', op['u']), [op['u']]])
    elif 'v' in op and isinstance(op['v'], str):
        op['v'] = rng.choice([K('urlobj', op['v']), K('strsub', op['v'])])
    return op


def rnd_held_history(rng, allow_set):
    """random history in which every list is edited through at most one object at a time: after a
    `get` all operations on that list go to the held object until the list is assigned or obtained
    again; tiers are edited through the held Trackers object or through held tier handles"""
    n = rng.randint(3, 10)
    ops = []
    tier_keys = []
    # most histories obtain their objects early
    for on in rng.sample(['ws', 'hs', 'tr', 'tier'], rng.randint(1, 3)):
        if rng.random() < 0.4 and on != 'tier':
            ops.append(_u(on, 'set', v=rnd_urls(rng, 1, 3)) if on != 'tr' else
                       _u('tr', 'set', v=[rnd_tierval(rng) for _ in range(rng.randint(1, 3))]))
        if on == 'tier':
            k = len(tier_keys)
            tier_keys.append(k)
            ops.append(_get('tier', ti=rng.choice([0, 0, 1, -1]), k=k))
        else:
            ops.append(_get(on))
    while len(ops) < n:
        r = rng.random()
        if r < 0.06:
            on = rng.choice(['ws', 'hs', 'tr'])
            ops.append(_get(on))
            if on == 'tr':
                tier_keys = []
        elif r < 0.12:
            k = len(tier_keys)
            tier_keys.append(k)
            ops.append(_get('tier', ti=rng.choice([0, 0, 1, -1, 2]), k=k))
        elif r < 0.35 and tier_keys:
            ops.append(rnd_uop(rng, 'tier', allow_set, k=rng.choice(tier_keys)))
        else:
            op = rnd_op(rng, allow_set)
            if op['on'] == 'tr' and op['op'] == 'set' and rng.random() < 0.7:
                continue                  # assignments end the life of a held object: keep them rare
            ops.append(op)
    return ops


def gen_held_cases(ctx, scale=1.0):
    rng = ctx.rng
    cases = gen_value_types(ctx) + gen_held_exhaustive(ctx) + gen_assign_grid(ctx) + gen_reverse_family(ctx)
    for _ in range(int(ctx.n(2500, 120000) * scale)):
        cases.append({'start': rng.choice(['empty', 'full', 'full', 'single']),
                      'ops': rnd_held_history(rng, allow_set=False), 'kind': 'held-rnd-clean'})
    for _ in range(int(ctx.n(800, 40000) * scale)):
        cases.append({'start': rng.choice(['empty', 'full', 'full', 'single']),
                      'ops': rnd_held_history(rng, allow_set=True), 'kind': 'held-rnd-all'})
    for c in cases:
        c['init'] = START_STATES[c['start']]
    return cases


def gen_cases(ctx, scale=1.0):
    rng = ctx.rng
    cases = []
    full, small = single_ops_full(), single_ops_small()
    # 1. exhaustive: all histories of <= 2 operations over the full single-op alphabet from the
    #    empty torrent and from the start state 'full'; 3 operations = two state-building
    #    operations followed by every operation of the full alphabet
    for start in ('empty', 'full'):
        for h in itertools.product(full, repeat=2):
            cases.append({'start': start, 'ops': list(h), 'kind': 'exh2'})
    first2 = small if ctx.thorough else small[::3]      # (quick: every third one since round 3, to stay inside the time budget)
    for a, b in itertools.product(first2, repeat=2):
        for c in full:
            cases.append({'start': 'empty', 'ops': [a, b, c], 'kind': 'exh3'})
    if ctx.thorough:
        for a, b in itertools.product(small, repeat=2):
            for c in full:
                cases.append({'start': 'single', 'ops': [a, b, c], 'kind': 'exh3'})
        for a in small[::3]:
            for b, c in itertools.product(full, repeat=2):
                cases.append({'start': 'empty', 'ops': [a, b, c], 'kind': 'exh3'})
    for start in ('single', 'legacy-announce', 'legacy-list-only'):
        for c in full:
            cases.append({'start': start, 'ops': [c], 'kind': 'exh1'})
    ctx.notes['exhaustive_scope'] = (
        f'{len(full)} single operations (URL alphabet a, b, c, "http://a b", "http://a+b", invalid, blank, leading space; index / slice '
        f'assignment with duplicates, self-assignment, extended slices, out-of-range index, invalid URL in the middle, emptied tier): all '
        f'histories of <= 2 operations from the empty and the full start state; all histories of 3 operations '
        f'whose first two are among {len(first2)} state-building operations'
        + ('; plus (thorough) the same from the single-URL start state and all 3-operation histories whose '
           'first operation is one of every third state-building operation' if ctx.thorough else '')
        + '; assignment grid: every index -4..3 x 7 URLs and every slice of a bound x bound x step grid x 8 value shapes on '
          'lists of 0-3 URLs, on both tiers of [[a, b], [c]] and on held objects; value types: every operation that takes '
          'URLs or tiers x every type / origin of its value (harness/props/c16.py gen_value_types) from the full state, fresh and '
          'with every list object held, alone and followed by an edit through every other handle of the value')
    # 2. random histories, up to 8 operations, without slice assignment on the tiers (theorem fragment;
    #    index / slice assignment on URL lists — plain, extended, self — is part of it)
    for _ in range(int(ctx.n(6000, 200000) * scale)):
        k = rng.randint(1, 8)
        cases.append({'start': rng.choice(['empty', 'empty', 'full', 'single']),
                      'ops': [rnd_op(rng, allow_set=False) for _ in range(k)], 'kind': 'rnd-clean'})
    # 3. random histories with slice assignment on the tiers container too (finding D16b lives here)
    for _ in range(int(ctx.n(2500, 80000) * scale)):
        k = rng.randint(1, 8)
        cases.append({'start': rng.choice(['empty', 'empty', 'full', 'single']),
                      'ops': [rnd_op(rng) for _ in range(k)], 'kind': 'rnd-all'})
    # 4. random histories from the legacy start states (correspondence only until the first
    #    successful trackers write-back has normalised the state)
    for _ in range(int(ctx.n(500, 20000) * scale)):
        k = rng.randint(1, 5)
        cases.append({'start': rng.choice(['legacy-announce', 'legacy-list-only']),
                      'ops': [rnd_op(rng, allow_set=False) for _ in range(k)], 'kind': 'rnd-legacy'})
    for c in cases:
        c['init'] = START_STATES[c['start']]
    return cases + gen_held_cases(ctx, scale)


# ----------------------------------------------------------------------------------------------
# evaluation
# ----------------------------------------------------------------------------------------------

def _pub(case):
    return {'start': case.get('start'), 'init': case.get('init'), 'ops': case['ops']}


_OPSTR = {}


def _opstr(op):
    r = _OPSTR.get(id(op))
    if r is None or r[0] is not op:
        r = (op, json.dumps(op, sort_keys=True))
        if len(_OPSTR) < 100000:
            _OPSTR[id(op)] = r
    return r[1]


def evaluate(ctx, drv, cases, witness_of=None):
    """Runs the histories on the real code and on the driver and classifies every prefix.
    Returns, per case, the id of the matched finding / 'violation' / None."""
    import time
    t0 = time.time()
    results = common.pmap(_run_chunk, common.split(cases, common.NPROC * 4))
    impl = [r for chunk in results for r in chunk]
    t1 = time.time()
    reqs = []
    for c, (steps, table, err) in zip(cases, impl):
        if err:
            raise RuntimeError(f'harness failure on {c}: {err}')
        # the driver sees the equivalent fresh-getter history (plain histories: the history itself)
        msteps = [s for s in steps if s['mop'] is not None]
        reqs.append({'op': 'c16.run', 'urls': table, 'init': c.get('init'), 'ops': [s['mop'] for s in msteps],
                     'obs': [{'mi': s['mi'], 'rb': s['rb']} for s in msteps]})
    from multiprocessing.pool import ThreadPool
    parts = common.split(reqs, max(1, min(common.NPROC, len(reqs) // 500 + 1)))
    with ThreadPool(len(parts) or 1) as tp:       # one driver process per part
        replies = [r for part in tp.map(drv.run, parts) for r in part]
    t2 = time.time()
    verdicts = []
    for c, (steps, table, _), r in zip(cases, impl, replies):
        verdicts.append(_classify(ctx, c, steps, dict(map(tuple, table)), r))
    t3 = time.time()
    tm = ctx.notes.setdefault('phase_seconds', {'implementation': 0.0, 'driver': 0.0, 'classify': 0.0})
    tm['implementation'] = round(tm['implementation'] + t1 - t0, 2)
    tm['driver'] = round(tm['driver'] + t2 - t1, 2)
    tm['classify'] = round(tm['classify'] + t3 - t2, 2)
    return verdicts


def _classify(ctx, c, steps, is_url, r):
    case = _pub(c)
    kind = c.get('kind', 'replay')
    # the parameter itself: utils.is_url against its documented decisions
    for s, want in IS_URL_EXPECTED.items():
        if is_url.get(s) != want:
            ctx.violation(f'utils.is_url({s!r}) is {is_url.get(s)}, documented: {want}', case,
                          {'is_url': want}, {'kind': 'is_url', 'string': s, 'is_url': is_url.get(s)},
                          finding_matchers=MATCHERS)
            return 'violation'
    for s, b in r['blank'].items():
        if b != (not s.strip()):
            ctx.machinery_error(f'model isBlank({s!r}) = {b} differs from Python str.strip()', case)
            return None
    legacy = not r['initOk']
    before_rb = r['initRb']
    before_mi = c.get('init') or {f: None for f in FIELDS}
    before_mi = {f: before_mi.get(f) for f in FIELDS}
    verdict = None
    key = str(c.get('start'))
    nchanges, prev_mi = 0, before_mi
    msteps = iter(r['steps'])
    trail = []
    for k, s in enumerate(steps):
        op = c['ops'][k]
        mop = s['mop']
        m = next(msteps) if mop is not None else None
        hyp = bool(m and m['hyp'])
        via = s['via']
        trail.append([via, s['out']])
        key += '|' + _opstr(op)
        if s['mi'] != prev_mi:
            nchanges += 1
        prev_mi = s['mi']
        heldkind = ('held/' if via != 'fresh' or s['held'] else '')
        ctx.case(key=key, nontrivial=nchanges >= 2, kind=f'{kind}/{heldkind}{op["on"]}.{op["op"]}')
        if hyp:
            ctx.dist['under-hypothesis'] += 1
        if s['held']:
            ctx.dist['held-object-checked'] += 1
        # --- I ∈ S ? -----------------------------------------------------------------------
        reasons = py_holds(s['mi'], s['rb'], is_url)
        if m is not None:
            lean_ok = m['specI']
            if (not reasons) != bool(lean_ok):
                ctx.machinery_error('Lean Spec.holds and the Python statement of C16 disagree on observed data',
                                    {'case': case, 'step': k, 'reasons': reasons, 'lean': lean_ok, 'obs': s})
                return None
        hreasons = held_reasons(s['mi'], s['rb'], s['held'])
        obs = {'step': k, 'op': op, 'mi': s['mi'], 'rb': s['rb'], 'out': s['out'], 'rbexc': s['rbexc']}
        if s['held'] or via != 'fresh':
            obs.update(held=s['held'], via=via, trail=list(trail), before=before_mi)
        if not legacy or not reasons:
            legacy = False if not reasons else legacy
        if (reasons and not legacy) or hreasons:
            allr = (reasons if not legacy else []) + hreasons
            obs.update(kind='state', reasons=allr, is_url={u: is_url.get(u) for u in is_url})
            exp = {'model_mi': m['mi'], 'model_rb': m['rb'], 'model_out': m['out'], 'hyp': hyp} if m else \
                  {'metainfo': 'unchanged by obtaining a list object', 'before': before_mi}
            if hreasons:
                exp['held'] = 'the metainfo fields mirror the held list object and reading the list back gives its content'
            v = ctx.violation(
                f'after operation {k} ({op["on"]}.{op["op"]}{" on a held list object" if via == "held" else ""}) '
                f'metainfo and lists are out of sync: {", ".join(allr)}',
                case, exp, obs, finding_matchers=MATCHERS) or 'violation'
            return verdict or v
        if s['out'].startswith('internal:'):
            obs.update(kind='outcome')
            ctx.violation(f'operation {k} ({op["on"]}.{op["op"]}) raised an undocumented {s["out"][9:]}',
                          case, {'model_out': m['out'] if m else None}, obs, finding_matchers=MATCHERS)
            return 'violation'
        if m is None:
            # obtaining a list object / a skipped stale tier handle: nothing may change
            want_out = ('skip',) if via == 'skip' else ('ok', 'url', 'index', 'value') if via == 'ext' else \
                       ('ok', 'index') if op['on'] == 'tier' else ('ok',)
            if s['mi'] != before_mi or (k > 0 and s['rb'] != steps[k - 1]['rb']) or s['out'] not in want_out:
                obs.update(kind='get', before=before_mi)
                ctx.violation(f'operation {k} (' + ('an edit of a list object of ANOTHER torrent that was given to this one as a value'
                                                   if via == 'ext' else f'obtaining torrent.{op["on"]}')
                              + f') changed the metainfo or failed: outcome {s["out"]}',
                              case, {'mi': before_mi, 'rb': steps[k - 1]['rb'] if k else None, 'out': want_out}, obs,
                              finding_matchers=MATCHERS)
                return 'violation'
            continue
        if mop['op'] == 'reverse':
            outs, want = reverse_expected(mop, before_rb)
            got = None if want is None or s['rb'] is None else {x: s['rb'][x] for x in want}
            if s['out'] not in outs or (want is not None and got != want):
                obs.update(kind='reverse', before_rb=before_rb)
                ctx.violation(f'operation {k} ({op["on"]}.reverse{" on a held list object" if via == "held" else ""}): outcome {s["out"]}'
                              + ('' if got == want else ', the list read back is not the reversed list'),
                              case, {'out': list(outs), 'rb': want, 'model_mi': m['mi'], 'model_out': m['out']}, obs,
                              finding_matchers=MATCHERS)
                return 'violation'
        want_err = None if legacy else reject_expected(mop, before_rb, is_url)
        if want_err:
            atomic = mop['op'] not in ('extend', 'iadd')
            if s['out'] != want_err or (atomic and s['mi'] != before_mi):
                obs.update(kind='reject', before=before_mi, value=mop)
                ctx.violation(f'operation {k} ({op["on"]}.{op["op"]}) with '
                              + ('an invalid URL (or something that is not a string where one URL is expected)'
                                 if want_err == 'url' else 'a str where an iterable of URLs is expected')
                              + f': outcome {s["out"]}' + ('' if s['mi'] == before_mi else ', metainfo changed'),
                              case, {'out': want_err, 'mi': before_mi if atomic else 'invalid URL not stored'}, obs,
                              finding_matchers=MATCHERS)
                return 'violation'
        if s['out'] == 'ok' and not legacy:
            missing = not_stored(mop, s['rb'], is_url)
            if missing:
                obs.update(kind='not-stored', before=before_mi, value=mop, missing=missing)
                ctx.violation(f'operation {k} ({op["on"]}.{op["op"]}) returned normally but {missing} given to it '
                              f'{"is" if len(missing) == 1 else "are"} not in the list afterwards',
                              case, {'stored': missing, 'model_mi': m['mi'], 'model_out': m['out']}, obs, finding_matchers=MATCHERS)
                return 'violation'
            if hyp and m['out'] == 'ok' and m['rb'] is not None and not_stored(mop, m['rb'], is_url):
                ctx.machinery_error('the model returns ok but does not store a URL it was given',
                                    {'case': case, 'step': k, 'model': m, 'value': mop})
                return None
        # --- correspondence and sanity under the hypothesis ------------------------------
        same = (s['mi'] == m['mi'] and s['rb'] == m['rb'] and s['out'] == m['out'])
        if hyp or (legacy and m['hyp'] is False and _clean_prefix(c['ops'], k)):
            if hyp and not m['specM']:
                ctx.machinery_error('model violates Spec.holds under the hypothesis of C16_inv_reachable_partial',
                                    {'case': case, 'step': k, 'model': m})
                return None
            if not same:
                ctx.corr_break('c16.run', {'case': case, 'step': k},
                               {'mi': m['mi'], 'rb': m['rb'], 'out': m['out']},
                               {'mi': s['mi'], 'rb': s['rb'], 'out': s['out']})
                return 'corr'
        else:
            ctx.dist['outside-hypothesis:' + ('model-agrees' if same else 'model-differs')] += 1
        before_rb, before_mi = s['rb'], s['mi']
    if steps:
        ctx.sample({'case': case, 'final_metainfo': steps[-1]['mi'], 'last_outcome': steps[-1]['out']})
    return verdict


def _clean_prefix(ops, k):
    return not any(_affected(o) for o in ops[:k + 1])


def _affected(op):
    """the only operation outside the theorem hypothesis: slice assignment on the tiers container (D16b)"""
    return op['on'] == 'tr' and op['op'] == 'setslice'


def _load_corpus():
    d = os.path.join(common.CORPUS_DIR, 'C16')
    out = []
    if os.path.isdir(d):
        for fn in sorted(os.listdir(d)):
            if fn.endswith('.json'):
                c = json.load(open(os.path.join(d, fn)))
                c.setdefault('kind', 'corpus')
                out.append(c)
    return out


def _replay_findings(ctx, drv):
    """Every open finding's witness is replayed; KNOWN-FINDING only while it still fails."""
    for f in ctx.open_findings():
        w = f['witness']
        case = {'start': w.get('start', 'empty'), 'init': w.get('init'), 'ops': w['ops'], 'kind': 'witness'}
        v = evaluate(ctx, drv, [case])[0]
        if v != f['id']:
            ctx.not_reproduced.append(f['id'])


def run(ctx, drv):
    ctx.notes['rule'] = RULE
    ctx.notes['assumptions'] = [
        'utils.is_url (urllib.parse) is an arbitrary parameter isUrl of the model and of the theorems (no assumption on it '
        'any more: URL() accepts u iff is_url(u) and is_url(u.replace(" ", "+")), /repo ae2b587); the real function is '
        'evaluated on every string of a case and on its space→plus image and passed to the driver as a table',
        'plain histories: every operation goes through a fresh getter call (torrent.trackers.append(x)). Held-object '
        'histories: per list at most ONE object is edited at a time (ws = t.webseeds / hs / tr = t.trackers / tier = tr[i], '
        'several operations on it, also after operations that raised; stale tier handles are skipped); they are checked '
        'implementation-vs-specification directly (metainfo mirrors the held object, read-back equals it) and against the '
        'model through the equivalent fresh-getter history (callback alive => same state machine: C16_held_same_as_fresh_partial '
        'for a held Trackers object under the modelling claim that the object holds what its last callback call saw; the order of '
        'effects inside replace/append/clear is modelled separately, C16_held_sync); two objects of one list edited alternately '
        'are not modelled',
        'values: None / a non-iterable (setters only) / a str or anything that is iterated, nested to any depth, of any type '
        'and origin (round 3: the model is given the STRUCTURE of a value — str | items in iteration order — and '
        'C16_value_type_irrelevant says nothing else matters; sets / dicts are taken in the iteration order of the object; '
        'one-shot iterators are built by the harness with a known structure); not modelled: values that are neither str nor '
        'iterable INSIDE a value (ints, None), bytes, extended slices in DELETIONS and on the tiers container, sort(), editing an '
        'object DERIVED from a list (the result of lst + [...] shares the callback of lst: a second object of the same list)',
        'the metainfo fields only hold what the API itself writes (plus two legacy start states that are '
        'compared model-vs-code only)',
        'blank tier strings: str.strip() agrees with the model on the generated strings (checked per case)',
    ]
    ctx.notes['trusted_base'] = ['is_url table evaluated on the real code (harness/props/c16.py strings_of)']
    _replay_findings(ctx, drv)
    corpus = _load_corpus()
    if corpus:
        evaluate(ctx, drv, corpus)
    cases = gen_cases(ctx)
    # run order: corpus, the exhaustive value-type family, held-object histories, everything else
    rank = lambda c: 0 if c['kind'] == 'value-types' else 1 if c['kind'].startswith('held') else 2   # noqa
    _evaluate_batched(ctx, drv, sorted(cases, key=rank))
    ctx.exhaustive = False


def _evaluate_batched(ctx, drv, cases, size=40000):
    # bounded memory: observations of at most `size` histories are alive at a time
    for i in range(0, len(cases), size):
        evaluate(ctx, drv, cases[i:i + size])
        # (correspondence breaks alone do not stop the run: a failing input may still follow)
        if len(ctx.violations) >= 50 or ctx.machinery_errors:
            break


def search(ctx, drv):
    _evaluate_batched(ctx, drv, gen_cases(ctx, scale=3.0))


def replay(ctx, drv, rp):
    c = rp['case']
    if 'case' in c and 'ops' not in c:      # broken-correspondence replays wrap the case
        c = c['case']
    case = {'start': c.get('start'), 'init': c.get('init'), 'ops': c['ops'], 'kind': 'replay'}
    v = evaluate(ctx, drv, [case])[0]
    return {'fails': bool(ctx.violations) or bool(ctx.corr_breaks) or v in [f['id'] for f in ctx.open_findings()],
            'verdict': v, 'violations': ctx.violations, 'correspondence_breaks': ctx.corr_breaks,
            'known': list(ctx.known)}
