"""
C14 — magnet fields accept exactly the valid values, whatever the object held before.

For every case three things are compared: the real `torf.Magnet` (I), the code-shaped Lean model
(M: hand-written `re.match` recognisers, setters as a state machine, base32→base16, get_info)
and the executable specification (S: exactly 40 hex / 32 base32 ASCII characters, optional
`urn:btih:`; 40-digit lower-case hex of the same number; adopt iff same number).
"""
import base64
import json
import fractions
import decimal
import urllib.parse

from harness import common
from harness.impl import magnet as mg

RULE = ('hash/topic strings = structured perturbations of valid 40-hex / 32-base32 strings (suffix, prefix, '
        'urn:btih: variants, length +-1, one substituted character incl. the non-ASCII characters re.IGNORECASE alone would fold, '
        'other alphabet, whitespace) + junk, x entry point (constructor on a fresh object, .xt= and .infohash= '
        'on objects initialised in each of the four notations) + histories of 2-6 assignments; xl values of '
        'every Python type int() knows; URL lists with invalid items, spaces (also leading: valid only before ' '->'+'), '
        'duplicates; get_info against a loopback HTTP server; one-object histories get_info -> torrent() -> re-assignments '
        '-> torrent() -> get_info -> torrent() with every stage judged, also after an adoption; torrent() in full: served '
        'metadata shape (single / multi-file / one-file directory / nested, private, source, md5sum, entropy, extra keys) x the '
        'magnet\'s own dn / xl / tr / ws / kt (absent, agreeing, disagreeing) x histories (before / after get_info, later changes '
        'of the fields, rejected assignment, caller edits an earlier result, another hash assigned), every result compared in '
        'full (info section, infohash, validate(), trackers, webseeds, name, size, fallback hash); get_info() WHILE the magnet is '
        'operated on: the error callback (called between two sources) and another thread (inside the loopback server\'s handler, '
        'i.e. while a source is answering) re-assign xt / infohash (another hash, same hash in another notation, invalid value) '
        'and xs / as_ / ws / tr (valid, removed, invalid) at every source position x matching / old-hash / unreadable / missing '
        'torrents x tracker that serves what it is asked for x magnet with or without metadata x validate x a plain get_info() '
        'afterwards. non-trivial = the string is valid or derived from a valid one by one '
        'perturbation (not junk); distinct = distinct (entry, prior, string) / scenario')

PRIORS = {'hex-lower': 'cd' * 20, 'hex-upper': 'CD' * 20,
          'b32-upper': base64.b32encode(bytes.fromhex('cd' * 20)).decode(),
          'b32-lower': base64.b32encode(bytes.fromhex('cd' * 20)).decode().lower()}


# ------------------------------------------------------------------ known findings
# none open: D14a-e and D14f (re.ASCII), D14g (URL validates the stored form), D14h (_set_infohash drops _info), D14i
# (torrent() deep-copies the adopted info section) are repaired in /repo; their witnesses run as regression cases (corpus/C14, fixed cases of the streams)
MATCHERS = {}


# ------------------------------------------------------------------ real code: hash assignments
def _assign(torf, entry, prior, v):
    """one assignment on the real code; v is any Python value"""
    obs = {}
    m = None
    try:
        if entry == 'ctor':
            m = torf.Magnet(v)
        else:
            m = torf.Magnet(prior)
            setattr(m, entry, v)
        obs['outcome'] = 'ok'
    except BaseException as e:  # noqa
        obs['outcome'] = mg.errkind(e)
        if entry == 'ctor':
            m = None
    if m is not None:
        obs['state'] = m.infohash
        obs['xt_getter_ok'] = (m.xt == 'urn:btih:' + m.infohash)
        if obs['outcome'] == 'ok':
            try:
                obs['base16'] = m.torrent().infohash
            except BaseException as e:  # noqa
                obs['base16'] = 'raised:' + type(e).__name__
    else:
        obs['state'] = None
    return obs


def _run_hash_chunk(cases):
    torf = common.import_torf()
    return [_assign(torf, c['entry'], c['prior'], c['v']) for c in cases]


def _run_history_chunk(cases):
    torf = common.import_torf()
    out = []
    for c in cases:
        errs = []
        try:
            m = torf.Magnet(c['prior'])
            for (entry, v) in c['ops']:
                try:
                    setattr(m, entry, v)
                    errs.append(None)
                except BaseException as e:  # noqa
                    errs.append(mg.errkind(e))
            out.append({'errs': errs, 'state': m.infohash})
        except BaseException as e:  # noqa
            out.append({'exc': type(e).__name__})
    return out


def hash_cases(ctx, scale=1.0):
    rng = ctx.rng
    strings = mg.fixed_hash_strings() + mg.hash_strings(rng, int(ctx.n(12000, 250000) * scale))
    cases = []
    for label, v in strings:
        for entry in ('ctor', 'xt', 'infohash'):
            pk = None if entry == 'ctor' else rng.choice(list(PRIORS))
            cases.append({'entry': entry, 'prior': None if pk is None else PRIORS[pk], 'prior_kind': pk or 'fresh',
                          'v': v, 'label': label})
    return cases


def eval_hash(ctx, drv, cases):
    usable = [c for c in cases if not mg.has_surrogate(c['v'])]
    replies = drv.run([{'op': 'c14.hash', 'v': mg.cps(c['v']), 'prior': mg.ocps(c['prior']),
                        'entry': c['entry']} for c in usable])
    obs = [o for ch in common.pmap(_run_hash_chunk, common.split(usable, common.NPROC * 4)) for o in ch]
    for c, r, o in zip(usable, replies, obs):
        case = {'kind': 'hash', 'entry': c['entry'], 'prior': c['prior'], 'v': c['v']}
        ctx.case(key=('h', c['entry'], c['prior'], c['v']), nontrivial=not c['label'].startswith('junk'),
                 kind=f"hash:{c['label']}/{c['entry']}")
        spec, model = r['spec'], r['model']
        s_state = mg.uncps(spec['state'])
        s_b16 = mg.uncps(spec['base16'])
        if len(ctx.samples) < 3 and spec['accept']:
            ctx.sample({'case': case, 'spec': {'accept': True, 'stored': s_state, 'base16': s_b16}, 'impl': o})
        # --- implementation against the specification
        if spec['accept']:
            ok = (o['outcome'] == 'ok' and o['state'] == s_state and o.get('base16') == s_b16
                  and o.get('xt_getter_ok'))
            what = 'a valid hash / topic was not accepted, not stored as given, or torrent().infohash is not its 40-digit hex form'
        else:
            ok = (o['outcome'] == 'magnet' and o['state'] == c['prior'])
            what = ('an invalid hash / topic was accepted' if o['outcome'] == 'ok' else
                    'an invalid assignment did not raise MagnetError or did not leave the previous value intact')
        if not ok:
            ctx.violation(what, case,
                          {'accept': spec['accept'], 'state': s_state, 'base16': s_b16,
                           'error': None if spec['accept'] else 'MagnetError'},
                          o, finding_matchers=MATCHERS)
            continue
        # --- model against the specification (proved for all strings: C14_accept_iff_*, C14_reject_keeps, C14_torrent_hash)
        m_b16 = model['base16']
        m_ok = ((model['err'] is None) == spec['accept'] and mg.uncps(model['state']) == s_state
                and (not spec['accept'] or (m_b16 and mg.uncps(m_b16.get('ok')) == s_b16)))
        if not m_ok:
            ctx.machinery_error('model outside spec although C14_accept_iff_* are proved', case)
            continue
        # --- implementation against the model
        i_err = None if o['outcome'] == 'ok' else o['outcome']
        if i_err != model['err'] or o['state'] != mg.uncps(model['state']):
            ctx.corr_break('c14.hash', case, model, o)


def history_cases(ctx, scale=1.0):
    rng = ctx.rng
    cases = []
    pool = mg.fixed_hash_strings()
    for _ in range(int(ctx.n(4000, 40000) * scale)):
        ops = []
        for _ in range(rng.randint(2, 6)):
            label, v = rng.choice(pool) if rng.random() < 0.5 else mg.hash_strings(rng, 1)[0]
            ops.append((rng.choice(['xt', 'infohash']), v))
        cases.append({'prior': PRIORS[rng.choice(list(PRIORS))], 'ops': ops})
    return cases


def eval_history(ctx, drv, cases):
    cases = [c for c in cases if not any(mg.has_surrogate(v) for _, v in c['ops'])]
    replies = drv.run([{'op': 'c14.history', 'prior': mg.cps(c['prior']),
                        'ops': [{'entry': e, 'v': mg.cps(v)} for e, v in c['ops']]} for c in cases])
    # specification: every assignment judged on its own (C14_history_independent)
    flat = [(i, e, v) for i, c in enumerate(cases) for e, v in c['ops']]
    srep = drv.run([{'op': 'c14.hash', 'v': mg.cps(v), 'prior': None, 'entry': e} for _, e, v in flat])
    per = {}
    for (i, e, v), r in zip(flat, srep):
        per.setdefault(i, []).append(r['spec'])
    obs = [o for ch in common.pmap(_run_history_chunk, common.split(cases, common.NPROC * 4)) for o in ch]
    for i, (c, r, o) in enumerate(zip(cases, replies, obs)):
        case = {'kind': 'history', 'prior': c['prior'], 'ops': [list(x) for x in c['ops']]}
        ctx.case(key=('hist', c['prior'], tuple(c['ops'])), nontrivial=True, kind=f'history/{len(c["ops"])}')
        exp_errs, state = [], c['prior']
        for s in per[i]:
            exp_errs.append(None if s['accept'] else 'magnet')
            if s['accept']:
                state = mg.uncps(s['state'])
        if 'exc' in o or o['errs'] != exp_errs or o['state'] != state:
            # attribute the failure to the first deviating assignment so that narrow matchers apply
            k = next((k for k, (a, b) in enumerate(zip(o.get('errs', []), exp_errs)) if a != b), None)
            if k is not None:
                e, v = c['ops'][k]
                sub = {'kind': 'hash', 'entry': e, 'prior': '<history>', 'v': v, 'history': case}
                ctx.violation('within a history an assignment was judged differently than the specification demands',
                              sub, {'errs': exp_errs, 'state': state},
                              {'outcome': 'ok' if o['errs'][k] is None else o['errs'][k], 'errs': o['errs'],
                               'state': o['state']}, finding_matchers=MATCHERS)
            else:
                ctx.violation('after a history of assignments the object does not hold the last accepted value',
                              case, {'errs': exp_errs, 'state': state}, o, finding_matchers=MATCHERS)
            continue
        if not r['hyp']:
            continue
        m = r['model']
        if m['errs'] != exp_errs or mg.uncps(m['state']) != state:
            ctx.machinery_error('history model outside spec although C14_history_independent is proved', case)
        elif m['errs'] != o['errs'] or mg.uncps(m['state']) != o['state']:
            ctx.corr_break('c14.history', case, m, o)


# ------------------------------------------------------------------ histories that also convert
def _run_use_chunk(cases):
    """one object per case: assignments through both setters interleaved with torrent()"""
    torf = common.import_torf()
    out = []
    for c in cases:
        try:
            m = torf.Magnet(c['prior'])
        except BaseException as e:  # noqa
            out.append({'exc': type(e).__name__})
            continue
        obs = []
        for op in c['ops']:
            if op[0] == 'torrent':
                try:
                    t = m.torrent()
                    obs.append({'base16': t.infohash, 'withInfo': 'pieces' in t.metainfo['info']})
                except BaseException as e:  # noqa
                    obs.append({'base16': 'raised:' + type(e).__name__, 'withInfo': False})
            else:
                try:
                    setattr(m, op[0], op[1])
                    obs.append({'err': None})
                except BaseException as e:  # noqa
                    obs.append({'err': mg.errkind(e)})
        out.append({'obs': obs, 'state': m.infohash})
    return out


def _valid_in(rng, hx, entry):
    """a valid spelling of the 20-byte hash `hx` for this setter"""
    n = mg.notations(hx)
    v = rng.choice([n['hex-lower'], n['hex-upper'], n['b32-upper'], n['b32-lower'], mg.randcase(rng, hx),
                    mg.randcase(rng, n['b32-upper'])])
    if entry == 'xt' and rng.random() < 0.5:
        v = rng.choice(['urn:btih:', 'URN:BTIH:', 'Urn:Btih:']) + v
    return v


def use_cases(ctx, scale=1.0):
    """histories on ONE object: convert -> assign (valid in any notation / invalid) -> convert ..."""
    rng = ctx.rng
    cases = []
    h1, h2 = 'ab' * 20, '0123456789abcdef0123456789abcdef01234567'
    n2 = mg.notations(h2)
    # exhaustive small scope: prior notation x setter x new notation, with and without a rejected assignment between
    for pk in PRIORS:
        for entry in ('infohash', 'xt'):
            for nk in ('hex-lower', 'hex-upper', 'b32-upper', 'b32-lower'):
                v = n2[nk]
                cases.append({'prior': PRIORS[pk], 'ops': [['torrent'], [entry, v], ['torrent']]})
                cases.append({'prior': PRIORS[pk], 'ops': [['torrent'], [entry, v + 'z'], ['torrent'], [entry, v], ['torrent']]})
                cases.append({'prior': PRIORS[pk], 'ops': [[entry, v], ['torrent'], [entry, 'urn:btih:' + h1], ['torrent']]})
    pool = mg.fixed_hash_strings()
    for _ in range(int(ctx.n(2500, 40000) * scale)):
        ops = []
        for _ in range(rng.randint(3, 8)):
            r = rng.random()
            if r < 0.4:
                ops.append(['torrent'])
            elif r < 0.75:
                e = rng.choice(['xt', 'infohash'])
                ops.append([e, _valid_in(rng, mg.rand_hex40(rng), e)])
            else:
                label, v = rng.choice(pool) if rng.random() < 0.5 else mg.hash_strings(rng, 1)[0]
                if mg.has_surrogate(v):
                    v = v.encode('utf-8', 'replace').decode()
                ops.append([rng.choice(['xt', 'infohash']), v])
        ops.append(['torrent'])
        cases.append({'prior': _valid_in(rng, mg.rand_hex40(rng), 'infohash'), 'ops': ops})
    return cases


def _norm_obs(o):
    if 'err' in o:
        return {'err': o['err']}
    if 'base16' in o:
        b = o['base16']
        return {'base16': mg.uncps(b['ok']) if 'ok' in b else 'raised:' + str(b.get('err')), 'withInfo': o['withInfo']}
    if 'fetchErr' in o:
        return {'fetch': ('raised:' + o['fetchErr']) if o['fetchErr'] else o['result'], 'consulted': o['consulted']}
    return {'unset': True}


def eval_use(ctx, drv, cases):
    replies = drv.run([{'op': 'c14.use', 'prior': mg.cps(c['prior']),
                        'ops': [{'entry': op[0], 'v': mg.cps(op[1]) if len(op) > 1 else []} for op in c['ops']]}
                       for c in cases])
    obs = [o for ch in common.pmap(_run_use_chunk, common.split(cases, common.NPROC * 4)) for o in ch]
    for c, r, o in zip(cases, replies, obs):
        case = {'kind': 'use', 'prior': c['prior'], 'ops': [list(x) for x in c['ops']]}
        nconv = sum(1 for op in c['ops'] if op[0] == 'torrent')
        ctx.case(key=('use', c['prior'], tuple(tuple(x) for x in c['ops'])), nontrivial=nconv >= 2,
                 kind=f'use-history/{len(c["ops"])}')
        s_obs = [_norm_obs(x) for x in r['spec']['obs']]
        s_state = mg.uncps(r['spec']['state'])
        if len(ctx.samples) < 8 and nconv >= 2 and ctx.dist['sampled-use'] < 1:
            ctx.dist['sampled-use'] += 1
            ctx.sample({'case': case, 'spec': s_obs, 'impl': o}, limit=8)
        if 'exc' in o or o['obs'] != s_obs or o['state'] != s_state:
            k = next((k for k, (a, b) in enumerate(zip(o.get('obs', []), s_obs)) if a != b), None)
            if k is not None and c['ops'][k][0] != 'torrent':
                e, v = c['ops'][k]
                sub = {'kind': 'hash', 'entry': e, 'prior': '<history>', 'v': v, 'use_history': case}
                ctx.violation('within a history an assignment was judged differently than the specification demands',
                              sub, {'obs': s_obs, 'state': s_state},
                              {'outcome': 'ok' if o['obs'][k]['err'] is None else o['obs'][k]['err'], 'obs': o['obs'],
                               'state': o['state']}, finding_matchers=MATCHERS)
            elif k is not None:
                ctx.violation('torrent().infohash is not the 40-digit hexadecimal form of the hash the magnet holds at that '
                              'moment (step %d of a history of assignments and conversions on one object)' % k,
                              case, {'obs': s_obs, 'state': s_state}, dict(o, first_deviating_step=k),
                              finding_matchers=MATCHERS)
            else:
                ctx.violation('after a history of assignments and conversions the object does not hold the last accepted value',
                              case, {'obs': s_obs, 'state': s_state}, o, finding_matchers=MATCHERS)
            continue
        if not r['hyp']:
            continue
        m_obs = [_norm_obs(x) for x in r['model']['obs']]
        if m_obs != s_obs or mg.uncps(r['model']['state']) != s_state:
            ctx.machinery_error('use-history model outside spec although C14_convert_history is proved', case)
        elif m_obs != o['obs']:
            ctx.corr_break('c14.use', case, m_obs, o['obs'])


# ------------------------------------------------------------------ get_info, re-assignment, get_info on one object
GIH_PAYLOADS = ['good', 'bad', 'garbage', 'notfound']      # serve torrent "good" / torrent "bad" / junk / 404
NOTATIONS = ['hex-lower', 'hex-upper', 'b32-upper', 'b32-lower', 'hex-mixed', 'b32-mixed']


def _adopts(who, sources, payloads, validate):
    """does get_info adopt something (plain Python reading of the property, used only to steer the generator)"""
    for kind, p in zip(sources, payloads):
        if p in ('good', 'bad'):
            return (not validate) or p == who
    return False


def gih_scenarios(ctx, scale=1.0):
    rng = ctx.rng
    sc = []

    def add(**kw):
        kw.setdefault('validate', True)
        kw.setdefault('tq', [False, False])
        sc.append(kw)
    # small scope, systematically: what phase 1 converts x how the hash is re-assigned x what phase 2 must do
    for kind in ('tr', 'xs', 'ws', 'as_'):
        for n1 in ('hex-lower', 'hex-upper', 'b32-upper', 'b32-lower'):
            for entry in ('infohash', 'xt'):
                n2 = rng.choice(NOTATIONS)
                # nothing adopted in phase 1 (404 / other torrent refused) -> assign the served torrent's hash -> adopted
                add(first='bad', n1=n1, sources=[kind], p1=['notfound'], reassign=[[entry, 'good', n2, False]], p2=['good'])
                add(first='bad', n1=n1, sources=[kind], p1=['good'], reassign=[[entry, 'good', n2, entry == 'xt']], p2=['good'])
                # ... after a rejected assignment in between
                add(first='bad', n1=n1, sources=[kind], p1=['good'],
                    reassign=[[entry, 'invalid', 'ab' * 20 + 'z'], [entry, 'good', n2, False]], p2=['good'], tq=[True, True])
                # the old hash's torrent must be refused after the re-assignment
                add(first='good', n1=n1, sources=[kind], p1=['garbage'], reassign=[[entry, 'bad', n2, False]], p2=['good'])
                # adopted in phase 1, then another hash assigned: torrent() must follow the magnet (D14h, repaired) ...
                add(first='good', n1=n1, sources=[kind], p1=['good'], reassign=[[entry, 'bad', n2, False]], p2=['notfound'],
                    tq=[True, True])
                # ... the old hash's torrent must now be refused, the new hash's torrent adopted
                add(first='good', n1=n1, sources=[kind], p1=['good'], reassign=[[entry, 'bad', n2, entry == 'xt']], p2=['good'],
                    tq=[False, False])
                add(first='good', n1=n1, sources=[kind], p1=['good'], reassign=[[entry, 'bad', n2, False]], p2=['bad'],
                    tq=[False, True])
                # same number in another notation: adopted metadata stays valid (the code forgets and re-fetches it)
                add(first='good', n1=n1, sources=[kind], p1=['good'], reassign=[[entry, 'good', n2, False]], p2=['good'],
                    tq=[False, True])
                # the very same string re-assigned / only a rejected assignment: metadata is kept
                add(first='good', n1=n1, sources=[kind], p1=['good'], reassign=[[entry, 'good', n1, False]],
                    p2=[rng.choice(['notfound', 'garbage', 'good', 'bad'])], tq=[True, True])
                add(first='good', n1=n1, sources=[kind], p1=['good'], reassign=[[entry, 'invalid', 'urn:btih:' + 'ab' * 20 + 'z']],
                    p2=[rng.choice(['notfound', 'good'])], tq=[False, True])
    for _ in range(int(ctx.n(120, 1500) * scale)):
        n = rng.randint(1, 4)
        kinds = ['xs', 'as_'] + ['ws'] * 2 + ['tr'] * 2
        rng.shuffle(kinds)
        order = {'xs': 0, 'as_': 1, 'ws': 2, 'tr': 3}
        sources = sorted(kinds[:n], key=lambda k: order[k])

        def payloads():
            trp = rng.choice(GIH_PAYLOADS)               # all trackers share one netloc, hence one payload
            return [trp if k == 'tr' else rng.choice(GIH_PAYLOADS) for k in sources]
        first = rng.choice(['good', 'bad', mg.rand_hex40(rng)])
        validate = rng.random() < 0.85
        p1 = payloads()
        re = []
        for _ in range(rng.randint(1, 3)):
            entry = rng.choice(['xt', 'infohash'])
            if rng.random() < 0.25:
                re.append([entry, 'invalid', rng.choice(['', 'junk', 'ab' * 20 + '\n', 'urn:btih:', 'z' * 40, 'a' * 31, '0' * 32])])
            else:
                re.append([entry, rng.choice(['good', 'bad', 'good', mg.rand_hex40(rng)]), rng.choice(NOTATIONS),
                           rng.random() < 0.4])
        a1 = _adopts(first, sources, p1, validate)
        add(first=first, n1=rng.choice(NOTATIONS), sources=sources, p1=p1, reassign=re, p2=payloads(), validate=validate,
            tq=[rng.random() < 0.4, a1 or rng.random() < 0.4])
    return sc


def _run_gih_chunk(scs):
    import random
    torf = common.import_torf()
    srv = mg.TorrentServer()
    out = []
    try:
        good, ih = _mk_torrent(torf, 'matching')
        bad, ih_bad = _mk_torrent(torf, 'other')
        bodies = {'good': (200, good), 'bad': (200, bad), 'garbage': (200, b'this is not bencoded'), 'notfound': (404, b'')}
        for s in scs:
            rng = random.Random(s['seed'])

            def spell(who, notation):
                hx = {'good': ih, 'bad': ih_bad}.get(who, who)
                nots = mg.notations(hx)
                nots['hex-mixed'] = mg.randcase(rng, hx)
                nots['b32-mixed'] = mg.randcase(rng, nots['b32-upper'])
                return nots[notation]
            own = spell(s['first'], s['n1'])
            kw = {'ws': [], 'tr': []}
            base = f'http://127.0.0.1:{srv.port}'
            for k, kind in enumerate(s['sources']):
                if kind == 'tr':
                    kw['tr'].append(f'{base}/announce/{k}')
                elif kind == 'ws':
                    kw['ws'].append(f'{base}/s{k}/t')
                else:
                    kw[kind] = f'{base}/s{k}/t.torrent'
            m = torf.Magnet(own, **kw)

            def phase(payloads):
                srv.routes.clear()
                for k, (kind, p) in enumerate(zip(s['sources'], payloads)):
                    srv.routes['/file?info_hash=' if kind == 'tr' else f'/s{k}/t'] = bodies[p]
                srv.seen.clear()
                cb = []
                try:
                    res = bool(m.get_info(validate=s['validate'], timeout=10, callback=lambda e: cb.append(type(e).__name__)))
                except BaseException as e:  # noqa
                    res = 'raised:' + mg.errkind(e)
                return {'result': res, 'seen': list(srv.seen), 'callbacks': cb}

            def tq():
                try:
                    t = m.torrent()
                    return {'torrent_infohash': t.infohash, 'has_pieces': 'pieces' in t.metainfo['info']}
                except BaseException as e:  # noqa
                    return {'torrent_infohash': 'raised:' + type(e).__name__}
            o = {'p1': phase(s['p1'])}
            if s['tq'][0]:
                o['t1'] = tq()
            ops, errs = [], []
            for op in s['reassign']:
                v = op[2] if op[1] == 'invalid' else ('urn:btih:' if op[3] else '') + spell(op[1], op[2])
                ops.append([op[0], v])
                try:
                    setattr(m, op[0], v)
                    errs.append(None)
                except BaseException as e:  # noqa
                    errs.append(mg.errkind(e))
            o.update(ops=ops, errs=errs, state=m.infohash)
            if s['tq'][1]:
                o['tmid'] = tq()
            o['p2'] = phase(s['p2'])
            o['t2'] = tq()
            out.append({'scenario': s, 'own': own, 'kw': kw, 'ih': ih, 'ih_bad': ih_bad, 'port': srv.port, 'obs': o})
    finally:
        srv.close()
    return out


def _gi_expect(payloads, matches, validate, held=None):
    """the property, read directly: sources in order; a failed download / unreadable data is skipped; the first readable
    torrent is adopted iff it denotes the magnet's hash (without validation: adopted as it is); a readable torrent with
    another hash raises MetainfoError; the search is over as soon as the magnet holds metadata (`held` = payload it
    already holds).  Returns (result, sources consulted, payload held afterwards)."""
    consulted = 0
    for p, match in zip(payloads, matches):
        consulted += 1
        if match is None:
            if held:
                return True, consulted, held
            continue
        if validate and not match:
            return 'raised:metainfo', consulted, held
        return True, consulted, p
    return bool(held), consulted, held


def _gih_stages(res, judged_own, judged_ops, g1, g2, drop_rule):
    """expected observation of every stage of one scenario, from the property.  `drop_rule` says when adopted metadata
    is forgotten by an accepted assignment: 'string' = the stored string changes (what the code does), 'number' = the
    denoted hash changes (what the property needs at least), 'accepted' = always (the most the property allows: a
    rejected assignment must leave the object as it was).  Returns (stages, plan); a stage is
    (name, expected, observed, ok)."""
    s, o = res['scenario'], res['obs']
    served_hash = {'good': res['ih'], 'bad': res['ih_bad']}
    validate = s['validate']
    own_hex = mg.uncps(judged_own['base16'])
    cur, cur_hex = res['own'], own_hex

    def paths(n, hx):
        enc = urllib.parse.quote_from_bytes(bytes.fromhex(hx))
        return ['/file?info_hash=' + enc if kind == 'tr' else f'/s{k}/t.torrent' for k, kind in enumerate(s['sources'][:n])]

    def eq(name, exp, got):
        return (name, exp, got, all(got.get(k) == v for k, v in exp.items()))

    def tor(held, hx):
        return ({'torrent_infohash': served_hash[held], 'has_pieces': True} if held else
                {'torrent_infohash': hx, 'has_pieces': False})
    stages = []
    exp1, n1, held = _gi_expect(s['p1'], g1['spec']['matches'], validate)
    stages.append(eq('get_info() before the re-assignment', {'result': exp1, 'seen': paths(n1, own_hex)},
                     {k: o['p1'][k] for k in ('result', 'seen')}))
    if 't1' in o:
        stages.append(eq('torrent() before the re-assignment', tor(held, own_hex), o['t1']))
    held1 = held
    exp_errs = []
    for j in judged_ops:
        exp_errs.append(None if j['accept'] else 'magnet')
        if j['accept']:
            new, new_hex = mg.uncps(j['state']), mg.uncps(j['base16'])
            if {'string': new != cur, 'number': new_hex != cur_hex, 'accepted': True}[drop_rule]:
                held = None
            cur, cur_hex = new, new_hex
    stages.append(eq('assignments', {'errs': exp_errs, 'state': cur}, {'errs': o['errs'], 'state': o['state']}))
    if 'tmid' in o:
        name = ('torrent() after re-assignment' if cur_hex != own_hex else
                'torrent() after assignments that left the hash unchanged')
        got = dict(o['tmid'])
        if held1 and cur_hex != own_hex:
            got.update(adopted_before=served_hash[held1], holds_hex=cur_hex)
        stages.append(eq(name, tor(held, cur_hex), got))
    got2 = {k: o['p2'][k] for k in ('result', 'seen')}
    if not held:
        exp2, n2, held2 = _gi_expect(s['p2'], g2['spec']['matches'], validate)
        stages.append(eq('get_info() after the re-assignment', {'result': exp2, 'seen': paths(n2, cur_hex)}, got2))
        stages.append(eq('torrent() at the end', tor(held2, cur_hex), o['t2']))
    else:
        # the magnet still holds metadata that denotes its hash.  The property fixes: requests (if any) are made for
        # the hash held now; a torrent with another hash is never adopted; the result is True, or MetainfoError if
        # (validating) a non-matching torrent was served; torrent() keeps reporting the magnet's hash.  (Exactly how
        # many sources are consulted is the code's choice: compared with the model below.)
        allp = paths(len(s['sources']), cur_hex)
        mism = any(m is False for m in g2['spec']['matches'])
        ok = (got2['seen'] == allp[:len(got2['seen'])]
              and (got2['result'] is True or (validate and mism and got2['result'] == 'raised:metainfo')))
        stages.append(('get_info() on a magnet that still holds metadata for its hash',
                       {'result': 'True' + (' | raised:metainfo' if validate and mism else ''), 'seen': 'a prefix of %r' % (allp,)},
                       got2, ok))
        if validate:
            stages.append(eq('torrent() at the end', {'torrent_infohash': cur_hex, 'has_pieces': True}, o['t2']))
        else:
            okt = o['t2'].get('has_pieces') is True and o['t2'].get('torrent_infohash') in served_hash.values()
            stages.append(('torrent() at the end', {'torrent_infohash': 'of a served torrent', 'has_pieces': True}, o['t2'], okt))
    return stages, {'own_hex': own_hex, 'cur': cur, 'cur_hex': cur_hex, 'adopted_phase1': held1}


def _served(res, payloads):
    return [{'kind': 'torrent', 'infohash': mg.cps(res['ih'] if p == 'good' else res['ih_bad']), 'nonEmpty': True}
            if p in ('good', 'bad') else {'kind': 'unreadable' if p == 'garbage' else 'connError'} for p in payloads]


def eval_gih(ctx, drv, scs):
    for i, s in enumerate(scs):
        s.setdefault('seed', ctx.seed * 100003 + i)
    results = [o for ch in common.pmap(_run_gih_chunk, common.split(scs, min(common.NPROC, 8))) for o in ch]
    # every assignment judged on its own (fresh object), and the 40-digit form of every hash involved
    hreq, hidx = [], []
    for ri, res in enumerate(results):
        hreq.append({'op': 'c14.hash', 'v': mg.cps(res['own']), 'prior': None, 'entry': 'infohash'})
        hidx.append((ri, None))
        for k, (e, v) in enumerate(res['obs']['ops']):
            hreq.append({'op': 'c14.hash', 'v': mg.cps(v), 'prior': None, 'entry': e})
            hidx.append((ri, k))
    judged = {}
    for (ri, k), r in zip(hidx, drv.run(hreq)):
        judged[(ri, k)] = r['spec']
    greq, ureq = [], []
    for ri, res in enumerate(results):
        s, o = res['scenario'], res['obs']
        cur = res['own']
        for k in range(len(o['ops'])):
            if judged[(ri, k)]['accept']:
                cur = mg.uncps(judged[(ri, k)]['state'])
        kw = res['kw']
        tr = []
        for u in kw['tr']:
            p = urllib.parse.urlparse(u)
            tr.append([mg.cps(p.scheme), mg.cps(p.netloc)])
        for own, payloads in ((res['own'], s['p1']), (cur, s['p2'])):
            greq.append({'op': 'c14.getinfo', 'ih': mg.cps(own), 'xs': mg.ocps(kw.get('xs')), 'as_': mg.ocps(kw.get('as_')),
                         'ws': [mg.cps(u) for u in kw['ws']], 'tr': tr, 'validate': s['validate'], 'served': _served(res, payloads)})
        # the whole history on one object for the model (runUse) and the Lean specification (specUse)
        ops = [{'entry': 'getinfo', 'validate': s['validate'], 'served': _served(res, s['p1'])}]
        if 't1' in o:
            ops.append({'entry': 'torrent'})
        ops += [{'entry': e, 'v': mg.cps(v)} for e, v in o['ops']]
        if 'tmid' in o:
            ops.append({'entry': 'torrent'})
        ops += [{'entry': 'getinfo', 'validate': s['validate'], 'served': _served(res, s['p2'])}, {'entry': 'torrent'}]
        ureq.append({'op': 'c14.use', 'prior': mg.cps(res['own']), 'ops': ops})
    grep = drv.run(greq)
    urep = drv.run(ureq)
    for ri, res in enumerate(results):
        s, o = res['scenario'], res['obs']
        g1, g2, u = grep[2 * ri], grep[2 * ri + 1], urep[ri]
        case = dict(s, kind='getinfo-history', own=res['own'], assignments=o['ops'])
        ctx.case(key=('gih', s['first'], s['n1'], tuple(s['sources']), tuple(s['p1']), tuple(map(tuple, s['reassign'])),
                      tuple(s['p2']), s['validate'], tuple(s['tq'])), nontrivial=True,
                 kind='getinfo-history/' + '+'.join(s['sources']))
        jops = [judged[(ri, k)] for k in range(len(o['ops']))]
        stages, plan = _gih_stages(res, judged[(ri, None)], jops, g1, g2, 'string')
        if plan['adopted_phase1']:
            ctx.dist['getinfo-history:adopted-in-phase-1(all stages judged)'] += 1
        if ctx.dist['sampled-gih'] < 1:
            ctx.dist['sampled-gih'] += 1
            ctx.sample({'case': case, 'stages': [[a, b] for a, b, _, _ in stages]}, limit=8)
        bad = next(((name, e, got) for name, e, got, ok in stages if not ok), None)
        if bad:
            # keeping adopted metadata when the same hash is assigned in another notation, or forgetting it when the
            # same string is assigned again, would serve the property as well: judge by those readings before
            # reporting (the exact rule of the code is compared with the model below)
            for rule in ('number', 'accepted'):
                alt, _ = _gih_stages(res, judged[(ri, None)], jops, g1, g2, rule)
                if all(ok for _, _, _, ok in alt):
                    ctx.dist['getinfo-history:metadata forgotten by rule "%s" (allowed by the property)' % rule] += 1
                    bad = None
                    break
        if bad:
            name, e, got = bad
            ctx.violation('one magnet object, get_info() / hash re-assignment / get_info(): at stage "%s" the object does not '
                          'behave like a magnet holding the hash assigned last (request for exactly its 20 bytes, adopt iff '
                          'the fetched infohash denotes it, torrent() reports it, metadata of another hash is forgotten)' % name,
                          case, dict(e, stage=name), dict(got, stage=name), finding_matchers=MATCHERS)
            continue
        # --- the code-shaped model (runUse) against the Lean specification (specUse, C14_convert_history) and the
        #     implementation, step by step over the whole history
        i_obs = [{'fetch': o['p1']['result'], 'consulted': len(o['p1']['seen'])}]
        if 't1' in o:
            i_obs.append({'base16': o['t1'].get('torrent_infohash'), 'withInfo': o['t1'].get('has_pieces', False)})
        i_obs += [{'err': e} for e in o['errs']]
        if 'tmid' in o:
            i_obs.append({'base16': o['tmid'].get('torrent_infohash'), 'withInfo': o['tmid'].get('has_pieces', False)})
        i_obs.append({'fetch': o['p2']['result'], 'consulted': len(o['p2']['seen'])})
        i_obs.append({'base16': o['t2'].get('torrent_infohash'), 'withInfo': o['t2'].get('has_pieces', False)})
        m_obs = [_norm_obs(x) for x in u['model']['obs']]
        if u['hyp']:
            s_obs = [_norm_obs(x) for x in u['spec']['obs']]
            if m_obs != s_obs or u['model']['full'] != u['spec']['full']:
                ctx.machinery_error('get_info-history model outside spec although C14_convert_history is proved',
                                    {'case': case, 'model': m_obs, 'spec': s_obs})
                continue
        if m_obs != i_obs:
            ctx.corr_break('c14.use', case, m_obs, i_obs)
            continue
        # --- the requests the model's torrent_urls predicts for each phase (C14_tracker_request)
        for g, ph in ((g1, o['p1']), (g2, o['p2'])):
            if not g['hyp']:
                continue
            murls = g['model']['urls'].get('ok')
            mpaths = None
            if murls is not None:
                mpaths = []
                for x in [mg.uncps(x) for x in murls][:len(ph['seen'])]:
                    p = urllib.parse.urlsplit(x)
                    mpaths.append(p.path + ('?' + p.query if p.query else ''))
            if mpaths != ph['seen']:
                ctx.corr_break('c14.getinfo', case, {'requests': mpaths}, ph)
                break


# ------------------------------------------------------------------ get_info() while the magnet is being changed
# The error callback that get_info() calls between two sources (failed download, unreadable data) and another thread
# (at a controlled point: inside the loopback server's handler, i.e. after the request was sent and before the answer is
# looked at) operate on the magnet WHILE the call is running: xt / infohash re-assigned (another valid hash, the same
# hash in another notation, an invalid value that raises), xs / as_ / ws / tr re-assigned (valid, removed, invalid) - at
# every source position (xs, as_, each ws, each tr), with matching / non-matching / unreadable / missing torrents.
# The hash that decides adoption is the one the magnet holds when the torrent arrives (C14_adopt_current_hash,
# C14_arrival_decides); a tracker serves what is asked for ('asked') or a fixed payload.
RUN_ORDER = {'xs': 0, 'as_': 1, 'ws': 2, 'tr': 3}
RUN_PAYLOADS = ['A', 'B', 'garbage', 'notfound']
RUN_BAD = ['', 'junk', 'ab' * 20 + 'z', 'ab' * 20 + '\n', 'urn:btih:', 'z' * 40, 'a' * 31, '0' * 32, 'urn:btih:' + 'ab' * 20 + ' ']


def running_scenarios(ctx, scale=1.0):
    rng = ctx.rng
    sc = []

    def add(sources, payloads, visits, **kw):
        kw.setdefault('first', 'A')
        kw.setdefault('n1', rng.choice(NOTATIONS))
        kw.setdefault('validate', True)
        kw.setdefault('cb', True)
        kw.setdefault('pre', False)
        vs = [{'during': list(v.get('during', [])), 'inCb': list(v.get('inCb', []))} for v in visits]
        sc.append(dict(kw, sources=list(sources), payloads=list(payloads), visits=vs))

    def newhash(who='B'):
        return ['hash', rng.choice(['xt', 'infohash']), who, rng.choice(NOTATIONS), False]

    pairs = [('xs', 'as_'), ('xs', 'ws'), ('xs', 'tr'), ('as_', 'ws'), ('as_', 'tr'), ('ws', 'ws'), ('ws', 'tr')]
    for f, g in pairs:
        for fail in ('notfound', 'garbage'):
            for served in ('A', 'B'):
                gp = ('asked' if served == 'A' else 'B') if g == 'tr' else served
                # the callback for the failed source assigns another hash, then the next source answers
                add([f, g], [fail, gp], [{'inCb': [newhash()]}, {}])
                # ... another thread does while the next source is answering
                add([f, g], [fail, gp], [{}, {'during': [newhash()]}], cb=rng.random() < 0.5)
            # the same hash in another notation (metadata still wanted), 'urn:btih:' through xt
            add([f, g], [fail, 'A' if g != 'tr' else 'asked'], [{'inCb': [['hash', 'xt', 'A', rng.choice(NOTATIONS), True]]}, {}])
            # an invalid value raises inside the callback; an invalid value in the other thread is that thread's business
            add([f, g], [fail, 'A' if g != 'tr' else 'A'], [{'inCb': [['bad', rng.choice(['xt', 'infohash']), rng.choice(RUN_BAD)]]}, {}])
            add([f, g], [fail, 'A' if g != 'tr' else 'A'], [{'during': [['bad', rng.choice(['xt', 'infohash']), rng.choice(RUN_BAD)]]}, {}])
            # the source fields are re-assigned while the call runs (valid, removed, invalid)
            for what in ('alt', 'none', 'bad'):
                act = ['badsrc', g] if what == 'bad' else ['src', g, {'alt': rng.choice(['altA', 'altB', 'http']), 'none': 'none'}[what]]
                if act[0] == 'src' and g == 'tr' and act[2] in ('altA', 'altB'):
                    act[2] = 'http'
                if act[0] == 'src' and g != 'tr' and act[2] == 'http':
                    act[2] = 'altB'
                add([f, g], [fail, 'A' if g != 'tr' else 'asked'], [{'inCb': [act]}, {}])
                add([f, g], [fail, 'B' if g != 'tr' else 'B'], [{'during': [act], 'inCb': [newhash()]}, {}])
        # the magnet already holds metadata (adopted by an earlier call) when the call with the callback starts
        for served in ('A', 'B'):
            gp = ('asked' if served == 'A' else 'B') if g == 'tr' else served
            add([f, g], ['notfound', gp], [{'inCb': [newhash()]}, {}], pre=True)
            add([f, g], [served, gp], [{'during': [newhash()]}, {}], pre=True)
    for g in ('xs', 'as_', 'ws', 'tr'):
        for served in ('A', 'B'):
            gp = ('asked' if served == 'A' else 'B') if g == 'tr' else served
            for v in (True, False):
                # a single source, the other thread assigns while it answers
                add([g], [gp], [{'during': [newhash()]}], validate=v, cb=False)
                add([g], [gp], [{'during': [newhash(), ['hash', 'infohash', 'A', rng.choice(NOTATIONS), False]]}], validate=v)
    for _ in range(int(ctx.n(260, 4000) * scale)):
        n = rng.randint(1, 5)
        kinds = ['xs', 'as_'] + ['ws'] * 2 + ['tr'] * 2
        rng.shuffle(kinds)
        sources = sorted(kinds[:n], key=lambda k: RUN_ORDER[k])
        trp = rng.choice(['asked', 'asked', 'A', 'B', 'garbage', 'notfound'])
        payloads = [trp if k == 'tr' else rng.choice(RUN_PAYLOADS) for k in sources]
        if rng.random() < 0.5:
            # make failures likelier in front so that callbacks and later sources are reached
            for i in range(len(payloads) - 1):
                if sources[i] != 'tr' and rng.random() < 0.6:
                    payloads[i] = rng.choice(['notfound', 'garbage'])

        def act():
            r = rng.random()
            if r < 0.6:
                return ['hash', rng.choice(['xt', 'infohash']), rng.choice(['A', 'B', 'B', 'C']), rng.choice(NOTATIONS), rng.random() < 0.3]
            if r < 0.75:
                return ['bad', rng.choice(['xt', 'infohash']), rng.choice(RUN_BAD)]
            if r < 0.95:
                fld = rng.choice(['xs', 'as_', 'ws', 'tr'])
                return ['src', fld, rng.choice(['none', 'http', 'udp', 'both'] if fld == 'tr' else ['none', 'altA', 'altB', 'alt404'])]
            return ['badsrc', rng.choice(['xs', 'as_', 'ws', 'tr'])]
        visits = []
        for _k in sources:
            visits.append({'during': [act() for _ in range(rng.choice([0, 0, 0, 1, 1, 2]))],
                           'inCb': [act() for _ in range(rng.choice([0, 1, 1, 2]))]})
        add(sources, payloads, visits, first=rng.choice(['A', 'A', 'B']), validate=rng.random() < 0.85,
            cb=rng.random() < 0.85, pre=rng.random() < 0.2)
    return sc


def _run_route_lookup(routes, path):
    for prefix, label in routes:
        if path.startswith(prefix):
            return label
    return 'notfound'


def _run_running_chunk(scs):
    import random
    torf = common.import_torf()
    srv = mg.TorrentServer()
    out = []
    try:
        tA, ihA = _mk_torrent(torf, 'matching')
        tB, ihB = _mk_torrent(torf, 'other')
        bodies = {'A': (200, tA), 'B': (200, tB), 'garbage': (200, b'this is not bencoded'), 'notfound': (404, b'')}
        base = f'http://127.0.0.1:{srv.port}'
        for s in scs:
            rng = random.Random(s['seed'])
            ihC = ''.join(rng.choice('0123456789abcdef') for _ in range(40))

            def spell(who, notation):
                hx = {'A': ihA, 'B': ihB, 'C': ihC}[who]
                nots = mg.notations(hx)
                nots['hex-mixed'] = mg.randcase(rng, hx)
                nots['b32-mixed'] = mg.randcase(rng, nots['b32-upper'])
                return nots[notation]

            def resolve(a):
                """(field, value, valid?) of an operation"""
                if a[0] == 'hash':
                    return [a[1], ('urn:btih:' if a[4] else '') + spell(a[2], a[3]), None]
                if a[0] == 'bad':
                    return [a[1], a[2], None]
                if a[0] == 'badsrc':
                    return [a[1], 'no url at all' if a[1] in ('xs', 'as_') else [f'{base}/altA/t', 'no url at all'], False]
                fld, what = a[1], a[2]
                if fld in ('xs', 'as_'):
                    return [fld, None if what == 'none' else f'{base}/{what}/t.torrent', True]
                if fld == 'ws':
                    return [fld, [] if what == 'none' else [f'{base}/{what}/t'], True]
                return [fld, {'none': [], 'http': [f'{base}/announce/new'], 'udp': ['udp://127.0.0.1:9/announce'],
                              'both': ['udp://127.0.0.1:9/announce', f'{base}/announce/new']}[what], True]
            own = spell(s['first'], s['n1'])
            kw = {'ws': [], 'tr': []}
            for k, kind in enumerate(s['sources']):
                if kind == 'tr':
                    kw['tr'].append(f'{base}/announce/{k}')
                elif kind == 'ws':
                    kw['ws'].append(f'{base}/s{k}/t')
                else:
                    kw[kind] = f'{base}/s{k}/t.torrent'
            # what every path serves: (path prefix, label), first match wins
            routes = []
            for k, (kind, p) in enumerate(zip(s['sources'], s['payloads'])):
                if kind != 'tr':
                    routes.append([f'/s{k}/t', p])
            trp = next((p for kind, p in zip(s['sources'], s['payloads']) if kind == 'tr'), 'asked')
            if trp == 'asked':
                for lab, hx in (('A', ihA), ('B', ihB)):
                    routes.append(['/file?info_hash=' + urllib.parse.quote_from_bytes(bytes.fromhex(hx)), lab])
            else:
                routes.append(['/file?info_hash=', trp])
            routes += [['/altA/t', 'A'], ['/altB/t', 'B']]
            visits = [{'during': [resolve(a) for a in v['during']], 'inCb': [resolve(a) for a in v['inCb']]} for v in s['visits']]
            res = {'scenario': s, 'own': own, 'kw': kw, 'ihA': ihA, 'ihB': ihB, 'ihC': ihC, 'port': srv.port, 'routes': routes,
                   'visits': visits}
            try:
                m = torf.Magnet(own, **kw)
            except BaseException as e:  # noqa
                res['setup_exc'] = repr(e)
                out.append(res)
                continue

            def tq():
                try:
                    t = m.torrent()
                    return {'torrent_infohash': t.infohash, 'has_pieces': 'pieces' in t.metainfo['info']}
                except BaseException as e:  # noqa
                    return {'torrent_infohash': 'raised:' + type(e).__name__, 'has_pieces': None}

            def fields():
                return {'infohash': m.infohash, 'xs': None if m.xs is None else str(m.xs), 'as_': None if m.as_ is None else str(m.as_),
                        'ws': [str(u) for u in m.ws], 'tr': [str(u) for u in m.tr]}
            if s['pre']:
                srv.hook = None
                srv.routes.clear()
                srv.routes['/'] = bodies[s['first']]
                try:
                    m.get_info(timeout=10)
                except BaseException:  # noqa
                    pass
                res['pre'] = tq()
            srv.routes.clear()
            for prefix, lab in routes:
                srv.routes[prefix] = bodies[lab]

            def call(vis, with_cb):
                log = []

                def perform(tag, idx, acts, stop):
                    for fld, value, _valid in acts:
                        try:
                            setattr(m, fld, value)
                            err = None
                        except BaseException as e:  # noqa
                            err = mg.errkind(e)
                            if stop:
                                log.append([tag, idx, fld, value, err, _valid])
                                raise
                        log.append([tag, idx, fld, value, err, _valid])

                def hook(idx, path):
                    log.append(['req', idx, path])
                    if idx < len(vis):
                        perform('thr', idx, vis[idx]['during'], False)

                def callback(e):
                    idx = len(srv.seen) - 1
                    log.append(['cb', idx, 'connection' if type(e).__name__ == 'ConnectionError' else 'read'])
                    if idx < len(vis):
                        perform('cbact', idx, vis[idx]['inCb'], True)
                srv.seen.clear()
                srv.hook = hook
                try:
                    r = bool(m.get_info(validate=s['validate'], timeout=10, callback=callback if with_cb else None))
                except BaseException as e:  # noqa
                    r = 'raised:' + mg.errkind(e)
                finally:
                    srv.hook = None
                return {'result': r, 'seen': list(srv.seen), 'log': log, 'fields': fields(), 'torrent': tq()}
            res['calls'] = [call(visits, s['cb']), call([], True)]
            out.append(res)
    finally:
        srv.close()
    return out


def _running_judge(res, judged, rule):
    """The property, read directly, over the event log of the calls: every assignment is judged on its own (rejected =>
    error and nothing changes); a readable torrent that arrives is adopted iff (validating) its infohash is the 40-digit
    form of the hash the magnet holds AT THAT MOMENT, otherwise MetainfoError; the call ends there; afterwards
    torrent().infohash is the form of the hash held now and metadata is present iff adopted and not forgotten.
    `rule`: when an accepted assignment forgets adopted metadata (see _gih_stages).  Returns a list of
    (stage, expected, observed) that do not hold."""
    s = res['scenario']
    hexes = {'A': res['ihA'], 'B': res['ihB']}
    own = judged[('infohash', res['own'])]
    cur, cur_hex = res['own'], mg.uncps(own['base16'])
    held = None
    bad = []
    if s['pre']:
        held = hexes[s['first']]
        if res['pre'] != {'torrent_infohash': held, 'has_pieces': True}:
            return [('get_info() before the run (matching torrent at every source)', {'torrent_infohash': held, 'has_pieces': True}, res['pre'])]
    for ci, c in enumerate(res['calls']):
        name = 'get_info() with interleaved operations' if ci == 0 else 'the next plain get_info()'
        pending, ended, cb_raised = None, None, None

        def settle():
            nonlocal pending, ended, held
            if pending is not None and pending in hexes:
                if s['validate'] and hexes[pending] != cur_hex:
                    ended = 'raised:metainfo'
                else:
                    held, ended = hexes[pending], True
            pending = None
        for ev in c['log']:
            if ev[0] in ('req', 'cb'):
                settle()
            if ended is not None or cb_raised is not None:
                bad.append((name + ': the call went on after it had to end (a readable torrent had arrived / the callback raised)',
                            {'ends': ended if ended is not None else 'raised:' + cb_raised}, {'next_event': ev}))
                return bad
            if ev[0] == 'req':
                pending = _run_route_lookup(res['routes'], ev[2])
            elif ev[0] in ('thr', 'cbact'):
                fld, value, err = ev[2], ev[3], ev[4]
                if fld in ('xt', 'infohash'):
                    j = judged[(fld, value)]
                    exp = None if j['accept'] else 'magnet'
                    if exp is None:
                        new, new_hex = mg.uncps(j['state']), mg.uncps(j['base16'])
                        if {'string': new != cur, 'number': new_hex != cur_hex, 'accepted': True}[rule]:
                            held = None
                        cur, cur_hex = new, new_hex
                else:
                    exp = None if ev[5] else 'url'
                if err != exp:
                    bad.append((name + ': an assignment made while the call was running was judged wrongly',
                                {'field': fld, 'value': value, 'error': exp}, {'field': fld, 'value': value, 'error': err}))
                    return bad
                if err is not None and ev[0] == 'cbact':
                    cb_raised = err
        settle()
        if ended is not None:
            results = [ended]
        elif cb_raised is not None:
            results = ['raised:' + cb_raised, bool(held)]     # the property does not say what happens to an exception of the callback
        else:
            results = [bool(held)]
        exp = {'result': results[0] if len(results) == 1 else results, 'infohash': cur,
               'torrent': {'torrent_infohash': held or cur_hex, 'has_pieces': bool(held)}}
        got = {'result': c['result'], 'infohash': c['fields']['infohash'], 'torrent': c['torrent']}
        if c['result'] not in results or got['infohash'] != cur or got['torrent'] != exp['torrent']:
            if held and got['torrent'].get('has_pieces'):
                got['magnet_holds_hex'] = cur_hex
            bad.append((name, exp, got))
            return bad
    return bad


def _run_model_act(a):
    fld, value = a[0], a[1]
    if fld in ('xt', 'infohash'):
        return {'k': fld, 'v': mg.cps(value)}
    if a[2] is False:
        return {'k': 'urlRejected'}
    if fld in ('xs', 'as_'):
        return {'k': fld, 'v': mg.ocps(value)}
    if fld == 'ws':
        return {'k': 'ws', 'v': [mg.cps(u) for u in value]}
    return {'k': 'tr', 'tr': _tr_pairs(value)}


def _tr_pairs(urls):
    out = []
    for u in urls:
        p = urllib.parse.urlparse(u)
        out.append([mg.cps(p.scheme), mg.cps(p.netloc)])
    return out


def eval_running(ctx, drv, scs):
    for i, s in enumerate(scs):
        s.setdefault('seed', ctx.seed * 100043 + i)
    results = [o for ch in common.pmap(_run_running_chunk, common.split(scs, min(common.NPROC, 8))) for o in ch]
    # every assignment judged on its own (fresh object) + the 40-digit form of every hash involved
    keys = {}
    for res in results:
        if 'setup_exc' in res:
            continue
        keys[('infohash', res['own'])] = None
        for v in res['visits']:
            for a in v['during'] + v['inCb']:
                if a[0] in ('xt', 'infohash'):
                    keys[(a[0], a[1])] = None
    klist = list(keys)
    judged = {k: r['spec'] for k, r in zip(klist, drv.run([{'op': 'c14.hash', 'v': mg.cps(v), 'prior': None, 'entry': e}
                                                            for e, v in klist]))}
    reqs = []
    for res in results:
        if 'setup_exc' in res:
            continue
        s, kw = res['scenario'], res['kw']
        base = f'http://127.0.0.1:{res["port"]}'
        hexes = {'A': res['ihA'], 'B': res['ihB']}
        world = [[mg.cps(base + prefix), ({'kind': 'torrent', 'infohash': mg.cps(hexes[lab]), 'nonEmpty': True} if lab in hexes else
                                          {'kind': 'unreadable' if lab == 'garbage' else 'connError'})] for prefix, lab in res['routes']]
        visits = [{'during': [_run_model_act(a) for a in v['during']], 'inCb': [_run_model_act(a) for a in v['inCb']]}
                  for v in res['visits']]
        reqs.append({'op': 'c14.running', 'ih': mg.cps(res['own']), 'info': mg.cps(hexes[s['first']]) if s['pre'] else None,
                     'xs': mg.ocps(kw.get('xs')), 'as_': mg.ocps(kw.get('as_')), 'ws': [mg.cps(u) for u in kw['ws']],
                     'tr': _tr_pairs(kw['tr']),
                     'calls': [{'validate': s['validate'], 'hasCb': s['cb'], 'world': world, 'visits': visits},
                               {'validate': s['validate'], 'hasCb': True, 'world': world, 'visits': []}]})
    reps = iter(drv.run(reqs))
    for res in results:
        s = res['scenario']
        case = dict(s, kind='running')
        nacts = sum(len(v['during']) + len(v['inCb']) for v in s['visits'])
        ctx.case(key=('running', json.dumps({k: v for k, v in s.items() if k != 'seed'}, sort_keys=True)), nontrivial=nacts > 0,
                 kind='running/%s/%s' % ('+'.join(s['sources']), 'cb' if s['cb'] else 'nocb'))
        if 'setup_exc' in res:
            ctx.machinery_error('running scenario could not be set up: ' + res['setup_exc'], case)
            continue
        r = next(reps)
        case.update(own=res['own'], magnet=res['kw'], served=res['routes'],
                    operations=[{'during': [a[:2] for a in v['during']], 'in_callback': [a[:2] for a in v['inCb']]} for v in res['visits']])
        performed = sum(1 for c in res['calls'] for ev in c['log'] if ev[0] in ('thr', 'cbact'))
        if performed:
            ctx.dist['running:operations performed while get_info() was running'] += performed
        if any(ev[0] == 'cbact' and ev[2] in ('xt', 'infohash') and ev[4] is None for ev in res['calls'][0]['log']):
            ctx.dist['running:hash re-assigned by the callback'] += 1
        if any(ev[0] == 'thr' and ev[2] in ('xt', 'infohash') and ev[4] is None for ev in res['calls'][0]['log']):
            ctx.dist['running:hash re-assigned by another thread while a source was answering'] += 1
        bad = _running_judge(res, judged, 'string')
        if bad:
            for rule in ('number', 'accepted'):
                if not _running_judge(res, judged, rule):
                    ctx.dist['running:metadata forgotten by rule "%s" (allowed by the property)' % rule] += 1
                    bad = []
                    break
        if ctx.dist['sampled-running'] < 2 and performed >= 2:
            ctx.dist['sampled-running'] += 1
            ctx.sample({'case': case, 'impl': [{k: c[k] for k in ('result', 'seen', 'torrent')} for c in res['calls']]}, limit=12)
        if bad:
            name, exp, got = bad[0]
            ctx.violation('get_info() while the magnet is re-assigned (by the error callback between two sources / by another thread '
                          'while a source is answering): fetched metadata must be adopted exactly when its infohash denotes the hash '
                          'the magnet holds when the torrent arrives, and torrent().infohash must be the 40-digit form of the hash '
                          'held now - stage "%s"' % name, case, dict(exp, stage=name) if isinstance(exp, dict) else exp,
                          dict(got, stage=name, events=[c['log'] for c in res['calls']]), finding_matchers=MATCHERS)
            continue
        # --- model against specification (C14_getinfo_running_spec / C14_calls_running_spec), the proved invariant
        #     (C14_adopt_current_hash_calls) and the implementation
        if r['hyp'] and r['model'] != r['spec']:
            ctx.machinery_error('running get_info model differs from the specification although C14_calls_running_spec is proved',
                                {'case': case, 'model': r['model'], 'spec': r['spec']})
            continue
        if r['hypAdopt'] and not all(x['ok'] for x in r['model']):
            ctx.machinery_error('model state violates "held metadata denotes the hash held" although C14_adopt_current_hash_calls is proved',
                                {'case': case, 'model': r['model']})
            continue
        base = f'http://127.0.0.1:{res["port"]}'

        def path(u):
            p = urllib.parse.urlsplit(mg.uncps(u))
            return p.path + ('?' + p.query if p.query else '')
        m_obs, i_obs = [], []
        for x, c in zip(r['model'], res['calls']):
            t = x['torrent']
            m_obs.append({'result': ('raised:' + x['err']) if x['err'] is not None else x['info'] is not None,
                          'requests': [path(u) for u in x['requested']], 'callbacks': [path(u) for u in x['cbs']],
                          'other_thread': x['thr'],
                          'fields': {'infohash': mg.uncps(x['hash']), 'xs': mg.uncps(x['src']['xs']), 'as_': mg.uncps(x['src']['as_']),
                                     'ws': [mg.uncps(u) for u in x['src']['ws']], 'tr': x['src']['tr']},
                          'torrent': {'torrent_infohash': mg.uncps(t['base16'].get('ok')) if 'base16' in t else None,
                                      'has_pieces': t.get('withInfo')}})
            thr = [[ev[4] for ev in c['log'] if ev[0] == 'thr' and ev[1] == k] for k in range(len(c['seen']))]
            i_obs.append({'result': c['result'], 'requests': c['seen'],
                          'callbacks': [c['seen'][ev[1]] for ev in c['log'] if ev[0] == 'cb'],
                          'other_thread': thr,
                          'fields': dict(c['fields'], tr=_tr_pairs(c['fields']['tr'])), 'torrent': c['torrent']})
        if m_obs != i_obs:
            ctx.corr_break('c14.running', case, m_obs, i_obs)


# ------------------------------------------------------------------ xl
class _IntLike:
    def __init__(self, n):
        self.n = n

    def __int__(self):
        return self.n

    def __repr__(self):
        return f'_IntLike({self.n})'


def xl_values(rng, n):
    vals = [None, 0, 1, 2, -1, -5, True, False, 10 ** 30, -10 ** 30, 0.5, 0.999, 1.0, 1.5, -0.0, 1e6, 1e300,
            float('inf'), float('-inf'), float('nan'), '12', ' 12 ', '1_0', '١٢', '１２', '', 'abc', '1.5', '0',
            '-3', '+4', '0x10', '9' * 5000, '1e3', b'12', b'', bytearray(b'7'), [], [1], {}, (), object(),
            decimal.Decimal('2.5'), decimal.Decimal('0.5'), decimal.Decimal('NaN'), fractions.Fraction(7, 2),
            fractions.Fraction(1, 2), 1 + 0j, _IntLike(3), _IntLike(0), '\n5\t', '5 5', '٠', '²']
    for _ in range(n):
        r = rng.random()
        if r < 0.4:
            vals.append(rng.randint(-3, 10 ** rng.randint(0, 25)))
        elif r < 0.6:
            vals.append(rng.uniform(-2, 3) * 10 ** rng.randint(0, 12))
        else:
            vals.append(rng.choice(['', ' ', '-', '+']) + str(rng.randint(0, 10 ** rng.randint(0, 12)))
                        + rng.choice(['', ' ', '.0', '_', 'x']))
    return vals


def _int_oracle(v):
    if v is None:
        return None
    try:
        return {'int': int(v)}
    except (ValueError, TypeError, OverflowError):
        return {'raise': True}


def _xl_one(torf, entry, prior, v):
    h = 'ab' * 20
    try:
        if entry == 'ctor':
            m = torf.Magnet(h, xl=v)
        else:
            m = torf.Magnet(h, xl=prior)
            m.xl = v
        return {'outcome': 'ok', 'state': m.xl, 'type_ok': m.xl is None or type(m.xl) is int}
    except BaseException as e:  # noqa
        out = {'outcome': mg.errkind(e)}
        if entry != 'ctor':
            out['state'] = m.xl
        return out


def eval_xl(ctx, drv, scale=1.0):
    torf = common.import_torf()
    rng = ctx.rng
    cases = []
    for v in xl_values(rng, int(ctx.n(400, 20000) * scale)):
        for entry, prior in (('ctor', None), ('set', 7), ('set', None)):
            cases.append((entry, prior, v))
    reqs = [{'op': 'c14.xl', 'prior': prior, 'value': _int_oracle(v)} for entry, prior, v in cases]
    replies = drv.run(reqs)
    for (entry, prior, v), q, r in zip(cases, reqs, replies):
        o = _xl_one(torf, entry, prior, v)
        case = {'kind': 'xl', 'entry': entry, 'prior': prior, 'value': repr(v)[:80], 'int': q['value']}
        ctx.case(key=('xl', entry, prior, repr(v)[:80]), nontrivial=True, kind=f'xl/{type(v).__name__}/{entry}')
        acc = r['spec']['accept']
        exp_state = (None if v is None else q['value']['int']) if acc else prior
        if acc:
            ok = o['outcome'] == 'ok' and o['state'] == exp_state and o['type_ok']
        else:
            ok = o['outcome'] == 'magnet' and (entry == 'ctor' or o['state'] == prior)
        if not ok:
            ctx.violation('xl: a length >= 1 was not stored, or a length < 1 / a value int() cannot convert did not raise '
                          'MagnetError leaving the previous length', case,
                          {'accept': acc, 'state': exp_state}, o, finding_matchers=MATCHERS)
            continue
        m = r['model']
        if (m['err'] is None) != acc or (m['state'] != exp_state):
            ctx.machinery_error('xl model outside spec although C14_xl is proved', case)
        elif (None if o['outcome'] == 'ok' else o['outcome']) != m['err']:
            ctx.corr_break('c14.xl', case, m, o)


# ------------------------------------------------------------------ URL fields
URL_POOL = ['http://good/1', ' http://a/lead',  # D14g witness material first (repaired: must be rejected atomically)
            'http://a/b', 'http://a/b c', 'http://a/b+c', 'https://x.y:80/z', 'udp://t:6969/announce',
            'http://[::1]:80/x', 'ftp://h/', 'http://a:65535/', 'http://a:65536/', 'http://a:port/', 'http://a:-1/',
            'a/b', '', 'http://', 'http:/a/b', '//a/b', 'foo', 'http://a b/c', ' http://a/b', 'http://a/b ',
            'ht tp://a/b', 'http://[::1/x', 'http://a:8 0/', 'http://ä/ü', 'magnet:?xt=1', 'x://y', 'http://a/\n']


def _urls_one(torf, field, prior, vs):
    h = 'ab' * 20
    try:
        m = torf.Magnet(h, **{field: prior})
    except BaseException as e:  # noqa
        return {'outcome': 'setup:' + type(e).__name__}
    single = field in ('xs', 'as_')
    try:
        setattr(m, field, vs[0] if single else vs)
        outcome = 'ok'
    except BaseException as e:  # noqa
        outcome = mg.errkind(e)
    cur = getattr(m, field)
    return {'outcome': outcome, 'state': (None if cur is None else str(cur)) if single else [str(u) for u in cur]}


URL_FIXED = [('tr', ['http://old/0'], ['http://good/1', ' http://a/lead']),          # witness of D14g (repaired)
             ('ws', ['http://old/0'], [' http://a/lead']), ('xs', 'http://old/0', [' http://a/lead']),   # D13e
             ('as_', None, [' http://a/lead']), ('tr', [], [' http://a/lead', 'http://good/1']),
             ('tr', ['http://old/0'], ['http://a/b c', 'http://a/b+c', 'http://a/b c', 'http://good/1']),
             ('ws', ['http://old/0', 'http://old/1'], ['http://good/1', 'http://a b/c']),
             ('tr', ['http://old/0'], []), ('xs', 'http://old/0', ['http://a/b c'])]


def url_cases(ctx, scale=1.0):
    common.import_torf()
    from torf import _utils
    rng = ctx.rng
    cases = list(URL_FIXED)
    good = [u for u in URL_POOL if _utils.is_url(u)]
    stable = [u for u in good if _utils.is_url(u.replace(' ', '+'))]
    for _ in range(int(ctx.n(1500, 60000) * scale)):
        field = rng.choice(['tr', 'ws', 'xs', 'as_'])
        if field in ('xs', 'as_'):
            prior = rng.choice([None, rng.choice(stable)])
            vs = [rng.choice(URL_POOL)]
        else:
            prior = rng.sample(stable, rng.randint(0, 3))
            vs = [rng.choice(URL_POOL if rng.random() < 0.35 else good) for _ in range(rng.randint(0, 5))]
        cases.append((field, prior, vs))
    return cases


def eval_urls(ctx, drv, cases):
    torf = common.import_torf()
    from torf import _utils
    reqs = []
    for field, prior, vs in cases:
        single = field in ('xs', 'as_')
        pl = ([] if prior is None else [prior]) if single else prior
        stored_prior = [p.replace(' ', '+') for p in pl]
        # de-duplicated prior as the list setter stores it
        sp = []
        for p in stored_prior:
            if p not in sp:
                sp.append(p)
        reqs.append({'op': 'c14.urls', 'prior': [mg.cps(p) for p in sp], 'vs': [mg.cps(v) for v in vs],
                     'valid': [mg.cps(v) for v in set(vs) | {v.replace(' ', '+') for v in vs} if _utils.is_url(v)]})
    replies = drv.run(reqs)
    for (field, prior, vs), q, r in zip(cases, reqs, replies):
        single = field in ('xs', 'as_')
        o = _urls_one(torf, field, prior, vs)
        case = {'kind': 'urls', 'field': field, 'prior': prior, 'vs': vs}
        ctx.case(key=('url', field, str(prior), tuple(vs)), nontrivial=True, kind=f'urls/{field}')
        # the property, read directly: a URL is acceptable iff it is valid and what is stored for it (' ' -> '+') is valid
        acc = all(_utils.is_url(v) and _utils.is_url(v.replace(' ', '+')) for v in vs)
        pstate = [mg.uncps(p) for p in q['prior']]
        if single:
            exp = vs[0].replace(' ', '+') if acc else (pstate[0] if pstate else None)
        else:
            exp = []
            for v in ([v.replace(' ', '+') for v in vs] if acc else pstate):
                if v not in exp:
                    exp.append(v)
        ok = (o['outcome'] == ('ok' if acc else 'url')) and o['state'] == exp
        stored = ([] if o.get('state') is None else [o['state']]) if single else (o.get('state') or [])
        if ok and not all(_utils.is_url(u) and ' ' not in u for u in stored):
            ok = False
        if not ok:
            ctx.violation('URL field: valid URLs were not stored (spaces as +, no duplicates, in order), an invalid URL (as '
                          'given or as stored) did not raise URLError leaving the field unchanged, or the field holds an '
                          'invalid URL', case, {'accept': acc, 'state': exp}, o, finding_matchers=MATCHERS)
            continue
        # --- model and Lean specification (C14_urls: accepted iff all urlAccepts, state = keepFirst of the '+' forms)
        m = r['model']['single'] if single else r['model']
        mstate = mg.uncps(m['state']) if single else [mg.uncps(u) for u in m['state']]
        sstate = [mg.uncps(u) for u in r['spec']['state']]
        if (r['spec']['accept'] != acc or (m['err'] is None) != acc or mstate != exp
                or (acc and (sstate[0] if single else sstate) != exp)):
            ctx.machinery_error('URL model outside spec although C14_urls is proved', case)
        elif (None if o['outcome'] == 'ok' else o['outcome']) != m['err'] or mstate != o['state']:
            ctx.corr_break('c14.urls', case, m, o)


# ------------------------------------------------------------------ get_info against a loopback server
def _mk_torrent(torf, name):
    t = torf.Torrent()
    t.metainfo['info'] = {'name': name, 'piece length': 16384, 'length': 5, 'pieces': common.sha1(name.encode())}
    return t.dump(), t.infohash


PAYLOAD_KINDS = ['match', 'mismatch', 'garbage', 'notfound', 'noinfo']


def getinfo_scenarios(ctx, scale=1.0):
    rng = ctx.rng
    sc = []
    for notation in ('hex-lower', 'hex-upper', 'b32-upper', 'b32-lower'):
        for kind in ('xs', 'as_', 'ws', 'tr'):
            for payload in ('match', 'mismatch', 'garbage', 'notfound'):
                sc.append({'notation': notation, 'sources': [(kind, payload)], 'validate': True})
    # tracker request encoding: hashes whose bytes need every branch of quote_from_bytes
    special = [bytes([0x20, 0x2f, 0x7e, 0x2b, 0x25, 0x00, 0xff, 0x41, 0x7a, 0x30, 0x2d, 0x2e, 0x5f, 0x26, 0x3d, 0x3f, 0x23, 0x0a, 0x80, 0x7f]).hex(),
               bytes(range(0x1c, 0x30)).hex(), bytes(range(0x2f, 0x43)).hex(), bytes(range(0x50, 0x64)).hex(),
               bytes(range(0x6c, 0x80)).hex()]
    for hx in special + [bytes(rng.randrange(256) for _ in range(20)).hex() for _ in range(ctx.n(20, 300))]:
        sc.append({'notation': rng.choice(['hex-lower', 'hex-upper', 'b32-upper', 'b32-lower']), 'hash_hex': hx,
                   'sources': [('tr', rng.choice(['notfound', 'garbage', 'mismatch']))], 'validate': True})
    for _ in range(int(ctx.n(60, 500) * scale)):
        n = rng.randint(1, 5)
        srcs = []
        kinds = ['xs', 'as_'] + ['ws'] * 2 + ['tr'] * 2
        rng.shuffle(kinds)
        for k in kinds[:n]:
            srcs.append((k, rng.choice(PAYLOAD_KINDS)))
        # get_info consults xs, as_, ws…, tr… in this order
        order = {'xs': 0, 'as_': 1, 'ws': 2, 'tr': 3}
        srcs.sort(key=lambda s: order[s[0]])
        sc.append({'notation': rng.choice(['hex-lower', 'hex-upper', 'b32-upper', 'b32-lower', 'hex-mixed', 'b32-mixed']),
                   'sources': srcs, 'validate': rng.random() < 0.8,
                   'udp_tracker': rng.random() < 0.3, 'ws_slash': rng.random() < 0.3})
    return sc


def _run_getinfo_chunk(scs):
    torf = common.import_torf()
    srv = mg.TorrentServer()
    out = []
    try:
        good, ih = _mk_torrent(torf, 'matching')
        bad, ih_bad = _mk_torrent(torf, 'other')
        for si, s in enumerate(scs):
            import random
            rng = random.Random(s.get('seed', si))
            ih_s = s.get('hash_hex', ih)          # hash of the magnet (default: the matching torrent's)
            nots = mg.notations(ih_s)
            nots['hex-mixed'] = mg.randcase(rng, ih_s)
            nots['b32-mixed'] = mg.randcase(rng, nots['b32-upper'])
            own = nots[s['notation']]
            srv.routes.clear()
            kw = {'ws': [], 'tr': []}
            served = []
            base = f'http://127.0.0.1:{srv.port}'
            for k, (kind, payload) in enumerate(s['sources']):
                body = {'match': (200, good), 'mismatch': (200, bad), 'garbage': (200, b'this is not bencoded'),
                        'notfound': (404, b''), 'noinfo': (200, b'd3:foo3:bare')}[payload]
                if kind == 'tr':
                    # tracker requests all hit /file?info_hash=… on the same netloc: all trackers of a
                    # scenario share one payload (the last one listed)
                    url = f'http://127.0.0.1:{srv.port}/announce/{k}'
                    kw['tr'].append(url)
                    srv.routes['/file?info_hash='] = body
                    served.append((kind, payload))
                else:
                    path = f'/s{k}/t'
                    url = base + path + ('' if kind == 'ws' else '.torrent')
                    srv.routes[path] = body
                    if kind == 'ws':
                        kw['ws'].append(url + ('/' if s.get('ws_slash') else ''))
                    else:
                        kw[kind] = url
                    served.append((kind, payload))
            if s.get('udp_tracker'):
                kw['tr'].insert(0, 'udp://127.0.0.1:9/announce')
            # all trackers share one payload: make `served` agree with what the server really does
            tr_payload = None
            for kind, payload in s['sources']:
                if kind == 'tr':
                    tr_payload = payload
            served = [(kind, tr_payload if kind == 'tr' else payload) for kind, payload in served]
            srv.seen.clear()
            cb = []
            obs = {}
            try:
                m = torf.Magnet(own, **kw)
                r = m.get_info(validate=s['validate'], timeout=10, callback=lambda e: cb.append(type(e).__name__))
                obs['result'] = bool(r)
            except BaseException as e:  # noqa
                obs['result'] = 'raised:' + mg.errkind(e)
            obs['seen'] = list(srv.seen)
            obs['callbacks'] = cb
            try:
                t = m.torrent()
                obs['torrent_infohash'] = t.infohash
                obs['has_pieces'] = 'pieces' in t.metainfo['info']
                obs['name'] = t.name
            except BaseException as e:  # noqa
                obs['torrent_infohash'] = 'raised:' + type(e).__name__
            out.append({'scenario': s, 'own': own, 'ih': ih, 'own_hex': ih_s, 'ih_bad': ih_bad, 'kw': kw, 'served': served,
                        'port': srv.port, 'obs': obs})
    finally:
        srv.close()
    return out


def eval_getinfo(ctx, drv, scs):
    for i, s in enumerate(scs):
        s['seed'] = ctx.seed * 100003 + i
    results = [o for ch in common.pmap(_run_getinfo_chunk, common.split(scs, min(common.NPROC, 8))) for o in ch]
    reqs = []
    for res in results:
        kw, ih, ih_bad = res['kw'], res['ih'], res['ih_bad']
        served = []
        for kind, payload in res['served']:
            if payload == 'match':
                served.append({'kind': 'torrent', 'infohash': mg.cps(ih), 'nonEmpty': True})
            elif payload == 'mismatch':
                served.append({'kind': 'torrent', 'infohash': mg.cps(ih_bad), 'nonEmpty': True})
            elif payload == 'garbage':
                served.append({'kind': 'unreadable'})
            elif payload == 'noinfo':
                # validate=True: MetainfoError from read_stream (unreadable); validate=False: a torrent
                # whose info is empty is read but nothing is adopted
                if res['scenario']['validate']:
                    served.append({'kind': 'unreadable'})
                else:
                    served.append({'kind': 'torrent', 'infohash': [], 'nonEmpty': False})
            else:
                served.append({'kind': 'connError'})
        tr = []
        for u in kw['tr']:
            p = urllib.parse.urlparse(u)
            tr.append([mg.cps(p.scheme), mg.cps(p.netloc)])
        reqs.append({'op': 'c14.getinfo', 'ih': mg.cps(res['own']), 'xs': mg.ocps(kw.get('xs')),
                     'as_': mg.ocps(kw.get('as_')), 'ws': [mg.cps(u) for u in kw['ws']], 'tr': tr,
                     'validate': res['scenario']['validate'], 'served': served})
    replies = drv.run(reqs)
    for res, q, r in zip(results, reqs, replies):
        s, o = res['scenario'], res['obs']
        case = {'kind': 'getinfo', 'notation': s['notation'], 'own': res['own'], 'sources': [list(x) for x in res['served']],
                'validate': s['validate'], 'udp_tracker': s.get('udp_tracker', False), 'ws_slash': s.get('ws_slash', False)}
        if 'hash_hex' in s:
            case['hash_hex'] = s['hash_hex']
        ctx.case(key=('gi', s['notation'], tuple(res['served']), s['validate'], s.get('hash_hex')), nontrivial=True,
                 kind='getinfo/' + s['notation'] + '/' + '+'.join(k for k, _ in res['served']))
        # --- specification, straight from the property: sources in order; a readable torrent is adopted iff it
        #     denotes the magnet's hash; with validation a readable torrent with another hash raises MetainfoError
        exp = False
        consulted = 0
        adopted = False
        for (kind, payload), match in zip(res['served'], r['spec']['matches']):
            consulted += 1
            if match is None:
                continue
            if payload == 'noinfo':
                continue
            if s['validate'] and not match:
                exp = 'raised:metainfo'
                break
            exp = True
            adopted = True
            break
        want_hex = res['ih'] if (adopted and exp is True and (s['validate'] or True)) else None
        # what torrent() must show afterwards
        if adopted:
            served_hash = res['ih'] if res['served'][consulted - 1][1] == 'match' else res['ih_bad']
            exp_t = {'torrent_infohash': served_hash, 'has_pieces': True}
        else:
            exp_t = {'torrent_infohash': res['own_hex'], 'has_pieces': False}
        enc = urllib.parse.quote_from_bytes(bytes.fromhex(res['own_hex']))
        exp_paths = []
        for k, (kind, payload) in enumerate(res['served'][:consulted]):
            exp_paths.append('/file?info_hash=' + enc if kind == 'tr' else f'/s{k}/t.torrent')
        ok = (o['result'] == exp and o['seen'] == exp_paths
              and o.get('torrent_infohash') == exp_t['torrent_infohash'] and o.get('has_pieces') == exp_t['has_pieces'])
        if len(ctx.samples) < 6:
            ctx.sample({'case': case, 'expected': {'result': exp, 'requests': exp_paths}, 'impl': o})
        if not ok:
            ctx.violation('get_info: fetched metadata must be adopted exactly when its infohash denotes the magnet\'s hash '
                          '(any notation), sources in order, tracker request = %XX-encoding of the 20 hash bytes',
                          case, {'result': exp, 'requests': exp_paths, **exp_t}, o, finding_matchers=MATCHERS)
            continue
        if not r['hyp']:
            continue
        # --- model against spec and implementation
        mres = r['model']['result']
        mk = {'adopted': True, 'nothing': False}.get(mres['kind'], 'raised:' + str(mres.get('err')))
        murls = r['model']['urls'].get('ok')
        if mk != exp or mres['consulted'] != consulted or mg.uncps(r['spec']['hashEnc']) != enc:
            ctx.machinery_error('get_info model outside spec although C14_adopt_iff/C14_adopt_sound are proved',
                                {'case': case, 'model': mres, 'exp': exp, 'consulted': consulted})
            continue
        base = f'http://127.0.0.1:{res["port"]}'
        mpaths = None
        if murls is not None:
            mpaths = []
            for u in [mg.uncps(u) for u in murls][:consulted]:
                p = urllib.parse.urlsplit(u)
                mpaths.append(p.path + ('?' + p.query if p.query else ''))
        if mpaths != o['seen']:
            ctx.corr_break('c14.getinfo', case, {'requests': mpaths, 'result': mres}, o)


# ------------------------------------------------------------------ torrent() in full: own fields x adopted metadata
# The served metadata's SHAPE is a dimension (single-file / multi-file / one-file directory; private, source, md5sum,
# entropy, nested extra keys; name and size agreeing with dn / xl or not), crossed with the magnet's own fields
# (dn / xl / tr / ws / kt present or not) and a history on ONE magnet: torrent() before get_info(), get_info(),
# torrent(), changes of dn / xl / tr / ws, a rejected assignment, an edit of an earlier torrent() result, a re-assignment
# of another hash.  Every torrent() is compared in full: info section, infohash, validate(), trackers, webseeds, name,
# size, and the infohash the result falls back to when its info section is taken away.
AD_SHAPES = ['single', 'multi', 'onefile-dir', 'multi-nested', 'single-tiny']
AD_EXTRAS = ['private1', 'private0', 'source', 'md5sum', 'entropy', 'extra', 'nonascii-name']
AD_EDITS = ['top-name', 'top-add', 'top-del', 'nested', 'trackers', 'replace-info']


def _ad_info(shape, extras, tag):
    """a valid info section of the given shape (plain dict, independent of torf)"""
    name = ('näme ' if 'nonascii-name' in extras else 'name ') + tag
    plen = 16384
    if shape == 'single-tiny':
        sizes = [1]
    elif shape.startswith('single'):
        sizes = [40000]
    elif shape == 'onefile-dir':
        sizes = [70000]
    elif shape == 'multi':
        sizes = [40000, 123, 0]
    else:
        sizes = [5, 16384, 16385, 1]
    total = sum(sizes)
    info = {'name': name, 'piece length': plen,
            'pieces': b''.join(common.sha1(('%s/%d' % (tag, i)).encode()) for i in range(max(1, -(-total // plen))))}
    if shape.startswith('single'):
        info['length'] = total
        if 'md5sum' in extras:
            info['md5sum'] = 'ab' * 16
    else:
        paths = [['a.bin'], ['sub', 'b c.txt'], ['sub', 'deep', 'é'], ['z']]
        info['files'] = []
        for i, n in enumerate(sizes):
            f = {'length': n, 'path': list(paths[i])}
            if 'md5sum' in extras:
                f['md5sum'] = ('%02x' % i) * 16
            info['files'].append(f)
    if 'private1' in extras:
        info['private'] = 1
    elif 'private0' in extras:
        info['private'] = 0
    if 'source' in extras:
        info['source'] = 'SRC ' + tag
    if 'entropy' in extras:
        info['entropy'] = -123456789
    if 'extra' in extras:
        info['x-extra'] = {'k': [1, b'\x00\xff', 'ü', {'n': []}], 'length-like': 7}
    return info, total


def _enc(v):
    """canonical, JSON-able form of a metainfo value (dict keys sorted: dict equality ignores order)"""
    if isinstance(v, bool):
        return ['t', v]
    if isinstance(v, int):
        return ['i', v]
    if isinstance(v, (bytes, bytearray)):
        return ['b', bytes(v).hex()]
    if isinstance(v, str):
        return ['s', mg.cps(v)]
    if isinstance(v, (list, tuple)):
        return ['l', [_enc(x) for x in v]]
    if isinstance(v, dict) or hasattr(v, 'items'):
        return ['d', sorted([[_enc(k), _enc(x)] for k, x in v.items()])]
    return ['?', repr(v)]


def _enc_info(info):
    """top level of an info section: [[key code points, value]] sorted by key"""
    return sorted([[mg.cps(str(k)), _enc(v)] for k, v in info.items()])


def adopt_scenarios(ctx, scale=1.0):
    rng = ctx.rng
    sc = []

    def add(**kw):
        kw.setdefault('extras', [])
        kw.setdefault('notation', 'hex-lower')
        kw.setdefault('via', 'xs')
        kw.setdefault('validate', True)
        kw.setdefault('serve', 'match')
        kw.setdefault('kt', None)
        sc.append(kw)
    # small scope, systematically: shape x (dn, xl) present / absent / agreeing / disagreeing
    for shape in AD_SHAPES:
        for dn in (None, 'same', 'other'):
            for xl in (None, 'same', 'other'):
                add(shape=shape, dn=dn, xl=xl, tr=rng.choice([0, 1, 2]), ws=rng.choice([0, 1]),
                    notation=rng.choice(NOTATIONS), via=rng.choice(['xs', 'as_', 'ws', 'tr']),
                    ops=[['torrent'], ['get_info'], ['torrent'], ['torrent']])
    # Torrent.magnet()'s defaults (dn + xl + trackers) for every shape and extra key, every notation
    for shape in AD_SHAPES:
        for ex in AD_EXTRAS:
            add(shape=shape, extras=[ex], dn='same', xl='same', tr=1, ws=1, notation=rng.choice(NOTATIONS),
                ops=[['get_info'], ['torrent'], ['set', 'dn', 'renamed later'], ['set', 'xl', 1], ['torrent']])
    # an earlier result is edited by the caller, then torrent() again (with and without metadata)
    for shape in AD_SHAPES:
        for ed in AD_EDITS:
            add(shape=shape, dn='other', xl='other', tr=1, ws=1,
                ops=[['torrent'], ['edit', ed], ['torrent'], ['get_info'], ['torrent'], ['edit', ed], ['torrent'],
                     ['assign', 'infohash', 'other'], ['torrent']])
    for _ in range(int(ctx.n(150, 3000) * scale)):
        ops = []
        if rng.random() < 0.5:
            ops.append(['torrent'])
        ops += [['get_info'], ['torrent']]
        if rng.random() < 0.4:
            for _ in range(rng.randint(1, 3)):
                f = rng.choice(['dn', 'xl', 'tr', 'ws'])
                ops.append(['set', f, {'dn': rng.choice([None, 'later name', '', 'a\nb']), 'xl': rng.choice([None, 1, 10 ** 15]),
                                      'tr': rng.choice([None, ['udp://later.example:1/a'], ['http://later.example/1', 'udp://later.example:2/b']]),
                                      'ws': rng.choice([None, ['http://later.example/seed']])}[f]])
            ops.append(['torrent'])
        if rng.random() < 0.3:
            ops += [['assign', rng.choice(['xt', 'infohash']), 'invalid'], ['torrent']]
        if rng.random() < 0.5:
            ops += [['edit', rng.choice(AD_EDITS)], ['torrent']]
        if rng.random() < 0.6:
            ops += [['assign', rng.choice(['xt', 'infohash']), 'other'], ['torrent']]
            if rng.random() < 0.4:
                ops += [['edit', rng.choice(AD_EDITS)], ['torrent']]
        r = rng.random()
        add(shape=rng.choice(AD_SHAPES), extras=rng.sample(AD_EXTRAS, rng.randint(0, 3)),
            dn=rng.choice([None, 'same', 'other', 'empty', 'newline']), xl=rng.choice([None, 'same', 'other', 'one', 'huge']),
            tr=rng.choice([0, 1, 2, 3]), ws=rng.choice([0, 1, 2]), kt=rng.choice([None, ['k1', 'k 2']]),
            notation=rng.choice(NOTATIONS), via=rng.choice(['xs', 'as_', 'ws', 'tr']),
            validate=r >= 0.15, serve='match' if r >= 0.3 or r < 0.08 else rng.choice(['mismatch', 'garbage', 'invalid-info']),
            ops=ops)
    return sc


def _obs_torrent(t):
    """everything the property says about the torrent a magnet converts to (reads only)"""
    o = {}
    try:
        o['info'] = _enc_info(t.metainfo['info'])
    except BaseException as e:  # noqa
        o['info'] = 'raised:' + type(e).__name__
    for k, f in (('infohash', lambda: t.infohash), ('validate', lambda: t.validate() or 'ok'),
                 ('trackers', lambda: [str(u) for u in t.trackers.flat]), ('webseeds', lambda: [str(u) for u in t.webseeds]),
                 ('name', lambda: t.name), ('size', lambda: t.size)):
        try:
            o[k] = f()
        except BaseException as e:  # noqa
            o[k] = 'raised:' + mg.errkind(e)
    return o


def _ad_edit(t, kind):
    """what a caller may do with the torrent it got from torrent()"""
    info = t.metainfo['info']
    if kind == 'top-name':
        t.name = 'edited by the caller'
    elif kind == 'top-add':
        info['added by the caller'] = 1
    elif kind == 'top-del':
        info.pop('pieces', None)
        info.pop('name', None)
    elif kind == 'nested':
        if info.get('files'):
            info['files'][0]['length'] += 1
            info['files'][-1]['path'].append('appended by the caller')
        elif 'x-extra' in info:
            info['x-extra']['k'].append('appended by the caller')
        else:
            info['length'] = info.get('length', 0) + 1
    elif kind == 'trackers':
        t.trackers.append('http://edited.example/announce')
        t.webseeds.append('http://edited.example/seed')
    elif kind == 'replace-info':
        t.metainfo['info'] = {'name': 'replaced by the caller'}


def _run_adopt_chunk(scs):
    import io
    import random
    torf = common.import_torf()
    srv = mg.TorrentServer()
    out = []
    try:
        for s in scs:
            rng = random.Random(s['seed'])
            info, total = _ad_info(s['shape'], s['extras'], 'served')
            other_info, _ = _ad_info('multi' if s['shape'].startswith('single') else 'single', [], 'foreign')
            res = {'scenario': s}
            try:
                src = torf.Torrent()
                src.metainfo['info'] = info
                data, ih = src.dump(), src.infohash
                oth = torf.Torrent()
                oth.metainfo['info'] = other_info
                odata, oih = oth.dump(), oth.infohash
            except BaseException as e:  # noqa
                out.append({'scenario': s, 'setup_exc': repr(e)})
                continue
            body = {'match': data, 'mismatch': odata, 'garbage': b'this is not bencoded',
                    'invalid-info': b'd4:infod4:name1:xee'}[s['serve']]
            # the info section get_info() should adopt: an independent read of the served bytes
            try:
                rd = torf.Torrent.read_stream(io.BytesIO(body), validate=s['validate'])
                served = {'info': _enc_info(rd.metainfo['info']), 'pairs': [[mg.cps(str(k)), _enc(v)] for k, v in rd.metainfo['info'].items()],
                          'nonempty': bool(rd.metainfo['info'])}
                try:
                    served['infohash'] = rd.infohash
                    rd.validate()
                    served['valid'] = True
                except BaseException:  # noqa
                    served['valid'] = False
                    served.setdefault('infohash', None)
                served['name'], served['size'] = rd.name, rd.size
            except BaseException:  # noqa
                served = None
            nots = mg.notations(ih)
            nots['hex-mixed'] = mg.randcase(rng, ih)
            nots['b32-mixed'] = mg.randcase(rng, nots['b32-upper'])
            own = nots[s['notation']]
            base = f'http://127.0.0.1:{srv.port}'
            srv.routes.clear()
            kw = {'dn': {None: None, 'same': info['name'], 'other': 'the magnet\'s own name', 'empty': '', 'newline': 'two\nlines'}[s['dn']],
                  'xl': {None: None, 'same': total, 'other': total + 7, 'one': 1, 'huge': 10 ** 30}[s['xl']],
                  'tr': ['udp://tracker.example:%d/announce' % (6969 + i) for i in range(s['tr'])],
                  'ws': [f'{base}/nothing-here/{i}' for i in range(s['ws'])], 'kt': s['kt']}
            if s['via'] == 'tr':
                kw['tr'].append(f'{base}/announce')
                srv.routes['/file?info_hash='] = (200, body)
            elif s['via'] == 'ws':
                kw['ws'].append(f'{base}/seed/t')
                srv.routes['/seed/t'] = (200, body)
            else:
                kw[s['via']] = f'{base}/src/t.torrent'
                srv.routes['/src/t'] = (200, body)
            res.update(own=own, ih=ih, other_ih=oih, served=served, kw=kw)
            try:
                m = torf.Magnet(own, **kw)
            except BaseException as e:  # noqa
                res['setup_exc'] = repr(e)
                out.append(res)
                continue
            obs, last = [], None
            for op in s['ops']:
                o = {}
                try:
                    if op[0] == 'torrent':
                        last = m.torrent()
                        o = _obs_torrent(last)
                        # the hash the result falls back to once its info section is gone (Torrent.infohash documents the
                        # fallback for torrents made from magnets): on a second result, by assignment, nothing is mutated
                        t2 = m.torrent()
                        t2.metainfo['info'] = {}
                        try:
                            o['infohash_without_info'] = t2.infohash
                        except BaseException as e:  # noqa
                            o['infohash_without_info'] = 'raised:' + mg.errkind(e)
                        o['fields'] = {'dn': m.dn, 'xl': m.xl, 'tr': [str(u) for u in m.tr], 'ws': [str(u) for u in m.ws],
                                       'infohash': m.infohash}
                    elif op[0] == 'get_info':
                        cb = []
                        try:
                            o['result'] = bool(m.get_info(validate=s['validate'], timeout=10, callback=lambda e: cb.append(type(e).__name__)))
                        except BaseException as e:  # noqa
                            o['result'] = 'raised:' + mg.errkind(e)
                    elif op[0] == 'set':
                        setattr(m, op[1], op[2])
                        o['err'] = None
                    elif op[0] == 'assign':
                        v = 'ab' * 20 + 'z' if op[2] == 'invalid' else mg.notations(oih)[rng.choice(['hex-upper', 'b32-lower', 'hex-lower'])]
                        o['v'] = v
                        try:
                            setattr(m, op[1], v)
                            o['err'] = None
                        except BaseException as e:  # noqa
                            o['err'] = mg.errkind(e)
                    elif op[0] == 'edit':
                        if last is not None:
                            _ad_edit(last, op[1])
                            o['edited'] = _obs_torrent(last)
                except BaseException as e:  # noqa
                    o['exc'] = type(e).__name__ + ': ' + str(e)[:100]
                obs.append(o)
            res['obs'] = obs
            out.append(res)
    finally:
        srv.close()
    return out


def eval_adopt(ctx, drv, scs):
    for i, s in enumerate(scs):
        s.setdefault('seed', ctx.seed * 100019 + i)
    results = [o for ch in common.pmap(_run_adopt_chunk, common.split(scs, min(common.NPROC, 8))) for o in ch]
    plans, treq = [], []
    for res in results:
        s = res['scenario']
        if 'setup_exc' in res:
            plans.append(None)
            continue
        served = res['served']
        st = {'hex': res['ih'], 'adopted': None, 'dn': None if res['kw']['dn'] is None else res['kw']['dn'].replace('\n', ' '),
              'xl': res['kw']['xl'], 'tr': list(res['kw']['tr']), 'ws': list(res['kw']['ws'])}
        plan, edited, since_edit = [], None, False
        for op, o in zip(s['ops'], res['obs']):
            if op[0] == 'get_info':
                if st['adopted'] is not None:
                    exp = {'result': True}          # not generated; kept for replayed cases
                elif served is None or not served['nonempty']:
                    exp = {'result': False}
                elif s['validate'] and served['infohash'] != st['hex']:
                    exp = {'result': 'raised:metainfo'}
                else:
                    exp = {'result': True}
                    st['adopted'] = served
                plan.append(('get_info()', exp, None))
            elif op[0] == 'set':
                v = op[2]
                st[op[1]] = (None if v is None else v.replace('\n', ' ')) if op[1] == 'dn' else ([] if v is None else list(v)) if op[1] in ('tr', 'ws') else v
                plan.append(('set ' + op[1], {'err': None}, None))
            elif op[0] == 'assign':
                if op[2] == 'invalid':
                    plan.append(('rejected assignment', {'err': 'magnet'}, None))
                else:
                    st['hex'], st['adopted'] = res['other_ih'], None
                    plan.append(('assignment of another hash', {'err': None}, None))
            elif op[0] == 'edit':
                edited = (op[1], o.get('edited'))
                since_edit = True
                plan.append(('edit', {}, None))
            else:
                ad = st['adopted']
                if ad is not None:
                    exp = {'info': ad['info'], 'trackers': st['tr'], 'webseeds': st['ws'], 'name': ad['name'], 'size': ad['size'],
                           'infohash_without_info': 'raised:metainfo'}
                    if ad['valid']:
                        exp.update(infohash=ad['infohash'], validate='ok')
                    else:
                        exp.update(infohash='raised:metainfo')
                    if s['validate']:
                        exp['infohash'] = st['hex']       # adopted by a validating get_info(): the magnet's own hash
                else:
                    own = {}
                    if st['dn'] is not None:
                        own['name'] = st['dn']
                    if st['xl'] is not None:
                        own['length'] = st['xl']
                    exp = {'info': _enc_info(own), 'trackers': st['tr'], 'webseeds': st['ws'], 'name': st['dn'],
                           'size': st['xl'] or 0, 'infohash': st['hex'], 'infohash_without_info': st['hex']}
                name = ('torrent() after an earlier result was edited by the caller' if since_edit else
                        'torrent() with adopted metadata' if ad is not None else 'torrent() without metadata')
                extra = {'adopted': ad is not None, 'edit': edited[0] if since_edit and edited else None,
                         'info_of_the_edited_result': (edited[1] or {}).get('info') if since_edit and edited else None}
                since_edit = False
                plan.append((name, exp, extra))
                pairs = None if ad is None else ad['pairs']
                treq.append({'op': 'c14.torrent', 'ih': mg.cps(o.get('fields', {}).get('infohash', res['own'])),
                             'dn': mg.ocps(st['dn']), 'xl': st['xl'], 'tr': [mg.cps(u) for u in st['tr']],
                             'ws': [mg.cps(u) for u in st['ws']], 'adopted': pairs,
                             'adoptedHash': mg.ocps(ad['infohash'] if ad is not None and ad['valid'] else None)})
        plans.append(plan)
    trep = iter(drv.run(treq))
    for res, plan in zip(results, plans):
        s = res['scenario']
        case = dict(s, kind='adopt')
        nt = sum(1 for op in s['ops'] if op[0] == 'torrent')
        ctx.case(key=('adopt', s['shape'], tuple(s['extras']), s['dn'], s['xl'], s['tr'], s['ws'], s['notation'], s['via'],
                      s['validate'], s['serve'], json.dumps(s['ops'])), nontrivial=True,
                 kind='adopt/%s/%s' % (s['shape'], 'dn+xl' if s['dn'] and s['xl'] else 'dn' if s['dn'] else 'xl' if s['xl'] else 'bare'))
        if plan is None:
            ctx.machinery_error('adopt scenario could not be set up: ' + res['setup_exc'], case)
            continue
        case.update(own=res['own'], magnet=dict(res['kw'], xl=res['kw']['xl']))
        if ctx.dist['sampled-adopt'] < 2 and s['shape'] != 'single' and s['xl']:
            ctx.dist['sampled-adopt'] += 1
            ctx.sample({'case': case, 'stages': [[n, {k: v for k, v in e.items() if k != 'info'}] for n, e, _ in plan]}, limit=10)
        for k, ((name, exp, extra), o) in enumerate(zip(plan, res['obs'])):
            r = next(trep) if extra is not None else None
            if 'exc' in o:
                ctx.violation('an operation of the history raised', case, {'stage': name, 'step': k}, dict(o, stage=name, step=k),
                              finding_matchers=MATCHERS)
                break
            if any(o.get(f) != v for f, v in exp.items()):
                got = {f: o.get(f) for f in exp}
                got.update(stage=name, step=k, **(extra or {}))
                ctx.violation(
                    'one magnet, step %d of its history, "%s": the torrent it converts to is not the specified one (with adopted '
                    'metadata: info section exactly the adopted one, infohash = 40-digit form of the magnet\'s hash, validates, '
                    'no fallback hash; without: name/size from dn/xl, infohash given explicitly; trackers/webseeds the magnet\'s)'
                    % (k, name), case, dict(exp, stage=name, step=k), got, finding_matchers=MATCHERS)
                break
            if r is None or not r['hyp']:
                continue
            # --- model (torrentOf) against the Lean specification (specTorrent: C14_torrent_after_adoption /
            #     C14_torrent_before_adoption) and against the implementation
            mo = r['model'].get('ok')
            sp = r['spec']
            if mo is None or mo != sp:
                ctx.machinery_error('torrent() model outside spec although C14_torrent_after_adoption / _before_adoption are proved',
                                    {'case': case, 'step': k, 'model': r['model'], 'spec': sp})
                break
            m_obs = {'info': sorted([[p[0], p[1]] for p in mo['info']]), 'trackers': [mg.uncps(u) for u in mo['trackers']],
                     'webseeds': [mg.uncps(u) for u in mo['webseeds']],
                     'infohash': mg.uncps(mo['infohash']['ok']) if 'ok' in mo['infohash'] else 'raised:' + str(mo['infohash'].get('err')),
                     'infohash_without_info': mg.uncps(mo['ownHash']) if mo['ownHash'] is not None else 'raised:metainfo'}
            i_obs = {f: o.get(f) for f in m_obs}
            if m_obs != i_obs:
                ctx.corr_break('c14.torrent', dict(case, step=k), m_obs, i_obs)
                break
        else:
            continue
        # drain the replies of the steps that were not looked at
        for (name, exp, extra) in plan[k + 1:]:
            if extra is not None:
                next(trep)


# ------------------------------------------------------------------ entry points
def run(ctx, drv):
    ctx.notes['rule'] = RULE
    ctx.notes['assumptions'] = [
        'the two regular expressions are modelled by hand (re.match semantics, re.IGNORECASE | re.ASCII: ASCII-only classes and '
        'literals); the model is tied to the real patterns only by this differential run',
        'int() is an oracle: the harness evaluates the real int(value) and gives the model its result',
        'utils.is_url is a predicate parameter evaluated by the real function',
        'base64.b32decode / b16encode / str.upper / str.lower are modelled on ASCII input (every accepted hash is ASCII: '
        'C14_accept_iff_xt / _infohash)',
        'get_info: download outcomes are parameters of the model (connection error / unreadable / torrent with infohash); '
        'timeouts never expire in the scenarios; Torrent.infohash of a served torrent is 40 lower-case hex digits; adopted '
        'metadata is represented by the infohash of the torrent it was taken from',
        'get_info() with interleaved operations: the world (URL prefix -> what is served), the operations of the callback per '
        'source position and of the other thread per source position are inputs of the model; the other thread acts after the '
        'request was sent and before the answer is looked at (realised inside the server handler: get_info() is blocked in '
        'read() meanwhile); accepted assignments to xs/as_/ws/tr are given to the model as the stored values (C14_urls is about '
        'their validation); what happens to an exception leaving the callback and how many sources are consulted while '
        'metadata is held are fixed by the model only',
        'when adopted metadata is forgotten: the model follows the code (stored string changes); the property is met by any rule '
        'between "the denoted hash changes" and "every accepted assignment"; get_info() on a magnet that still holds metadata is '
        'fixed by the model only (judged weakly against the property)',
        'values are str (non-str values go through str(value) first, as in the setters)',
        'torrent() in full: "validate() + SHA-1 of the bencoded info section" (Torrent.infohash) is an oracle of the model: the '
        'adopted info section hashes to the infohash of an independent read of the served bytes, an info section made of dn/xl '
        'alone does not validate; values inside the info section are opaque to the model',
    ]
    for c in mg.corpus_cases('C14'):          # past failures first
        ctx.dist['corpus'] += 1
        _eval_case(ctx, drv, c)
    eval_hash(ctx, drv, hash_cases(ctx))
    eval_history(ctx, drv, history_cases(ctx))
    eval_use(ctx, drv, use_cases(ctx))
    eval_xl(ctx, drv)
    eval_urls(ctx, drv, url_cases(ctx))
    eval_getinfo(ctx, drv, getinfo_scenarios(ctx))
    eval_gih(ctx, drv, gih_scenarios(ctx))
    eval_running(ctx, drv, running_scenarios(ctx))
    eval_adopt(ctx, drv, adopt_scenarios(ctx))
    ctx.exhaustive = False
    for f in ctx.open_findings():
        if f['id'] not in ctx.known:
            ctx.not_reproduced.append(f['id'])


def search(ctx, drv):
    eval_hash(ctx, drv, hash_cases(ctx, scale=3.0))
    eval_history(ctx, drv, history_cases(ctx, scale=3.0))
    eval_use(ctx, drv, use_cases(ctx, scale=3.0))
    eval_urls(ctx, drv, url_cases(ctx, scale=3.0))
    eval_getinfo(ctx, drv, getinfo_scenarios(ctx, scale=3.0))
    eval_gih(ctx, drv, gih_scenarios(ctx, scale=3.0))
    eval_running(ctx, drv, running_scenarios(ctx, scale=3.0))
    eval_adopt(ctx, drv, adopt_scenarios(ctx, scale=3.0))


def _eval_case(ctx, drv, c):
    k = c.get('kind')
    if k == 'use' or (k == 'hash' and 'use_history' in c):
        h = c.get('use_history', c)
        eval_use(ctx, drv, [{'prior': h['prior'], 'ops': [list(x) for x in h['ops']]}])
    elif k == 'getinfo-history':
        eval_gih(ctx, drv, [{key: c[key] for key in ('first', 'n1', 'sources', 'p1', 'reassign', 'p2', 'validate', 'tq', 'seed')
                             if key in c}])
    elif k == 'running':
        eval_running(ctx, drv, [{key: c[key] for key in ('first', 'n1', 'sources', 'payloads', 'visits', 'validate', 'cb', 'pre', 'seed')
                                 if key in c}])
    elif k == 'hash':
        if 'history' in c:
            h = c['history']
            eval_history(ctx, drv, [{'prior': h['prior'], 'ops': [tuple(x) for x in h['ops']]}])
        else:
            eval_hash(ctx, drv, [{'entry': c['entry'], 'prior': c['prior'], 'prior_kind': '', 'v': c['v'], 'label': 'replay'}])
    elif k == 'history':
        eval_history(ctx, drv, [{'prior': c['prior'], 'ops': [tuple(x) for x in c['ops']]}])
    elif k == 'getinfo':
        eval_getinfo(ctx, drv, [{'notation': c['notation'], 'sources': [tuple(x) for x in c['sources']],
                                 'validate': c['validate'], 'udp_tracker': c.get('udp_tracker', False),
                                 'ws_slash': c.get('ws_slash', False),
                                 **({'hash_hex': c['hash_hex']} if 'hash_hex' in c else {})}])
    elif k == 'adopt':
        eval_adopt(ctx, drv, [{key: c[key] for key in ('shape', 'extras', 'dn', 'xl', 'tr', 'ws', 'kt', 'notation', 'via', 'validate',
                                                       'serve', 'ops', 'seed') if key in c}])
    elif k == 'urls':
        eval_urls(ctx, drv, [(c['field'], c['prior'], list(c['vs']))])
    else:
        # xl cases carry Python values by repr only: re-run the whole (deterministic) stream
        eval_xl(ctx, drv)


def replay(ctx, drv, rp):
    _eval_case(ctx, drv, rp['case'])
    return {'fails': bool(ctx.violations or ctx.known or ctx.corr_breaks), 'violations': ctx.violations,
            'known': list(ctx.known), 'corr_breaks': ctx.corr_breaks}
