"""
C15 — created torrents depend only on the content tree and the settings.

One *group* = one (tree, settings) pair.  The tree is created on tmpfs at two locations and
addressed through many (working directory, spelling, os.walk order) *variants*.  For every
variant the real `torf.Torrent(path, exclude_globs=…, …)` is run in a worker process (chdir,
shuffled `os.walk`) and compared with
  S  the Lean specification `Spec.created tree settings` (no environment at all), and
  M  the code-shaped Lean model `pathSetter` run in the same environment (cwd, spelling, walk
     order, the scratch file system),
under the hypothesis `hyp` of theorem `C15_created_env` (well-formedness of environment and tree
only; it holds for every variant the harness builds).  `casefold`, `fnmatch` and
`re.search` are oracle tables computed here for exactly the strings the model/spec ask for
(`c15.queries`).  `utils.list_files` is tied to the model's `listFiles` separately.

Empty files (since /repo d89a92e `_set_files` drops them itself, by the size it knows and
`os.path.exists` of the path as listed) are judged like everything else: from every cwd, under every
spelling, with and without unrelated same-named files below the cwd; `empty_family()` is a fixed
set of such trees that runs on every seed.  The `files` setter (outside C15's statement) is tied
to the model `filesSetter` as correspondence only (`c15.files`).

Names are opaque (round 6): file and directory names that some layer between the caller and the OS
could interpret (`~`, `~user`, `$HOME`, `${X}`, `%s`, `{0}`, `*`, `?`, `[a]`, `!x`, `-x`, `#`, leading /
trailing space, trailing dot, backslash, colon, `.torrent`, quotes, shell operators …) occur as tree
names, as names of the directories above the tree (so that they are the *first segment* of a relative
spelling), and nested; every variant runs under a process environment of its own (`penv`: $HOME a
scratch directory that holds other files of the same names / an empty one / a missing one, $USER,
and every variable a name mentions set to a directory that exists).  Every spelling must give the
absolute-path result (= the Lean specification, `C15_eq_absolute`); `special_family()` is the
fixed part, and each of its trees has a *twin* with all names replaced by plain ones in an order-
and dot-preserving way whose results must be the renamed results (`C15_names_opaque`, op
`c15.opaque`).
"""
import fnmatch
import hashlib
import json
import os
import random
import re
import shutil

from harness import common

RULE = ('groups = (tree, pattern settings); trees: <= 12 files, nesting <= 3, hidden files/dirs at '
        'top level and below, empty files, case variants (a/B.txt vs A/b.txt), names with spaces / '
        'unicode / characters sorting around "/", single-directory and single-file trees, hidden or '
        'dotted root names; each group at 2 tmpfs locations x ~30 (cwd, spelling) variants (parent / '
        'tree / child / grandchild / unrelated cwd; T, ./T, T/, T//, absolute, //absolute, ../P/T, '
        'abs with .., ., ./, .//., .., ../, ../., ./.., ../../T, child/.., ../.., ../T/child/.., ../../../T/c/g/../..) x shuffled os.walk order; '
        'a fixed family of trees with empty files (top level, nested, in hidden directories, the only file, '
        'all files, matched by an include pattern, with unrelated same-named empty / non-empty files and '
        'directories below the cwd) under all variants; '
        'histories: one Torrent object through 3-8 operations (constructor with/without path and patterns, path = '
        'dir / file / empty dir / missing / None, every list operation on the four pattern lists: assignment, append, '
        'extend, +=, insert, remove, pop, clear, item assignment / deletion, reverse), biased towards states in which '
        'every file is excluded, each state compared with a fresh Torrent(path, current patterns) and the Lean trace; '
        'names that a shell / expanduser / expandvars / glob / format / option layer could interpret (~ ~user $HOME ${X} %s {0} * ? [a] '
        '!x -x # " x" "x " x. \\ : .torrent quotes ; | & ` $( ) < > tab newline) as tree name, as the name of the directory above '
        'the tree (first segment of a relative spelling from the grandparent directory), and nested, in a fixed family '
        '(every such name: all variants under the decoy environment, a fifth of them also under each of the other two) and in ~1/3 of the random groups; every variant runs under '
        'one of 3 process environments (HOME = scratch directory with same-named other files / empty / missing; USER; every '
        'variable mentioned in a name set to an existing directory); each tree of the fixed family also as a twin with plain '
        'names (order- and dot-preserving renaming), results compared modulo the renaming; '
        'non-trivial = tree with >= 2 files addressed other than by its bare name from its parent / history with a '
        'pattern change; distinct = distinct (tree, settings, location, cwd, spelling) / distinct (world, history)')

ASSUMPTIONS = [
    'POSIX path semantics (pathlib/os.path) modelled on component lists; no symbolic links (".." is lexical); "//" root treated as "/"',
    'os.walk order is an arbitrary permutation (exercised by shuffling dirnames/filenames in the worker)',
    'str.casefold, fnmatch.fnmatch and re.search are oracle parameters of the model; the harness evaluates the real functions on the strings the model queries',
    'piece length is not modelled: it must be equal for all variants of a group that meet the specification',
    'in the empty result (no file kept) info has neither files nor length; the lazily defaulted Torrent.name is not observed',
    'files are readable (permission errors are C08/ReadError territory)',
    'the process environment (HOME, USER, LOGNAME, variables named in file names) is an input of the real run only: the model has no '
    'access to it (Env = cwd, spelling, listing order, os.path.exists), so any dependence on it is a deviation; HOME is never the real '
    'home directory and never unset (a layer that expands ~ must not be led to walk /root)',
    'os.path.exists agrees with what os.walk has just listed (no change of the file system between the two; hypothesis listedExist)',
    'histories: the world is static (no chdir, no change of the trees between operations); settings = the four pattern lists and path; '
    'the callback firings of a list operation are recorded from the running object (subclass overriding _filters_changed), '
    'which firings an operation produces is MonitoredList semantics (C09/C16); history patterns are an ASCII / *-only / literal-regex '
    'fragment that the Lean driver evaluates itself',
]

# ------------------------------------------------------------------------------------------
# generators

ROOT_NAMES = ['T', 'T', 'T', '.T', 'My Tree', 'Ünï', 'T.', 'a-b', 'ẞtraße', 't..']
DIR_NAMES = ['sub', 'Sub', 'a', 'A', '.hid', '.git', 'x y', 'd-1', 'ü', 'z', 'T', 'a!', 'a0']
FILE_NAMES = ['a.txt', 'A.TXT', 'b.txt', 'B.txt', 'b.TXT', 'c.dat', '.hidden', '.a.txt', 'read me',
              'README', 'readme', 'é.txt', 'É.txt', 'x', 'X', 'a', 'a-b', 'a!b', 'a0', '日本.txt', 'ß', 'SS',
              '...', 'e', 'T']


# names that some layer could interpret: home-directory expansion, variable expansion, format
# strings, glob / regex syntax, history / option / comment characters of shells, white space,
# Windows-isms, the library's own suffix.  `~nobody` has a passwd entry whose home directory does not
# exist, `~games` / `~backup` entries whose home directories exist and are empty (Debian).
SPECIAL_NAMES = [
    '~', '~nobody', '~games', '~backup', '~nosuchuser', '~+', '~-', '~0', 'a~', '~.txt',
    '$HOME', '${HOME}', '$X', '${X}', '$USER', '%HOME%', '$$', '$', '$(id)', '`id`',
    '%s', '%(a)s', '%d', '%', '%%', '{0}', '{}', '{name}', '{abs}', '{', '}',
    '*', '**', '?', '[a]', '[!a]', '[', ']', 'a*', '*.txt', '?.txt', '(a|b)', '.*', '^a', 'a$', '+',
    '!x', '!', '-x', '--help', '-', '--', '#', '#x', ' lead', 'trail ', ' ', '  ', 'a b ', 'dot.', 'dots..', '....',
    '\\', 'a\\b', '\\n', ':', 'a:b', 'C:', '.torrent', 'x.torrent', 'torrent', '&', ';', '|', '"', "'", '<', '>', 'a\tb', 'a\nb',
    '@', '=', ',', '~a', 'NUL', 'con',
]
# what has to exist beside a special name so that an interpreting layer finds something else
SPECIAL_SIBLINGS = {'[a]': 'a', '[!a]': 'b', '?': 'x', '?.txt': 'a.txt', '*.txt': 'a.txt', 'a*': 'ab', ' lead': 'lead',
                    'trail ': 'trail', 'a b ': 'a b', 'dot.': 'dot', 'dots..': 'dots', '(a|b)': 'a', '.*': 'zz', '^a': 'a',
                    'a$': 'a', '\\n': 'n', 'a\\b': 'ab', '%s': 's', '%%': '%', '$$': '$', '{name}': 'name', '--': '-',
                    ' ': 'x', '  ': ' ', '~a': 'a'}


def gen_tree(rng, shape, special=False):
    roots, dnames, fnames = ROOT_NAMES, DIR_NAMES, FILE_NAMES
    if special:
        sp = rng.sample(SPECIAL_NAMES, 6)
        roots = sp[:2] + ['T']
        dnames = sp[1:4] + rng.sample(DIR_NAMES, 4)
        fnames = sp[2:6] + [SPECIAL_SIBLINGS.get(x, 'a') for x in sp[1:4]] + rng.sample(FILE_NAMES, 5)
    name = rng.choice(roots)
    if shape == 'file':
        return {'name': rng.choice(sp[:3] if special else ['a.txt', '.hidden', 'B.TXT', 'x y', 'ü.dat', 'f.']),
                'files': [{'rel': [], 'size': rng.choice([0, 1, 5, 40])}], 'dirs': []}
    files = {}
    n = {'empty-tree': 0, 'single-file-in-dir': 1}.get(shape, rng.randint(2, 12))
    top = rng.choice(dnames)
    tries = 0
    while len(files) < n and tries < 200:
        tries += 1
        depth = rng.choice([0, 0, 1, 1, 2, 3])
        if shape == 'single-dir':
            depth = max(depth, 1)
        if shape == 'single-file-in-dir':
            depth = rng.choice([0, 1, 2])
        dirs = [rng.choice(dnames) for _ in range(depth)]
        if shape == 'single-dir' and dirs:
            dirs[0] = top
        if shape == 'all-hidden':
            if dirs and rng.random() < 0.7:
                dirs[rng.randrange(len(dirs))] = rng.choice(['.hid', '.git'])
                fn = rng.choice(fnames)
            else:
                fn = rng.choice(['.hidden', '.a.txt'])
            if rng.random() < 0.5 and dirs:
                dirs[0] = '.hid'
        else:
            fn = rng.choice(fnames)
        rel = tuple(dirs + [fn])
        # a path is either a file or a directory
        if any(rel[:k] in files for k in range(1, len(rel))):
            continue
        if any(other[:len(rel)] == rel for other in files):
            continue
        size = 0 if rng.random() < (0.9 if shape == 'all-empty' else 0.2) else rng.choice([1, 2, 3, 7, 20, 40])
        files[rel] = size
    flist = [{'rel': list(r), 'size': s} for r, s in files.items()]
    rng.shuffle(flist)
    dirs = []
    if rng.random() < 0.15:
        d = [rng.choice(['emptydir', '.emptyhid'])]
        if not any(tuple(f['rel'][:1]) == tuple(d) for f in flist):
            dirs.append(d)
    return {'name': name, 'files': flist, 'dirs': dirs}


def flipcase(rng, s):
    return ''.join((c.upper() if rng.random() < 0.5 else c.lower()) for c in s)


def gen_settings(rng, tree):
    st = {'exg': [], 'exr': [], 'ing': [], 'inr': []}
    if rng.random() < 0.35:
        return st
    name = tree['name']
    rels = [f['rel'] for f in tree['files']] or [['x']]

    def a_glob():
        rel = rng.choice(rels)
        full = '/'.join([name] + rel)
        k = rng.randrange(9)
        if k == 0:
            return flipcase(rng, full)
        if k == 1:
            return '*/' + flipcase(rng, rel[-1]) if rel else flipcase(rng, name)
        if k == 2:
            return flipcase(rng, name) + '/' + (rel[0] if rel else '') + '*'
        if k == 3:
            return '*.' + flipcase(rng, 'txt')
        if k == 4:
            return '*' + flipcase(rng, (rel[-1] if rel else name)[:2]) + '*'
        if k == 5:
            return name + '/?' + (rel[0][1:] if rel else '')
        if k == 6:
            return '*.[tT]xt'
        if k == 7:
            return '*/' + '/'.join(rel[:-1]) + '/*' if len(rel) > 1 else name + '/*'
        return flipcase(rng, rel[-1] if rel else name)

    def a_regex():
        rel = rng.choice(rels)
        last = rel[-1] if rel else name
        k = rng.randrange(8)
        if k == 0:
            return re.escape(last) + '$'
        if k == 1:
            return '^' + re.escape(name) + '/' + (re.escape(rel[0]) if rel else '')
        if k == 2:
            return '(?i)' + re.escape(flipcase(rng, last))
        if k == 3:
            return '[A-Z]'
        if k == 4:
            return re.escape(flipcase(rng, last))
        if k == 5:
            return r'\.txt$'
        if k == 6:
            return '^' + re.escape('/'.join([name] + rel)) + '$'
        return '/' + re.escape(rel[0]) + '/' if len(rel) > 1 else '^[^/]+$'

    for key, p, fn in (('exg', 0.6, a_glob), ('exr', 0.4, a_regex), ('ing', 0.35, a_glob), ('inr', 0.25, a_regex)):
        if rng.random() < p:
            st[key] = [fn() for _ in range(rng.randint(1, 2))]
    if rng.random() < 0.2 and st['exg']:      # include overriding exclude with the same pattern
        st['ing'].append(flipcase(rng, st['exg'][0]))
    return st


def first_dirs(tree):
    """directories of the tree that contain files: (child, grandchild) relative component lists"""
    child = grand = None
    for f in tree['files']:
        if len(f['rel']) >= 2 and child is None:
            child = f['rel'][:1]
        if len(f['rel']) >= 3 and grand is None:
            grand = f['rel'][:2]
    return child, grand


PENVS = ['decoy', 'void', 'gone']


def variants_for(tree, rng, full=True, penvs=None):
    """symbolic variants: cwd in {grandparent, parent, tree, child, grand, unrelated}, spelling templates
    with the placeholders {abs} {name} {P} {absdd} {abs_up} {rel_from_U} {child} {grand} (substituted in
    one pass, so names that contain braces are never re-read), and the process environment `penv`
    the variant runs under (`penvs`: None = one at random, else the cross product)"""
    isfile = any(not f['rel'] for f in tree['files'])
    v = []
    par = ['{name}', './{name}', '{abs}', '../{P}/{name}', './/{name}', '{absdd}', '{abs_up}']
    if not isfile:
        par += ['{name}/', '{name}//', './/{name}/.', '{abs}/', '{abs}/.']
    for s in par:
        v.append(('parent', s))
    v.append(('unrelated', '{abs}'))
    v.append(('unrelated', '{rel_from_U}'))
    v.append(('unrelated', '/{abs}'))
    # the name of the directory above the tree as the first segment
    v.append(('grandparent', '{P}/{name}'))
    v.append(('grandparent', './{P}/../{P}/{name}'))
    if not isfile:
        v.append(('grandparent', '{P}/{name}/'))
        v.append(('grandparent', '{P}/./{name}/.'))
        for s in ['.', './', './/.', '../{name}', '{abs}']:
            v.append(('tree', s))
        child, grand = first_dirs(tree)
        if child:
            v.append(('parent', '{name}/{child}/..'))
            v.append(('tree', '{child}/..'))
            for s in ['..', '../', '../.', './..', '../../{name}', '{abs}', '../{child}/..',
                      '../../../{P}/{name}/', '.././{child}/../.']:
                v.append(('child', s))
            v.append(('tree', '../{name}/{child}/..'))
            v.append(('parent', './{name}/{child}/.././'))
            v.append(('unrelated', '{rel_from_U}/{child}/..'))
            v.append(('grandparent', '{P}/{name}/{child}/..'))
        if grand:
            for s in ['../..', '../../.', '../../../{name}', '../../../{name}/{grand}/../..']:
                v.append(('grand', s))
            v.append(('tree', '{grand}/../..'))
    if not full:
        rng.shuffle(v)
        v = v[:8]
    out = []
    for c, s in v:
        for pe in (penvs or [rng.choice(PENVS)]):
            out.append({'cwd': c, 'spelling': s, 'wseed': rng.randrange(1 << 30), 'penv': pe})
    return out


SHAPES = ['multi'] * 6 + ['single-dir'] * 2 + ['single-file-in-dir', 'file', 'all-hidden', 'all-empty', 'empty-tree']


def gen_group(rng, gid):
    shape = rng.choice(SHAPES)
    special = rng.random() < 0.35
    tree = gen_tree(rng, shape, special)
    st = gen_settings(rng, tree)
    decoy = []
    if tree['files'] and rng.random() < 0.25:
        for f in rng.sample(tree['files'], min(2, len(tree['files']))):
            if f['rel']:
                decoy.append({'rel': f['rel'], 'size': rng.choice([0, 0, 3])})
    g = {'gid': gid, 'shape': shape + ('+names' if special else ''), 'tree': tree, 'st': st, 'decoy': decoy,
         'variants': variants_for(tree, rng), 'locs': [0, 1]}
    if special:                       # the directory above the tree has such a name as well
        g['parents'] = [['loc1', rng.choice(SPECIAL_NAMES)], ['deep', rng.choice(SPECIAL_NAMES), 'Other Parent', 'x']]
    return g


# ------------------------------------------------------------------------------------------
# real-code side (worker process)

LOC_PARENTS = [['loc1', 'P'], ['deep', '.cache', 'Other Parent', 'x']]


def _write(path, size, seed):
    os.makedirs(os.path.dirname(path), exist_ok=True)
    with open(path, 'wb') as f:
        f.write(random.Random(seed).randbytes(size))


def _comps(p):
    return [c for c in p.split('/') if c]


def build_fs(root, group):
    """create the tree at both locations (+ decoys below the unrelated directory); return
    (locs, U, fs entries [[abs comps, size|None]])"""
    tree = group['tree']
    fs = []
    locs = []
    parents = group.get('parents') or LOC_PARENTS
    for li in group['locs']:
        parent = os.path.join(root, *parents[li])
        os.makedirs(parent, exist_ok=True)
        loc = os.path.join(parent, tree['name'])
        for f in tree['files']:
            p = os.path.join(loc, *f['rel']) if f['rel'] else loc
            _write(p, f['size'], '/'.join(f['rel']))
            fs.append([_comps(p), f['size']])
        if not any(not f['rel'] for f in tree['files']):
            os.makedirs(loc, exist_ok=True)
            fs.append([_comps(loc), None])
        for d in tree.get('dirs', []):
            p = os.path.join(loc, *d)
            os.makedirs(p, exist_ok=True)
            fs.append([_comps(p), None])
        locs.append(loc)
    U = os.path.join(root, 'U')
    os.makedirs(U, exist_ok=True)
    fs.append([_comps(U), None])
    for d in group.get('decoy', []):
        p = os.path.join(U, tree['name'], *d['rel'])
        if d['size'] is None:                 # an unrelated *directory* of that name
            os.makedirs(p, exist_ok=True)
        else:
            _write(p, d['size'], 'decoy')
        fs.append([_comps(p), d['size']])
    # home directories for the process environments: H holds *other* files under the names of the
    # tree's entries (below H itself and below H/<tree name>), H0 is empty, H/../no-such-home is missing
    H = os.path.join(root, 'H')
    os.makedirs(os.path.join(root, 'H0'), exist_ok=True)
    os.makedirs(H, exist_ok=True)
    fs.append([_comps(H), None])
    fs.append([_comps(os.path.join(root, 'H0')), None])
    for base, extra in ((H, 1), (os.path.join(H, tree['name']), 2)):
        for f in tree['files'][:6]:
            p = os.path.join(base, *f['rel']) if f['rel'] else base
            if os.path.lexists(p) or not p.startswith(H + '/'):
                continue
            try:
                _write(p, f['size'] + extra, 'home')
            except OSError:          # a file where a directory is needed (H/<name> is a file tree)
                continue
            fs.append([_comps(p), f['size'] + extra])
    return locs, U, fs


_VAR_RX = re.compile(r'\$\{?([A-Za-z_][A-Za-z0-9_]*)\}?|%([A-Za-z_][A-Za-z0-9_]*)%')


def penv_for(kind, root, group):
    """the process environment of a variant: (variables to set, variables to remove)"""
    names = {group['tree']['name']}
    for f in group['tree']['files']:
        names.update(f['rel'])
    for pp in group.get('parents') or []:
        names.update(pp)
    mentioned = {'X', 'HOME'}
    for n in names:
        for m in _VAR_RX.finditer(n):
            mentioned.add(m.group(1) or m.group(2))
    mentioned -= {'PATH', 'PYTHONPATH', 'VERIF_REPO', 'VERIF_SCRATCH'}
    if kind == 'decoy':
        home = os.path.join(root, 'H')
        return dict({k: home for k in mentioned}, HOME=home, USER='nobody', LOGNAME='nobody'), []
    if kind == 'void':
        home = os.path.join(root, 'H0')
        return dict({k: home for k in mentioned}, HOME=home, USER='games', LOGNAME='games'), []
    # 'gone' (also the default for recorded cases without a penv): a home directory that does not exist
    return {'HOME': os.path.join(root, 'no-such-home'), 'USER': 'nosuchuser', 'LOGNAME': 'nosuchuser'}, \
        sorted(mentioned - {'HOME'})


_PLACEHOLDER = re.compile(r'\{(abs|name|P|absdd|abs_up|rel_from_U|child|grand)\}')


def resolve_variant(v, loc, U, tree):
    parent = os.path.dirname(loc)
    name = tree['name']
    child, grand = first_dirs(tree)
    if v['cwd'] == 'parent':
        cwd = parent
    elif v['cwd'] == 'grandparent':
        cwd = os.path.dirname(parent)
    elif v['cwd'] == 'tree':
        cwd = loc
    elif v['cwd'] == 'unrelated':
        cwd = U
    elif v['cwd'] == 'child':
        cwd = os.path.join(loc, *child)
    elif v['cwd'] == 'grand':
        cwd = os.path.join(loc, *grand)
    else:                                  # recorded cases: 'child:<relative path>'
        cwd = os.path.join(loc, v['cwd'].split(':', 1)[1])
    P = os.path.basename(parent)
    val = {'abs': loc, 'name': name, 'P': P,
           'absdd': parent.replace('/', '//') + '//' + name,
           'abs_up': os.path.join(parent, '..', P, name),
           'rel_from_U': os.path.relpath(loc, U),
           'child': '/'.join(child or []), 'grand': '/'.join(grand or [])}
    # one pass: what is substituted is never read again (names may contain braces)
    spelling = _PLACEHOLDER.sub(lambda m: val[m.group(1)], v['spelling'])
    return cwd, spelling


def observe(torf, spelling, st, thorough):
    obs = {}
    try:
        t = torf.Torrent(spelling, exclude_globs=st['exg'], exclude_regexs=st['exr'],
                         include_globs=st['ing'], include_regexs=st['inr'])
        info = t.metainfo['info']
        if 'files' in info:
            obs['created'] = {'kind': 'multi', 'name': info.get('name'),
                              'files': [[list(fi['path']), fi['length']] for fi in info['files']]}
        elif 'length' in info:
            obs['created'] = {'kind': 'single', 'name': info.get('name'), 'size': info['length']}
        else:
            obs['created'] = {'kind': 'empty'}
        obs['piece_length'] = info.get('piece length')
        obs['files'] = [[str(f), f.size] for f in t.files]
        if thorough and obs['created']['kind'] != 'empty':
            # hashing is a second observable; its failure must not hide what was created
            try:
                t.generate()
                obs['infohash'] = t.infohash
            except BaseException as e:  # noqa
                obs['infohash'] = 'raised ' + type(e).__name__
    except BaseException as e:  # noqa
        obs['created'] = {'kind': 'error', 'err': type(e).__name__}
        obs['exc'] = f'{type(e).__name__}: {e}'[:200]
    return obs


def _run_groups(groups):
    torf = common.import_torf()
    import pathlib
    from torf import _utils
    wd = common.worker_dir()
    real_walk = os.walk
    home = os.getcwd()
    out = []
    state = {'seed': 0, 'rec': None}

    def walk(top, topdown=True, onerror=None, followlinks=False):
        for dp, dn, fn in real_walk(top, topdown, onerror, followlinks):
            r = random.Random(f"{state['seed']}/{dp}")
            r.shuffle(dn)
            r.shuffle(fn)
            if state['rec'] is not None:
                state['rec'].extend(os.path.join(dp, f) for f in fn)
            yield dp, dn, fn

    os.walk = walk
    try:
        for g in groups:
            root = os.path.join(wd, f"g{g['gid']}")
            shutil.rmtree(root, ignore_errors=True)
            locs, U, fs = build_fs(root, g)
            tree = g['tree']
            rel_index = {tuple(f['rel']): i for i, f in enumerate(tree['files'])}
            res = []
            for li, loc in zip(g['locs'], locs):
                for v in g['variants']:
                    cwd, spelling = resolve_variant(v, loc, U, tree)
                    r = {'loc': li, 'variant': v, 'cwd': cwd, 'spelling': spelling}
                    saved_env = dict(os.environ)
                    try:
                        setv, delv = penv_for(v.get('penv', 'gone'), root, g)
                        os.environ.update(setv)
                        for k in delv:
                            os.environ.pop(k, None)
                        os.chdir(cwd)
                        state['seed'] = v['wseed']
                        # utils.list_files on its own (walk order recorded)
                        lf = getattr(_utils, 'list_files', None)
                        order = None
                        if lf is not None:
                            state['rec'] = []
                            try:
                                listed = [str(p) for p in lf(pathlib.Path(spelling))]
                                r['listed'] = listed
                                top = str(pathlib.Path(spelling))
                                pre = top if top.endswith('/') else top + '/'
                                order = []
                                for p in state['rec']:
                                    relc = tuple(p[len(pre):].split('/')) if p.startswith(pre) else None
                                    order.append(rel_index.get(relc, -1))
                                if not state['rec'] and len(listed) == 1 and () in rel_index:
                                    order = [rel_index[()]]
                            except BaseException as e:  # noqa
                                r['listed_exc'] = type(e).__name__
                            state['rec'] = None
                        r['order'] = order
                        r['obs'] = observe(torf, spelling, g['st'], g.get('thorough', False))
                    finally:
                        os.chdir(home)
                        os.environ.clear()
                        os.environ.update(saved_env)
                    res.append(r)
            out.append({'group': g, 'fs': fs, 'results': res})
            shutil.rmtree(root, ignore_errors=True)
    finally:
        os.walk = real_walk
        os.chdir(home)
    return out


# ------------------------------------------------------------------------------------------
# classification helpers (matchers are as narrow as the defects)

def norm_rel_spelling(spelling):
    """(is_abs, pathlib components, os.path.normpath components) of a spelling"""
    is_abs = spelling.startswith('/')
    pl = [c for c in spelling.split('/') if c not in ('', '.')]
    np_ = os.path.normpath(spelling)
    npc = [] if np_ == '.' else [c for c in np_.split('/') if c]
    return is_abs, pl, npc


def spell_class(spelling):
    is_abs, pl, npc = norm_rel_spelling(spelling)
    if is_abs:
        return 'abs'
    if pl == []:
        return 'dot'
    if pl == ['..']:
        return 'dotdot'                    # D15b
    if npc == [] or all(c == '..' for c in npc):
        return 'name-lost'                 # D15d: sub/.., ../.., ../sub/..
    return 'rel'


def fileset(created):
    if created['kind'] == 'multi':
        return {(tuple(p), s) for p, s in created['files']}
    if created['kind'] == 'single':
        return {((), created['size'])}
    return set()


# The matchers of the recorded defects D15a (d89a92e), D15b, D15d (42ec9ba) and D15c (1742c6d) are
# gone with the defects: every deviation of a variant from the specification is a VIOLATION.
MATCHERS = {}          # filled below (D15e, the history family)


# ------------------------------------------------------------------------------------------
# driver side + decision

def _base_req(g, fs, r):
    tree = g['tree']
    order = r.get('order')
    order_ok = order is not None and sorted(order) == list(range(len(tree['files'])))
    return {'name': tree['name'], 'files': tree['files'],
            'order': order if order_ok else list(range(len(tree['files']))),
            'cwd': _comps(r['cwd']), 'spelling': r['spelling'], 'st': g['st'], 'fs': fs}, order_ok


def evaluate(ctx, drv, groups, thorough=False):
    for g in groups:
        g['thorough'] = thorough
    results = common.pmap(_run_groups, common.split(groups, common.NPROC * 4))
    flat = []
    for chunk in results:
        for gr in chunk:
            for r in gr['results']:
                flat.append((gr['group'], gr['fs'], r))
    reqs = []
    for g, fs, r in flat:
        b, ok = _base_req(g, fs, r)
        r['order_ok'] = ok
        r['req'] = b
        reqs.append(dict(b, op='c15.queries'))
    q = drv.run(reqs)
    reqs2 = []
    for (g, fs, r), qr in zip(flat, q):
        st = g['st']
        paths = sorted(set(qr['patpaths']) | set(qr['specpaths']))
        globs = sorted(set(st['exg']) | set(st['ing']))
        regs = sorted(set(st['exr']) | set(st['inr']))
        strings = sorted(set(qr['listed']) | set(paths) | set(globs))
        cf = [[s, s.casefold()] for s in strings if s.casefold() != s]
        gl = [[t, p, fnmatch.fnmatch(t, p)] for t in sorted({x.casefold() for x in paths})
              for p in sorted({x.casefold() for x in globs})]
        rx = [[p, t, bool(re.search(p, t))] for p in regs for t in paths]
        reqs2.append(dict(r['req'], op='c15.create', cf=cf, glob=gl, rex=rx))
    replies = drv.run(reqs2)

    by_group = {}
    abs_ref = {}
    met = {}            # gid -> {(loc, variant index): created} of the variants that meet the specification
    vidx = {}
    for (g, fs, r), rep in zip(flat, replies):
        by_group.setdefault(g['gid'], []).append((g, r, rep))
        k = (g['gid'], r['loc'])
        r['vidx'] = vidx[k] = vidx.get(k, -1) + 1
    for gid, items in by_group.items():
        specs = {json.dumps(rep['spec'], sort_keys=True) for _, _, rep in items}
        if len(specs) > 1:
            ctx.machinery_error('Spec.created differs between variants of one (tree, settings) group', items[0][0])
            continue
        ok_obs = []
        # the absolute-path result of the group (C15_eq_absolute: every spelling must give it)
        for g, r, rep in items:
            if r['variant']['spelling'] == '{abs}' and r['variant']['cwd'] == 'unrelated' and gid not in abs_ref:
                abs_ref[gid] = (r['spelling'], r['obs']['created'])
        for g, r, rep in items:
            tree = g['tree']
            v = r['variant']
            obs = r['obs']
            I, S, M, hyp = obs['created'], rep['spec'], rep['model'], rep['hyp']
            sc = spell_class(r['spelling'])
            ntriv = len(tree['files']) >= 2 and not (v['cwd'] == 'parent' and v['spelling'] == '{name}')
            key = (hashlib.sha1(json.dumps([tree, g['st'], g.get('parents')], sort_keys=True).encode()).hexdigest()[:12],
                   r['loc'], v['cwd'], v['spelling'], v.get('penv'))
            ctx.case(key=key, nontrivial=ntriv, kind=f"{g['shape']}/{v['cwd'].split(':')[0]}/{sc}")
            ctx.dist['penv:' + v.get('penv', 'gone')] += 1
            ctx.dist['hyp' if hyp else 'outside-hyp'] += 1
            if any(g['st'].values()):
                ctx.dist['with-patterns'] += 1
            case = {'group': {k: g[k] for k in ('tree', 'st', 'decoy', 'shape', 'parents') if k in g}, 'loc': r['loc'],
                    'variant': v, 'cwd': r['cwd'], 'spelling': r['spelling'], 'spell_class': sc,
                    'hypParts': rep['hypParts'], 'model': M, 'spec': S}
            if not hyp:
                ctx.dist['outside-hyp:' + ','.join(k for k, ok in sorted(rep['hypParts'].items()) if not ok)] += 1
            ctx.sample({'case': {k: case[k] for k in ('group', 'cwd', 'spelling')}, 'spec': S, 'impl': I, 'hyp': hyp})
            if hyp and not rep['modelEqSpec']:
                ctx.machinery_error('model != spec under hyp although C15_created_env is proved', case)
                continue
            if I != S:
                what = (f"Torrent({r['spelling']!r}) from cwd={v['cwd']} (process environment {v.get('penv', 'gone')!r}: HOME and the "
                        f"variables named in file names point into the scratch area) differs from the result that depends "
                        f"only on tree and settings")
                ref = abs_ref.get(gid)
                if ref is not None and ref[1] == S and ref[0] != r['spelling']:
                    what += f"; the absolute path of the same tree, Torrent({ref[0]!r}), gives that result"
                if 'exc' in obs:
                    what += f" (raised {obs['exc']})"
                ctx.violation(what, case, S, I, finding_matchers=MATCHERS)
                continue
            if not hyp:
                ctx.dist['outside-hyp-but-meets-spec'] += 1
            elif I != M:
                ctx.corr_break('c15.create', case, M, I)
                continue
            # Torrent.files must be name/rel (or name) of exactly the stored entries
            if I['kind'] == 'multi':
                want_files = [['/'.join([I['name']] + p), s] for p, s in I['files']]
            elif I['kind'] == 'single':
                want_files = [[I['name'], I['size']]]
            else:
                want_files = []
            if obs['files'] != want_files:
                ctx.violation('Torrent.files is not name/path of the stored entries', case, want_files, obs['files'])
                continue
            ok_obs.append((case, obs))
            met.setdefault(gid, {})[(r['loc'], r['vidx'])] = (I, case)
            # list_files correspondence (not part of the specification)
            if 'listed' in r and r['order_ok'] and tree['files'] and not any(not f['rel'] for f in tree['files']):
                got = [('/' + x.lstrip('/')) if x.startswith('//') else x for x in r['listed']]
                if got != rep['listed']:
                    ctx.corr_break('c15.list', case, rep['listed'], r['listed'])
            elif 'listed' in r and not r['order_ok'] and tree['files']:
                ctx.dist['walk-order-not-recovered'] += 1
        # group level: piece length and infohash equal for all variants that meet the spec
        for field in ('piece_length', 'infohash'):
            vals = {}
            for case, obs in ok_obs:
                if field in obs:
                    vals.setdefault(obs[field], case)
            if len(vals) > 1:
                (a, ca), (b, cb) = list(vals.items())[:2]
                ctx.violation(f'{field} differs between two variants of the same tree and settings',
                              {'a': ca, 'b': cb}, a, b)
    return met


# ------------------------------------------------------------------------------------------

def _F(rel, size):
    return {'rel': rel.split('/') if rel else [], 'size': size}


NOPAT = {'exg': [], 'exr': [], 'ing': [], 'inr': []}


def empty_family():
    """fixed trees with empty files; every one runs under all (cwd, spelling) variants at both
    locations on every seed.  (tree name, files, settings, decoys below the unrelated cwd)"""
    E = []

    def add(tag, name, files, st=None, decoy=()):
        E.append((tag, name, [_F(r, n) for r, n in files], dict(NOPAT, **(st or {})),
                  [{'rel': r.split('/'), 'size': n} for r, n in decoy]))
    top = [('a', 3), ('b', 2), ('e', 0)]
    add('top', 'T', top)
    add('top-first-in-order', 'T', [('0', 0), ('a', 3), ('b', 2)])
    add('nested', 'T', [('a', 3), ('sub/e', 0), ('sub/b', 1), ('sub/x/y', 0), ('sub/x/z', 4)])
    add('nested-only-empties-in-dir', 'T', [('a', 3), ('b', 1), ('sub/e', 0), ('sub/x/f', 0)])
    add('in-hidden-dir', 'T', [('a', 3), ('b', 1), ('.hid/e', 0), ('.hid/x', 2), ('sub/.h/e', 0), ('sub/c', 1)])
    add('hidden-empty-file', 'T', [('a', 3), ('b', 1), ('.e', 0), ('sub/.e', 0), ('sub/c', 1)])
    add('only-file-in-dir', 'T', [('e', 0)])
    add('only-file-nested', 'T', [('sub/x/e', 0)])
    add('single-file-tree', 'e.bin', [('', 0)])
    add('all-empty', 'T', [('e', 0), ('f', 0), ('sub/g', 0), ('sub/x/h', 0)])
    add('hidden-root', '.T', [('a', 3), ('b', 1), ('e', 0), ('sub/e', 0)])
    add('include-glob-matches-empty', 'T', top, {'ing': ['T/e']})
    add('include-regex-matches-empty', 'T', top, {'inr': ['e$'], 'exg': ['*/b']})
    add('include-all-exclude-all', 'T', [('a', 3), ('b', 2), ('e', 0), ('sub/e', 0), ('sub/c', 1)],
        {'exg': ['*'], 'ing': ['*e', 'T/a']})
    add('exclude-matches-empty', 'T', top, {'exr': ['^T/e$']})
    add('case-variants', 'T', [('E', 0), ('e', 2), ('a/E.txt', 0), ('A/e.txt', 1)], {'exg': ['*/e.TXT']})
    # unrelated same-named files below the cwd (U/T/…): empty where the tree's is not, non-empty
    # where the tree's is empty, a directory of that name, nothing
    add('decoy-empty-for-nonempty', 'T', top, decoy=[('a', 0)])
    add('decoy-nonempty-for-empty', 'T', top, decoy=[('e', 5)])
    add('decoy-both', 'T', [('a', 3), ('b', 2), ('e', 0), ('sub/e', 0), ('sub/c', 1)],
        decoy=[('a', 0), ('e', 5), ('sub/c', 0), ('sub/e', 0)])
    add('decoy-directories', 'T', top, decoy=[('a', None), ('e', None)])
    add('decoy-with-patterns', 'T', top, {'exg': ['T/b'], 'ing': ['T/e']}, decoy=[('a', 0), ('b', 0), ('e', 1)])
    # the reach of D15c since d89a92e: the *non-empty* files share a directory / are one file
    add('d15c-one-nonempty-beside-empty', 'T', [('a.txt', 3), ('e', 0)], {'exg': ['T/a.txt']})
    add('d15c-nonempty-share-hidden-dir', 'T', [('e', 0), ('.hid/a', 1), ('.hid/b', 1)])
    add('d15c-nonempty-share-dir-no-pattern', 'T', [('e', 0), ('sub/a', 1), ('sub/b', 1)])
    rng = random.Random(15)
    gs = []
    for i, (tag, name, files, st, decoy) in enumerate(E):
        tree = {'name': name, 'files': files, 'dirs': []}
        gs.append({'gid': f'e{i}', 'shape': 'empty:' + tag, 'tree': tree, 'st': st, 'decoy': decoy,
                   'variants': variants_for(tree, rng), 'locs': [0, 1]})
    return gs


# ------------------------------------------------------------------------------------------
# names that some layer could interpret: the fixed family and the renaming twins

def rename_map(names):
    """an order- and dot-preserving renaming to plain names: the i-th name (code-point order, the
    order of pathlib / Lean `String`) that does not start with a dot becomes n<i>, the dotted ones
    .n<i>.  Hidden files are dropped, so only the order among the others has to be kept
    (`Spec.opaqueB`)."""
    rho = {}
    for i, n in enumerate(sorted(n for n in names if not n.startswith('.'))):
        rho[n] = f'n{i:03d}'
    for i, n in enumerate(sorted(n for n in names if n.startswith('.'))):
        rho[n] = f'.n{i:03d}'
    return rho


def tree_names(g):
    names = {g['tree']['name']}
    for f in g['tree']['files']:
        names.update(f['rel'])
    for d in g['tree'].get('dirs', []):
        names.update(d)
    return names


def rename_group(g, rho, gid, variants):
    t = g['tree']
    tree = {'name': rho[t['name']], 'files': [{'rel': [rho[c] for c in f['rel']], 'size': f['size']} for f in t['files']],
            'dirs': [[rho[c] for c in d] for d in t.get('dirs', [])]}
    parents = [[rho.get(c, c) for c in pp] for pp in g['parents']] if g.get('parents') else None
    g2 = {'gid': gid, 'shape': g['shape'] + ':twin', 'tree': tree, 'st': g['st'], 'decoy': [], 'locs': g['locs'],
          'variants': variants}
    if parents:
        g2['parents'] = parents
    return g2


def rename_created(c, rho):
    if c['kind'] == 'multi':
        return {'kind': 'multi', 'name': rho.get(c['name'], c['name']),
                'files': [[[rho.get(x, x) for x in p], n] for p, n in c['files']]}
    if c['kind'] == 'single':
        return {'kind': 'single', 'name': rho.get(c['name'], c['name']), 'size': c['size']}
    return c


TWIN_STRIDE = 5


def special_family(rng):
    """every name of SPECIAL_NAMES as the tree's name, as the name of the directory above it, as a
    directory and a file inside it (with the sibling an interpreting layer would find instead):
    all variants under the 'decoy' environment and a third of them under each of the others;
    the same name as a single-file tree; with patterns made of the name; and the twin of the first
    group under a renaming to plain names.  Returns (groups, [(big gid, twin gid, rho, big tree)])."""
    gs, pairs = [], []
    for i, N in enumerate(SPECIAL_NAMES):
        sib = SPECIAL_SIBLINGS.get(N, 'b')
        files = [{'rel': ['a'], 'size': 3}, {'rel': [N, N], 'size': 2}, {'rel': [N, 'b'], 'size': 1},
                 {'rel': [N, 'c', N], 'size': 4}, {'rel': ['e0'], 'size': 0}]
        if sib != 'a':
            files.append({'rel': [sib], 'size': 5})
        if sib != 'b':
            files.append({'rel': [N, sib], 'size': 6})
        tree = {'name': N, 'files': files, 'dirs': []}
        variants = []
        for v in variants_for(tree, rng, penvs=['decoy']):
            variants.append(v)
            for pe in ('void', 'gone'):
                if rng.random() < 0.2:
                    variants.append(dict(v, penv=pe, wseed=rng.randrange(1 << 30)))
        big = {'gid': f'n{i}', 'shape': 'names:dir', 'tree': tree, 'st': dict(NOPAT), 'decoy': [],
               'parents': [['loc1', N]], 'locs': [0], 'variants': variants}
        gs.append(big)
        rho = rename_map(tree_names(big) | {'loc1'})
        gs.append(rename_group(big, rho, f'n{i}t', variants[::TWIN_STRIDE]))
        pairs.append((big['gid'], f'n{i}t', rho, tree))
        ftree = {'name': N, 'files': [{'rel': [], 'size': 3}], 'dirs': []}
        P2 = SPECIAL_NAMES[(i * 7 + 3) % len(SPECIAL_NAMES)]
        gs.append({'gid': f'n{i}f', 'shape': 'names:file', 'tree': ftree, 'st': dict(NOPAT), 'decoy': [],
                   'parents': [['loc1', P2]], 'locs': [0], 'variants': variants_for(ftree, rng)})
        st = dict(NOPAT, exg=[N + '/a', '*/' + N + '/b'], inr=['^' + re.escape(N) + '/' + re.escape(N) + '/b$'],
                  exr=['/c/' + re.escape(N) + '$'])
        gs.append({'gid': f'n{i}p', 'shape': 'names:patterns', 'tree': tree, 'st': st, 'decoy': [],
                   'parents': [['loc1', P2]], 'locs': [0], 'variants': variants_for(tree, rng, full=False)})
    return gs, pairs


def evaluate_twins(ctx, drv, pairs, met):
    """C15_names_opaque on the real code: the twin's results are the renamed results"""
    reqs = [{'op': 'c15.opaque', 'name': tree['name'], 'files': tree['files'], 'st': NOPAT, 'st2': NOPAT,
             'rho': sorted(rho.items()), 'cf': [], 'glob': [], 'rex': []} for _, _, rho, tree in pairs]
    for (gid, tgid, rho, tree), rep in zip(pairs, drv.run(reqs)):
        if not (rep['opaque'] and rep['cleanRenamed']):
            ctx.machinery_error('the renaming of a twin group does not satisfy Spec.opaqueB / cleanTree', {'tree': tree, 'rho': rho})
            continue
        if not rep['eq']:
            ctx.machinery_error('Spec.created of the renamed tree is not the renamed Spec.created although '
                                'C15_names_opaque_spec is proved', {'tree': tree, 'rho': rho})
            continue
        for (loc, j), (It, tcase) in sorted(met.get(tgid, {}).items()):
            big = met.get(gid, {}).get((loc, j * TWIN_STRIDE))
            if big is None:                   # already reported as a deviation from the specification
                continue
            ctx.dist['rename-twin-compared'] += 1
            want = rename_created(big[0], rho)
            if It != want:
                ctx.violation('renaming all names of the tree to plain names (same order, same leading dots) changes more '
                              'than the names in the created torrent: some name was interpreted',
                              dict(big[1], twin={'rho': rho, 'case': tcase}), want, It)


# ------------------------------------------------------------------------------------------
# `Torrent.files = [File(name/rel, size), …]` (outside C15's statement): correspondence with the
# model `filesSetter` only — what is probed is the given size and os.path.exists of the
# torrent-relative path below the cwd

def _run_files_setter(cases):
    torf = common.import_torf()
    wd = common.worker_dir()
    home = os.getcwd()
    out = []
    try:
        for c in cases:
            root = os.path.join(wd, f"fs{c['id']}")
            shutil.rmtree(root, ignore_errors=True)
            fs = []
            for cwdname, entries in c['world'].items():
                base = os.path.join(root, cwdname)
                os.makedirs(base, exist_ok=True)
                fs.append([_comps(base), None])
                for rel, size in entries:
                    p = os.path.join(base, rel)
                    if size is None:
                        os.makedirs(p, exist_ok=True)
                    else:
                        _write(p, size, 'w')
                    fs.append([_comps(p), size])
            res = []
            for cwdname in c['world']:
                cwd = os.path.join(root, cwdname)
                obs = {}
                try:
                    os.chdir(cwd)
                    t = torf.Torrent()
                    t.files = [torf.File(p, size=n) for p, n in c['items']]
                    info = t.metainfo['info']
                    if 'files' in info:
                        obs = {'kind': 'multi', 'name': info.get('name'),
                               'files': [[list(fi['path']), fi['length']] for fi in info['files']]}
                    elif 'length' in info:
                        obs = {'kind': 'single', 'name': info.get('name'), 'size': info['length']}
                    else:
                        obs = {'kind': 'empty'}
                except BaseException as e:  # noqa
                    obs = {'kind': 'error', 'err': type(e).__name__}
                finally:
                    os.chdir(home)
                res.append({'cwd': cwd, 'obs': obs})
            out.append({'case': c, 'fs': fs, 'results': res})
            shutil.rmtree(root, ignore_errors=True)
    finally:
        os.chdir(home)
    return out


def files_setter_cases(rng, n):
    cases = []
    fixed = [
        ([('T/a', 3), ('T/e', 0), ('T/zz', 0)],
         {'P': [('T/a', 3), ('T/e', 0)], 'Q': [], 'U': [('T/a', 0), ('T/e', 5)], 'D': [('T/e', None), ('T/zz/x', 1)]}),
        ([('T/e', 0)], {'P': [('T/e', 0)], 'Q': []}),
        ([('e', 0)], {'P': [('e', 0)], 'Q': []}),
        ([('a', 3)], {'P': [('a', 0)], 'Q': []}),
        ([('T/e', 0), ('T/f', 0)], {'P': [('T/e', 0)], 'Q': [], 'R': [('T/e', 0), ('T/f', 2)]}),
        ([('T/sub/a', 1), ('T/sub/e', 0), ('T/.h/x', 2)], {'P': [('T/sub/e', 0)], 'Q': [('T/sub', 0)]}),
        ([('A/x', 1), ('B/y', 2)], {'P': []}),
    ]
    for items, world in fixed:
        cases.append({'items': items, 'world': world})
    names = ['a', 'b', 'e', 'sub/c', 'sub/e', '.h/x', 'sub/x/y']
    for _ in range(n):
        k = rng.randint(1, 5)
        items = [('T/' + r, rng.choice([0, 0, 1, 4])) for r in rng.sample(names, k)]
        world = {}
        for cw in ('P', 'Q', 'R'):
            ent = []
            for p, _n in items:
                x = rng.random()
                if x < 0.35:
                    ent.append((p, rng.choice([0, 0, 3])))
                elif x < 0.45:
                    ent.append((p, None))
            world[cw] = ent
        cases.append({'items': items, 'world': world})
    for i, c in enumerate(cases):
        c['id'] = i
    return cases


def evaluate_files_setter(ctx, drv, cases):
    results = common.pmap(_run_files_setter, common.split(cases, common.NPROC * 2))
    flat = [(gr['case'], gr['fs'], r) for chunk in results for gr in chunk for r in gr['results']]
    reqs = [{'op': 'c15.files', 'cwd': _comps(r['cwd']), 'fs': fs,
             'items': [{'path': p.split('/'), 'size': n} for p, n in c['items']]} for c, fs, r in flat]
    for (c, fs, r), rep in zip(flat, drv.run(reqs)):
        ctx.dist['files-setter'] += 1
        if r['obs'] != rep['model']:
            ctx.corr_break('c15.files', {'items': c['items'], 'world': c['world'], 'cwd': r['cwd']},
                           rep['model'], r['obs'])


# ------------------------------------------------------------------------------------------
# histories: ONE Torrent object whose settings change step by step (path before / after the
# patterns, patterns changed several times through every list operation, states in which every
# file is excluded, an empty directory, path = None, single file <-> directory).  After every
# operation the object is compared with
#   F  a fresh Torrent(path, <the patterns the object holds now>)  — model-free, the property —
#   M  the Lean model `trace` of the same history (`c15.history`; the change callback
#      `_filters_changed` -> `path = path` / `files = files` mirrored) — correspondence.
# The callback firings (the settings at each firing) are recorded by overriding `_filters_changed`
# in a subclass; which firings a list operation produces is MonitoredList's business (C09/C16).

H_GLOBS = ['*', '*.txt', '*.TXT', 'T/*', 't/*', '*/sub/*', '*a*', 'T/a.txt', '*.jpg', '*.bin', 'F.BIN',
           '*/pics/*', 'T/sub/*', '*README', 'T*', '*/.hid*', '*e0', 'S/*', '*/d/*']
H_REGEXS = ['txt$', '^T/', 'sub/', 'JPG$', '^T/a.txt$', 'bin$', 'a', '^f', 'T', '/', '^S/d/', 'README$']
H_WHICH = ['exg', 'exr', 'ing', 'inr']
H_ATTR = {'exg': 'exclude_globs', 'exr': 'exclude_regexs', 'ing': 'include_globs', 'inr': 'include_regexs'}


def h_world(rng, kind):
    """entries below the parent directory P: {relative path: size | None (directory)}"""
    if kind == 'fixed':
        T = {'T/a.txt': 3, 'T/b.txt': 5, 'T/pics/c.jpg': 2, 'T/pics/d.JPG': 1}
    else:
        names = ['a.txt', 'b.txt', 'c.jpg', 'd.JPG', 'README', '.hid', 'e0', 'x']
        dirs = ['', '', 'sub/', 'pics/', '.git/', 'sub/deep/']
        T = {}
        for _ in range(rng.randint(1, 7)):
            rel = rng.choice(dirs) + rng.choice(names)
            T['T/' + rel] = 0 if rel.endswith('e0') or rng.random() < 0.1 else rng.choice([1, 2, 3, 9])
    w = dict(T)
    w['T'] = None
    w['f.bin'] = rng.choice([4, 7]) if kind != 'fixed' else 7
    w['E'] = None
    w['S/d/one.txt'] = 2          # all files share a directory (D15c shape)
    w['S/d/two.txt'] = 1
    w['U'] = None
    return w


def h_pattern(rng, which):
    return rng.choice(H_GLOBS if which in ('exg', 'ing') else H_REGEXS)


def h_gen_ops(rng, n):
    """python-level operations; the first one is the constructor"""
    spell_dir = ['T', './T', 'T/', '{abs}/T', 'T', 'T']
    others = ['f.bin', '{abs}/f.bin', 'E', 'S', 'nowhere']

    def a_path():
        x = rng.random()
        if x < 0.6:
            return rng.choice(spell_dir)
        if x < 0.9:
            return rng.choice(others)
        return None

    def a_filters():
        f = {}
        for wh in H_WHICH:
            if rng.random() < (0.45 if wh == 'exg' else 0.2):
                f[wh] = [h_pattern(rng, wh) for _ in range(rng.randint(1, 2))]
        if rng.random() < 0.15:
            f['exg'] = ['*']
        return f
    ops = [{'op': 'ctor', 'path': a_path() if rng.random() < 0.85 else None, 'filters': a_filters()}]
    for _ in range(n):
        x = rng.random()
        wh = rng.choice(['exg', 'exg', 'exg', 'exr', 'ing', 'inr'])
        if x < 0.18:
            ops.append({'op': 'path', 'sp': a_path()})
        elif x < 0.30:
            ops.append({'op': 'assign', 'which': wh, 'v': [h_pattern(rng, wh) for _ in range(rng.randint(0, 2))]})
        elif x < 0.42:
            ops.append({'op': 'append', 'which': wh, 'v': h_pattern(rng, wh)})
        elif x < 0.50:
            ops.append({'op': 'append', 'which': 'exg', 'v': '*'})
        elif x < 0.62:
            ops.append({'op': 'clear', 'which': wh})
        elif x < 0.72:
            ops.append({'op': 'remove', 'which': wh, 'k': rng.randrange(4)})
        elif x < 0.78:
            ops.append({'op': 'extend', 'which': wh, 'v': [h_pattern(rng, wh) for _ in range(2)]})
        elif x < 0.83:
            ops.append({'op': 'pop', 'which': wh})
        elif x < 0.88:
            ops.append({'op': 'insert', 'which': wh, 'i': rng.randrange(3), 'v': h_pattern(rng, wh)})
        elif x < 0.92:
            ops.append({'op': 'setitem', 'which': wh, 'i': rng.randrange(2), 'v': h_pattern(rng, wh)})
        elif x < 0.95:
            ops.append({'op': 'delitem', 'which': wh, 'i': rng.randrange(2)})
        elif x < 0.98:
            ops.append({'op': 'iadd', 'which': wh, 'v': [h_pattern(rng, wh)]})
        else:
            ops.append({'op': 'reverse', 'which': wh})
    return ops


def h_fixed():
    """histories that run on every seed: the object passes through 'every file excluded', an
    empty directory, path = None, a single file, in every order of assignments"""
    C = lambda path=None, **f: {'op': 'ctor', 'path': path, 'filters': f}      # noqa: E731
    A = lambda wh, v: {'op': 'assign', 'which': wh, 'v': v}                    # noqa: E731
    AP = lambda wh, v: {'op': 'append', 'which': wh, 'v': v}                   # noqa: E731
    CL = lambda wh: {'op': 'clear', 'which': wh}                               # noqa: E731
    RM = lambda wh, k=0: {'op': 'remove', 'which': wh, 'k': k}                 # noqa: E731
    P = lambda sp: {'op': 'path', 'sp': sp}                                    # noqa: E731
    H = [
        [C('T', exg=['*.jpg']), CL('exg')],
        [C('T', exg=['*.jpg']), A('exg', ['*.txt'])],
        [C('T', exr=['jpg$']), AP('ing', '*/C.JPG')],
        [C('T', exg=['*']), CL('exg')],
        [C('T', exr=['txt$', 'jpg$', 'JPG$']), A('exr', ['jpg$'])],
        [C('T', exg=['t/*']), AP('ing', '*.TXT')],
        [C('T', exg=['*.txt', '*/pics/*']), RM('exg', 1)],
        [C('f.bin', exg=['*.bin']), RM('exg', 0)],
        [C('f.bin', exg=['*.bin']), AP('inr', 'bin$')],
        [C('T'), AP('exg', '*'), AP('exg', 'x'), RM('exg', 0)],
        [C('T'), A('exg', ['*']), A('exg', ['*']), A('exg', [])],
        [C('T'), A('exr', ['/']), {'op': 'pop', 'which': 'exr'}],
        [C('T'), A('exg', ['T/*']), {'op': 'setitem', 'which': 'exg', 'i': 0, 'v': '*.jpg'}],
        [C('T'), A('exg', ['T/*']), {'op': 'delitem', 'which': 'exg', 'i': 0}],
        [C('T'), A('exg', ['T/*']), {'op': 'iadd', 'which': 'ing', 'v': ['*.txt']}],
        [C('T'), A('exg', ['T/*']), {'op': 'extend', 'which': 'inr', 'v': ['txt$', 'a']}],
        [C('T'), A('exg', ['*', '*.jpg']), {'op': 'reverse', 'which': 'exg'}, {'op': 'pop', 'which': 'exg'}],
        [C(None, exg=['*']), P('T'), CL('exg')],
        [C(None), A('exg', ['*.txt']), P('T'), A('exg', ['*']), P('T'), CL('exg')],
        [C('T'), P(None), A('exg', ['*a.txt']), CL('exg')],
        [C('T'), A('exg', ['*']), P(None), CL('exg'), P('T')],
        [C('T', exg=['*.txt']), P(None), P('T'), CL('exg')],
        [C('E'), A('exg', ['*']), CL('exg'), P('T'), A('exg', ['*']), P('E'), CL('exg'), P('T')],
        [C('f.bin'), P('T'), A('exg', ['*']), P('f.bin'), CL('exg'), P('T')],
        [C('T'), A('exg', ['*']), P('f.bin'), P('T'), CL('exg')],
        [C('T'), A('exg', ['*']), P('nowhere'), CL('exg')],
        [C('S', exg=['*']), CL('exg'), AP('exg', 'S/d/one.txt'), CL('exg')],
        [C('{abs}/T', exg=['*']), CL('exg'), P(None), AP('exg', '*.txt')],
        [C('./T', exr=['T']), AP('ing', '*'), CL('ing'), CL('exr')],
    ]
    return H


def _h_settings(t):
    return {'exg': [str(x) for x in t.exclude_globs], 'exr': [r.pattern for r in t.exclude_regexs],
            'ing': [str(x) for x in t.include_globs], 'inr': [r.pattern for r in t.include_regexs]}


def _h_observe(t):
    info = t.metainfo['info']
    if 'files' in info:
        c = {'kind': 'multi', 'name': info.get('name'),
             'files': [[list(fi['path']), fi['length']] for fi in info['files']]}
    elif 'length' in info:
        c = {'kind': 'single', 'name': info.get('name'), 'size': info['length']}
    else:
        c = {'kind': 'empty'}
    return {'created': c, 'path': None if t.path is None else str(t.path), 'infoName': info.get('name'),
            'piece_length': info.get('piece length'), 'files': [[str(f), f.size] for f in t.files]}


def _h_apply(torf, cls, t, op, root):
    """apply one python-level operation; returns the (possibly new) object"""
    k = op['op']
    if k == 'ctor':
        f = op['filters']
        sp = op['path'].format(abs=root) if op['path'] else None
        return cls(path=sp, exclude_globs=f.get('exg', ()), exclude_regexs=f.get('exr', ()),
                   include_globs=f.get('ing', ()), include_regexs=f.get('inr', ()))
    if k == 'path':
        t.path = op['sp'].format(abs=root) if op['sp'] else None
        return t
    lst = getattr(t, H_ATTR[op['which']])
    if k == 'assign':
        setattr(t, H_ATTR[op['which']], op['v'])
    elif k == 'append':
        lst.append(op['v'])
    elif k == 'extend':
        lst.extend(op['v'])
    elif k == 'clear':
        lst.clear()
    elif k == 'remove':
        if len(lst):
            lst.remove(lst[op['k'] % len(lst)])
    elif k == 'pop':
        if len(lst):
            lst.pop()
    elif k == 'insert':
        lst.insert(op['i'], op['v'])
    elif k == 'setitem':
        if len(lst):
            lst[op['i'] % len(lst)] = op['v']
    elif k == 'delitem':
        if len(lst):
            del lst[op['i'] % len(lst)]
    elif k == 'iadd':
        lst += op['v']
    elif k == 'reverse':
        lst.reverse()
    return t


def _run_histories(cases):
    torf = common.import_torf()
    wd = common.worker_dir()
    home = os.getcwd()
    events = []

    class Rec(torf.Torrent):
        def _filters_changed(self, lst):
            events.append({'op': 'fire', 'st': _h_settings(self)})
            return super()._filters_changed(lst)
    out = []
    try:
        for c in cases:
            top = os.path.join(wd, f"h{c['id']}")
            shutil.rmtree(top, ignore_errors=True)
            root = os.path.join(top, 'P')
            os.makedirs(root)
            fs = [[_comps(root), None]]
            for rel, size in sorted(c['world'].items()):
                p = os.path.join(root, rel)
                if size is None:
                    os.makedirs(p, exist_ok=True)
                else:
                    _write(p, size, rel)
                fs.append([_comps(p), size])
            for p in sorted({os.path.dirname(os.path.join(root, rel)) for rel in c['world']}):
                if [_comps(p), None] not in fs:
                    fs.append([_comps(p), None])
            cwd = os.path.join(root, c['cwd']) if c['cwd'] else root
            steps = []
            t = None
            user_sp = None             # the spelling of the last path assignment that worked
            try:
                os.chdir(cwd)
                for op in c['ops']:
                    del events[:]
                    exc = None
                    try:
                        t = _h_apply(torf, Rec, t, op, root)
                    except BaseException as e:  # noqa
                        exc = type(e).__name__
                        if t is None:
                            break
                    evs = list(events)
                    if op['op'] == 'ctor':
                        evs.append({'op': 'path', 'sp': op['path'].format(abs=root) if op['path'] else None})
                        if exc is None:
                            user_sp = op['path'].format(abs=root) if op['path'] else None
                    elif op['op'] == 'path':
                        sp = op['sp'].format(abs=root) if op['sp'] else None
                        evs.append({'op': 'path', 'sp': sp})
                        if exc is None:
                            user_sp = sp
                    st = {'op': op, 'events': evs, 'exc': exc, 'obs': _h_observe(t), 'settings': _h_settings(t),
                          'user_sp': user_sp}
                    if user_sp is not None and t.path is not None:
                        f = st['settings']
                        try:
                            fr = torf.Torrent(path=user_sp, exclude_globs=f['exg'], exclude_regexs=f['exr'],
                                              include_globs=f['ing'], include_regexs=f['inr'])
                            st['fresh'] = _h_observe(fr)
                            if c.get('thorough') and st['fresh']['created']['kind'] != 'empty' \
                                    and st['obs']['created'] == st['fresh']['created']:
                                try:
                                    t.generate()
                                    fr.generate()
                                    st['infohash'] = [t.infohash, fr.infohash]
                                except BaseException as e:  # noqa
                                    st['infohash'] = ['raised ' + type(e).__name__, None]
                        except BaseException as e:  # noqa
                            st['fresh'] = {'created': {'kind': 'error', 'err': type(e).__name__}}
                    steps.append(st)
            finally:
                os.chdir(home)
            out.append({'case': c, 'fs': fs, 'cwd': cwd, 'root': root, 'steps': steps})
            shutil.rmtree(top, ignore_errors=True)
    finally:
        os.chdir(home)
    return out


def history_cases(rng, n):
    cases = []
    frng = random.Random(3)
    for ops in h_fixed():
        cases.append({'world': h_world(frng, 'fixed'), 'cwd': '', 'ops': ops, 'kind': 'fixed'})
    for _ in range(n):
        cwd = rng.choice(['', '', '', 'U'])
        ops = h_gen_ops(rng, rng.randint(2, 7))
        if cwd == 'U':                   # only absolute spellings make sense from elsewhere
            for op in ops:
                for key in ('path', 'sp'):
                    if op.get(key) and not op[key].startswith('{abs}'):
                        op[key] = '{abs}/' + op[key].lstrip('./')
        cases.append({'world': h_world(rng, 'random'), 'cwd': cwd, 'ops': ops, 'kind': 'random'})
    for i, c in enumerate(cases):
        c['id'] = i
    return cases


def _h_strip(root, x):
    """scratch-independent form of a path string for keys / reports"""
    return x.replace(root, '{abs}') if isinstance(x, str) else x


def m_stale_name(case, observed, finding):
    """D15e: a history whose final state holds no file; the only difference to the fresh object is
    the key info['name'], left over from an earlier state of the same object"""
    if case.get('kind') != 'history' or case.get('aspect') != 'info-name':
        return False
    exp = case['fresh']
    return (observed['created'] == {'kind': 'empty'} and exp['created'] == {'kind': 'empty'}
            and exp['infoName'] is None and observed['infoName'] is not None
            and observed['infoName'] in case.get('earlier_names', []))


MATCHERS['c15_stale_name_when_empty'] = m_stale_name


def evaluate_histories(ctx, drv, cases, thorough=False):
    for c in cases:
        c['thorough'] = thorough
    results = common.pmap(_run_histories, common.split(cases, common.NPROC * 4))
    flat = [r for chunk in results for r in chunk]
    reqs = []
    for r in flat:
        evs = [e for st in r['steps'] for e in st['events']]
        reqs.append({'op': 'c15.history', 'cwd': _comps(r['cwd']), 'fs': r['fs'], 'ops': evs})
    for r, rep in zip(flat, drv.run(reqs)):
        c = r['case']
        root = r['root']
        hist = [st['op'] for st in r['steps']]
        key = hashlib.sha1(json.dumps([c['world'], c['cwd'], c['ops']], sort_keys=True).encode()).hexdigest()[:14]
        nchanges = sum(1 for o in c['ops'] if o['op'] not in ('ctor', 'path'))
        ctx.case(key=('history', key), nontrivial=nchanges >= 1 and len(c['ops']) >= 2,
                 kind=f"history/{c['kind']}/{c['cwd'] or 'P'}")
        ctx.dist['history-steps'] += len(r['steps'])
        states = rep['states']
        k = 0
        earlier_names = []
        for i, st in enumerate(r['steps']):
            k += len(st['events'])
            obs = st['obs']
            base = {'kind': 'history', 'world': c['world'], 'cwd': c['cwd'], 'ops': c['ops'][:i + 1],
                    'step': i, 'settings': st['settings'], 'user_sp': _h_strip(root, st['user_sp'])}
            if obs['created']['kind'] == 'empty' and all(s['obs']['created']['kind'] == 'empty' for s in r['steps'][:i]):
                ctx.dist['history-state:never-had-files'] += 1
            elif obs['created']['kind'] == 'empty':
                ctx.dist['history-state:all-excluded-after-files'] += 1
            # F: the fresh object with the same path and patterns (the property, model-free)
            if 'fresh' in st:
                fr = st['fresh']
                ctx.dist['history-vs-fresh'] += 1
                bad = None
                if obs['created'] != fr['created']:
                    bad = 'content'
                elif obs['files'] != fr.get('files'):
                    bad = 'Torrent.files'
                elif obs['piece_length'] != fr.get('piece_length'):
                    bad = 'piece length'
                elif 'infohash' in st and st['infohash'][0] != st['infohash'][1]:
                    bad = 'infohash'
                if bad:
                    ctx.violation(f"after {len(base['ops'])} operations on one Torrent object its {bad} differs from a fresh "
                                  f"Torrent(path={base['user_sp']!r}, <the same patterns>): it depends on the settings it had earlier",
                                  dict(base, aspect=bad), fr, obs, finding_matchers=MATCHERS)
                    break
                if obs['infoName'] != fr['infoName']:
                    ctx.violation(f"after {len(base['ops'])} operations on one Torrent object info['name'] differs from a fresh "
                                  f"Torrent(path={base['user_sp']!r}, <the same patterns>)",
                                  dict(base, aspect='info-name', fresh=fr, earlier_names=list(earlier_names)),
                                  {'created': fr['created'], 'infoName': fr['infoName']},
                                  {'created': obs['created'], 'infoName': obs['infoName']}, finding_matchers=MATCHERS)
            if obs['infoName'] is not None and obs['infoName'] not in earlier_names:
                earlier_names.append(obs['infoName'])
            # M: the model of the same sequence of path assignments and callback firings
            if k == 0 or k > len(states):
                continue
            ms = states[k - 1]
            mine = {'created': obs['created'], 'path': obs['path'], 'infoName': obs['infoName']}
            model = {'created': ms['created'], 'path': ms['path'], 'infoName': ms['infoName']}
            if mine != model:
                ctx.corr_break('c15.history', dict(base, events=[_h_strip(root, json.dumps(e)) for e in st['events']]),
                               model, mine)
                break
            if 'fresh' in st and ms.get('fresh') and not ms['reattached'] and \
                    st['fresh']['created'] != ms['fresh']['created']:
                ctx.corr_break('c15.history.fresh', base, ms['fresh'], st['fresh']['created'])
                break
            if st['exc'] is not None:
                ctx.dist['history-op-raised:' + st['exc']] += 1
                errs = [x['err'] for x in states[k - len(st['events']):k] if x['err']]
                if not errs:
                    ctx.corr_break('c15.history.raise', base, None, st['exc'])
                    break


def witness_groups(ctx):
    gs = []
    for i, f in enumerate(ctx.open_findings()):
        w = f.get('witness', {})
        if 'group' in w:
            g = json.loads(json.dumps(w['group']))
            g['gid'] = f'w{i}'
            g.setdefault('decoy', [])
            g.setdefault('locs', [0])
            g.setdefault('shape', 'witness:' + f['id'])
            g['tree'].setdefault('dirs', [])
            for v in g['variants']:
                v.setdefault('wseed', 0)
            gs.append((f['id'], g))
    return gs


def corpus_groups():
    d = os.path.join(common.CORPUS_DIR, 'C15')
    gs = []
    if os.path.isdir(d):
        for fn in sorted(os.listdir(d)):
            if fn.endswith('.json'):
                g = json.load(open(os.path.join(d, fn)))
                g['gid'] = 'c' + fn[:-5]
                g.setdefault('decoy', [])
                g.setdefault('locs', [0, 1])
                g.setdefault('shape', 'corpus')
                g['tree'].setdefault('dirs', [])
                for v in g['variants']:
                    v.setdefault('wseed', 0)
                gs.append(g)
    return gs


def gen_groups(ctx, scale=1.0):
    n = int(ctx.n(150, 3000) * scale)
    return [gen_group(ctx.rng, i) for i in range(n)]


def run(ctx, drv):
    ctx.notes['rule'] = RULE
    ctx.notes['assumptions'] = ASSUMPTIONS
    # 1. witnesses of the open findings, each on its own so that reproduction is attributable
    for fid, g in witness_groups(ctx):
        before = ctx.dist.get('known-finding:' + fid, 0)
        evaluate(ctx, drv, [g], thorough=False)
        if ctx.dist.get('known-finding:' + fid, 0) == before:
            ctx.not_reproduced.append(fid)
    for f in ctx.open_findings():
        h = f.get('witness', {}).get('history')
        if h:
            before = ctx.dist.get('known-finding:' + f['id'], 0)
            evaluate_histories(ctx, drv, [dict(json.loads(json.dumps(h)), kind='witness:' + f['id'], id=0)])
            if ctx.dist.get('known-finding:' + f['id'], 0) == before:
                ctx.not_reproduced.append(f['id'])
    # 2. corpus, 3. the fixed family of trees with empty files, 4. generated groups
    fam, pairs = special_family(random.Random(156))
    met = evaluate(ctx, drv, corpus_groups() + empty_family() + fam + gen_groups(ctx), thorough=ctx.thorough)
    evaluate_twins(ctx, drv, pairs, met)
    # 5. the `files` setter against its model (correspondence only)
    evaluate_files_setter(ctx, drv, files_setter_cases(ctx.rng, ctx.n(60, 600)))
    # 6. histories of settings on one object against the fresh object and the model
    evaluate_histories(ctx, drv, history_cases(ctx.rng, ctx.n(400, 6000)), thorough=ctx.thorough)
    ctx.exhaustive = False


def search(ctx, drv):
    gs = gen_groups(ctx, scale=2.0)
    for i, g in enumerate(gs):
        g['gid'] = f's{i}'
    evaluate(ctx, drv, gs, thorough=False)
    evaluate_histories(ctx, drv, history_cases(ctx.rng, ctx.n(800, 4000)), thorough=False)


def replay(ctx, drv, rp):
    case = rp['case']
    if case.get('kind') == 'history':
        evaluate_histories(ctx, drv, [{'world': case['world'], 'cwd': case['cwd'], 'ops': case['ops'],
                                       'kind': 'replay', 'id': 0}], thorough=False)
        return {'fails': bool(ctx.violations or ctx.known or ctx.corr_breaks),
                'violations': ctx.violations, 'known': list(ctx.known), 'corr_breaks': ctx.corr_breaks}
    if 'a' in case and 'group' not in case:
        case = case['a']
    g = json.loads(json.dumps(case['group']))
    g['gid'] = 'replay'
    g.setdefault('decoy', [])
    g['locs'] = [case.get('loc', 0)]
    g['tree'].setdefault('dirs', [])
    g['variants'] = [case['variant']]
    if 'twin' in case:            # a renaming twin: the original and its twin under the same variant
        rho = case['twin']['rho']
        g2 = rename_group(g, rho, 'replay-twin', [case['variant']])
        met = evaluate(ctx, drv, [g, g2], thorough=False)
        a, b = met.get('replay', {}).get((g['locs'][0], 0)), met.get('replay-twin', {}).get((g['locs'][0], 0))
        if a and b and rename_created(a[0], rho) != b[0]:
            ctx.violation('renaming all names of the tree changes more than the names', case, rename_created(a[0], rho), b[0])
        return {'fails': bool(ctx.violations or ctx.known or ctx.corr_breaks),
                'violations': ctx.violations, 'known': list(ctx.known), 'corr_breaks': ctx.corr_breaks}
    evaluate(ctx, drv, [g], thorough=False)
    return {'fails': bool(ctx.violations or ctx.known or ctx.corr_breaks),
            'violations': ctx.violations, 'known': list(ctx.known), 'corr_breaks': ctx.corr_breaks}
