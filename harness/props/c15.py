"""
C15 — created torrents depend only on the content tree and the settings.

One *group* = one (tree, settings) pair.  The tree is created on tmpfs at two locations and
addressed through many (working directory, spelling, os.walk order) *variants*.  For every
variant the real `torf.Torrent(path, exclude_globs=…, …)` is run in a worker process (chdir,
shuffled `os.walk`) and compared with
  S  the Lean specification `Spec.created tree settings` (no environment at all), and
  M  the code-shaped Lean model `pathSetter` run in the same environment (cwd, spelling, walk
     order, the scratch file system),
under the hypothesis `hyp` of theorem `C15_created_partial`.  `casefold`, `fnmatch` and
`re.search` are oracle tables computed here for exactly the strings the model/spec ask for
(`c15.queries`).  `utils.list_files` is tied to the model's `listFiles` separately.

Empty files (since /repo d89a92e `_set_files` drops them itself, by the size it knows and
`os.path.exists` of the path as listed) are judged like everything else: from every cwd, under every
spelling, with and without unrelated same-named files below the cwd; `empty_family()` is a fixed
set of such trees that runs on every seed.  The `files` setter (outside C15's statement) is tied
to the model `filesSetter` as correspondence only (`c15.files`).
"""
import fnmatch
import hashlib
import json
import os
import random
import re
import shutil

from harness import common

RULE = ('groups = (tree, pattern settings); trees: <= 12 files, nesting <= 3, hidden files/dirs at '
        'top level and below, empty files, case variants (a/B.txt vs A/b.txt), names with spaces / '
        'unicode / characters sorting around "/", single-directory and single-file trees, hidden or '
        'dotted root names; each group at 2 tmpfs locations x ~25 (cwd, spelling) variants (parent / '
        'tree / child / grandchild / unrelated cwd; T, ./T, T/, T//, absolute, //absolute, ../P/T, '
        'abs with .., ., ./, .//., .., ../, ../., ./.., ../../T, child/.., ../..) x shuffled os.walk order; '
        'a fixed family of trees with empty files (top level, nested, in hidden directories, the only file, '
        'all files, matched by an include pattern, with unrelated same-named empty / non-empty files and '
        'directories below the cwd) under all variants; '
        'non-trivial = tree with >= 2 files addressed other than by its bare name from its parent; '
        'distinct = distinct (tree, settings, location, cwd, spelling)')

ASSUMPTIONS = [
    'POSIX path semantics (pathlib/os.path) modelled on component lists; no symbolic links (".." is lexical); "//" root treated as "/"',
    'os.walk order is an arbitrary permutation (exercised by shuffling dirnames/filenames in the worker)',
    'str.casefold, fnmatch.fnmatch and re.search are oracle parameters of the model; the harness evaluates the real functions on the strings the model queries',
    'piece length is not modelled: it must be equal for all variants of a group that meet the specification',
    'in the empty result (no file kept) info has neither files nor length; the lazily defaulted Torrent.name is not observed',
    'files are readable (permission errors are C08/ReadError territory)',
]

# ------------------------------------------------------------------------------------------
# generators

ROOT_NAMES = ['T', 'T', 'T', '.T', 'My Tree', 'Ünï', 'T.', 'a-b', 'ẞtraße', 't..']
DIR_NAMES = ['sub', 'Sub', 'a', 'A', '.hid', '.git', 'x y', 'd-1', 'ü', 'z', 'T', 'a!', 'a0']
FILE_NAMES = ['a.txt', 'A.TXT', 'b.txt', 'B.txt', 'b.TXT', 'c.dat', '.hidden', '.a.txt', 'read me',
              'README', 'readme', 'é.txt', 'É.txt', 'x', 'X', 'a', 'a-b', 'a!b', 'a0', '日本.txt', 'ß', 'SS',
              '...', 'e', 'T']


def gen_tree(rng, shape):
    name = rng.choice(ROOT_NAMES)
    if shape == 'file':
        return {'name': rng.choice(['a.txt', '.hidden', 'B.TXT', 'x y', 'ü.dat', 'f.']),
                'files': [{'rel': [], 'size': rng.choice([0, 1, 5, 40])}], 'dirs': []}
    files = {}
    n = {'empty-tree': 0, 'single-file-in-dir': 1}.get(shape, rng.randint(2, 12))
    top = rng.choice(DIR_NAMES)
    tries = 0
    while len(files) < n and tries < 200:
        tries += 1
        depth = rng.choice([0, 0, 1, 1, 2, 3])
        if shape == 'single-dir':
            depth = max(depth, 1)
        if shape == 'single-file-in-dir':
            depth = rng.choice([0, 1, 2])
        dirs = [rng.choice(DIR_NAMES) for _ in range(depth)]
        if shape == 'single-dir' and dirs:
            dirs[0] = top
        if shape == 'all-hidden':
            if dirs and rng.random() < 0.7:
                dirs[rng.randrange(len(dirs))] = rng.choice(['.hid', '.git'])
                fn = rng.choice(FILE_NAMES)
            else:
                fn = rng.choice(['.hidden', '.a.txt'])
            if rng.random() < 0.5 and dirs:
                dirs[0] = '.hid'
        else:
            fn = rng.choice(FILE_NAMES)
        rel = tuple(dirs + [fn])
        # a path is either a file or a directory
        if any(rel[:k] in files for k in range(1, len(rel))):
            continue
        if any(other[:len(rel)] == rel for other in files):
            continue
        size = 0 if rng.random() < (0.9 if shape == 'all-empty' else 0.2) else rng.choice([1, 2, 3, 7, 20, 40])
        files[rel] = size
    flist = [{'rel': list(r), 'size': s} for r, s in files.items()]
    rng.shuffle(flist)
    dirs = []
    if rng.random() < 0.15:
        d = [rng.choice(['emptydir', '.emptyhid'])]
        if not any(tuple(f['rel'][:1]) == tuple(d) for f in flist):
            dirs.append(d)
    return {'name': name, 'files': flist, 'dirs': dirs}


def flipcase(rng, s):
    return ''.join((c.upper() if rng.random() < 0.5 else c.lower()) for c in s)


def gen_settings(rng, tree):
    st = {'exg': [], 'exr': [], 'ing': [], 'inr': []}
    if rng.random() < 0.35:
        return st
    name = tree['name']
    rels = [f['rel'] for f in tree['files']] or [['x']]

    def a_glob():
        rel = rng.choice(rels)
        full = '/'.join([name] + rel)
        k = rng.randrange(9)
        if k == 0:
            return flipcase(rng, full)
        if k == 1:
            return '*/' + flipcase(rng, rel[-1]) if rel else flipcase(rng, name)
        if k == 2:
            return flipcase(rng, name) + '/' + (rel[0] if rel else '') + '*'
        if k == 3:
            return '*.' + flipcase(rng, 'txt')
        if k == 4:
            return '*' + flipcase(rng, (rel[-1] if rel else name)[:2]) + '*'
        if k == 5:
            return name + '/?' + (rel[0][1:] if rel else '')
        if k == 6:
            return '*.[tT]xt'
        if k == 7:
            return '*/' + '/'.join(rel[:-1]) + '/*' if len(rel) > 1 else name + '/*'
        return flipcase(rng, rel[-1] if rel else name)

    def a_regex():
        rel = rng.choice(rels)
        last = rel[-1] if rel else name
        k = rng.randrange(8)
        if k == 0:
            return re.escape(last) + '$'
        if k == 1:
            return '^' + re.escape(name) + '/' + (re.escape(rel[0]) if rel else '')
        if k == 2:
            return '(?i)' + re.escape(flipcase(rng, last))
        if k == 3:
            return '[A-Z]'
        if k == 4:
            return re.escape(flipcase(rng, last))
        if k == 5:
            return r'\.txt$'
        if k == 6:
            return '^' + re.escape('/'.join([name] + rel)) + '$'
        return '/' + re.escape(rel[0]) + '/' if len(rel) > 1 else '^[^/]+$'

    for key, p, fn in (('exg', 0.6, a_glob), ('exr', 0.4, a_regex), ('ing', 0.35, a_glob), ('inr', 0.25, a_regex)):
        if rng.random() < p:
            st[key] = [fn() for _ in range(rng.randint(1, 2))]
    if rng.random() < 0.2 and st['exg']:      # include overriding exclude with the same pattern
        st['ing'].append(flipcase(rng, st['exg'][0]))
    return st


def first_dirs(tree):
    """directories of the tree that contain files: (child, grandchild) relative component lists"""
    child = grand = None
    for f in tree['files']:
        if len(f['rel']) >= 2 and child is None:
            child = f['rel'][:1]
        if len(f['rel']) >= 3 and grand is None:
            grand = f['rel'][:2]
    return child, grand


def variants_for(tree, rng, full=True):
    """symbolic variants: cwd in {parent, tree, child:<rel>, unrelated}, spelling templates with
    {abs} {name} {P} {child} {rel_from_U}"""
    isfile = any(not f['rel'] for f in tree['files'])
    v = []
    par = ['{name}', './{name}', '{abs}', '../{P}/{name}', './/{name}', '{absdd}', '{abs_up}']
    if not isfile:
        par += ['{name}/', '{name}//', './/{name}/.', '{abs}/', '{abs}/.']
    for s in par:
        v.append(('parent', s))
    v.append(('unrelated', '{abs}'))
    v.append(('unrelated', '{rel_from_U}'))
    v.append(('unrelated', '/{abs}'))
    if not isfile:
        for s in ['.', './', './/.', '../{name}', '{abs}']:
            v.append(('tree', s))
        child, grand = first_dirs(tree)
        if child:
            c = '/'.join(child)
            v.append(('parent', '{name}/' + c + '/..'))
            v.append(('tree', c + '/..'))
            for s in ['..', '../', '../.', './..', '../../{name}', '{abs}', '../' + c + '/..']:
                v.append(('child:' + c, s))
        if grand:
            g = '/'.join(grand)
            for s in ['../..', '../../.', '../../../{name}']:
                v.append(('child:' + g, s))
    if not full:
        rng.shuffle(v)
        v = v[:8]
    return [{'cwd': c, 'spelling': s, 'wseed': rng.randrange(1 << 30)} for c, s in v]


SHAPES = ['multi'] * 6 + ['single-dir'] * 2 + ['single-file-in-dir', 'file', 'all-hidden', 'all-empty', 'empty-tree']


def gen_group(rng, gid):
    shape = rng.choice(SHAPES)
    tree = gen_tree(rng, shape)
    st = gen_settings(rng, tree)
    decoy = []
    if tree['files'] and rng.random() < 0.25:
        for f in rng.sample(tree['files'], min(2, len(tree['files']))):
            if f['rel']:
                decoy.append({'rel': f['rel'], 'size': rng.choice([0, 0, 3])})
    return {'gid': gid, 'shape': shape, 'tree': tree, 'st': st, 'decoy': decoy,
            'variants': variants_for(tree, rng), 'locs': [0, 1]}


# ------------------------------------------------------------------------------------------
# real-code side (worker process)

LOC_PARENTS = [['loc1', 'P'], ['deep', '.cache', 'Other Parent', 'x']]


def _write(path, size, seed):
    os.makedirs(os.path.dirname(path), exist_ok=True)
    with open(path, 'wb') as f:
        f.write(random.Random(seed).randbytes(size))


def _comps(p):
    return [c for c in p.split('/') if c]


def build_fs(root, group):
    """create the tree at both locations (+ decoys below the unrelated directory); return
    (locs, U, fs entries [[abs comps, size|None]])"""
    tree = group['tree']
    fs = []
    locs = []
    for li in group['locs']:
        parent = os.path.join(root, *LOC_PARENTS[li])
        os.makedirs(parent, exist_ok=True)
        loc = os.path.join(parent, tree['name'])
        for f in tree['files']:
            p = os.path.join(loc, *f['rel']) if f['rel'] else loc
            _write(p, f['size'], '/'.join(f['rel']))
            fs.append([_comps(p), f['size']])
        if not any(not f['rel'] for f in tree['files']):
            os.makedirs(loc, exist_ok=True)
            fs.append([_comps(loc), None])
        for d in tree.get('dirs', []):
            p = os.path.join(loc, *d)
            os.makedirs(p, exist_ok=True)
            fs.append([_comps(p), None])
        locs.append(loc)
    U = os.path.join(root, 'U')
    os.makedirs(U, exist_ok=True)
    fs.append([_comps(U), None])
    for d in group.get('decoy', []):
        p = os.path.join(U, tree['name'], *d['rel'])
        if d['size'] is None:                 # an unrelated *directory* of that name
            os.makedirs(p, exist_ok=True)
        else:
            _write(p, d['size'], 'decoy')
        fs.append([_comps(p), d['size']])
    return locs, U, fs


def resolve_variant(v, loc, U, tree):
    parent = os.path.dirname(loc)
    name = tree['name']
    if v['cwd'] == 'parent':
        cwd = parent
    elif v['cwd'] == 'tree':
        cwd = loc
    elif v['cwd'] == 'unrelated':
        cwd = U
    else:
        cwd = os.path.join(loc, v['cwd'].split(':', 1)[1])
    P = os.path.basename(parent)
    spelling = v['spelling'].format(
        abs=loc, name=name, P=P,
        absdd=parent.replace('/', '//') + '//' + name,
        abs_up=os.path.join(parent, '..', P, name),
        rel_from_U=os.path.relpath(loc, U))
    return cwd, spelling


def observe(torf, spelling, st, thorough):
    obs = {}
    try:
        t = torf.Torrent(spelling, exclude_globs=st['exg'], exclude_regexs=st['exr'],
                         include_globs=st['ing'], include_regexs=st['inr'])
        info = t.metainfo['info']
        if 'files' in info:
            obs['created'] = {'kind': 'multi', 'name': info.get('name'),
                              'files': [[list(fi['path']), fi['length']] for fi in info['files']]}
        elif 'length' in info:
            obs['created'] = {'kind': 'single', 'name': info.get('name'), 'size': info['length']}
        else:
            obs['created'] = {'kind': 'empty'}
        obs['piece_length'] = info.get('piece length')
        obs['files'] = [[str(f), f.size] for f in t.files]
        if thorough and obs['created']['kind'] != 'empty':
            # hashing is a second observable; its failure must not hide what was created
            try:
                t.generate()
                obs['infohash'] = t.infohash
            except BaseException as e:  # noqa
                obs['infohash'] = 'raised ' + type(e).__name__
    except BaseException as e:  # noqa
        obs['created'] = {'kind': 'error', 'err': type(e).__name__}
        obs['exc'] = f'{type(e).__name__}: {e}'[:200]
    return obs


def _run_groups(groups):
    torf = common.import_torf()
    import pathlib
    from torf import _utils
    wd = common.worker_dir()
    real_walk = os.walk
    home = os.getcwd()
    out = []
    state = {'seed': 0, 'rec': None}

    def walk(top, topdown=True, onerror=None, followlinks=False):
        for dp, dn, fn in real_walk(top, topdown, onerror, followlinks):
            r = random.Random(f"{state['seed']}/{dp}")
            r.shuffle(dn)
            r.shuffle(fn)
            if state['rec'] is not None:
                state['rec'].extend(os.path.join(dp, f) for f in fn)
            yield dp, dn, fn

    os.walk = walk
    try:
        for g in groups:
            root = os.path.join(wd, f"g{g['gid']}")
            shutil.rmtree(root, ignore_errors=True)
            locs, U, fs = build_fs(root, g)
            tree = g['tree']
            rel_index = {tuple(f['rel']): i for i, f in enumerate(tree['files'])}
            res = []
            for li, loc in zip(g['locs'], locs):
                for v in g['variants']:
                    cwd, spelling = resolve_variant(v, loc, U, tree)
                    r = {'loc': li, 'variant': v, 'cwd': cwd, 'spelling': spelling}
                    try:
                        os.chdir(cwd)
                        state['seed'] = v['wseed']
                        # utils.list_files on its own (walk order recorded)
                        lf = getattr(_utils, 'list_files', None)
                        order = None
                        if lf is not None:
                            state['rec'] = []
                            try:
                                listed = [str(p) for p in lf(pathlib.Path(spelling))]
                                r['listed'] = listed
                                top = str(pathlib.Path(spelling))
                                pre = top if top.endswith('/') else top + '/'
                                order = []
                                for p in state['rec']:
                                    relc = tuple(p[len(pre):].split('/')) if p.startswith(pre) else None
                                    order.append(rel_index.get(relc, -1))
                                if not state['rec'] and len(listed) == 1 and () in rel_index:
                                    order = [rel_index[()]]
                            except BaseException as e:  # noqa
                                r['listed_exc'] = type(e).__name__
                            state['rec'] = None
                        r['order'] = order
                        r['obs'] = observe(torf, spelling, g['st'], g.get('thorough', False))
                    finally:
                        os.chdir(home)
                    res.append(r)
            out.append({'group': g, 'fs': fs, 'results': res})
            shutil.rmtree(root, ignore_errors=True)
    finally:
        os.walk = real_walk
        os.chdir(home)
    return out


# ------------------------------------------------------------------------------------------
# classification helpers (matchers are as narrow as the defects)

def norm_rel_spelling(spelling):
    """(is_abs, pathlib components, os.path.normpath components) of a spelling"""
    is_abs = spelling.startswith('/')
    pl = [c for c in spelling.split('/') if c not in ('', '.')]
    np_ = os.path.normpath(spelling)
    npc = [] if np_ == '.' else [c for c in np_.split('/') if c]
    return is_abs, pl, npc


def spell_class(spelling):
    is_abs, pl, npc = norm_rel_spelling(spelling)
    if is_abs:
        return 'abs'
    if pl == []:
        return 'dot'
    if pl == ['..']:
        return 'dotdot'                    # D15b
    if npc == [] or all(c == '..' for c in npc):
        return 'name-lost'                 # D15d: sub/.., ../.., ../sub/..
    return 'rel'


def verdict(st, path):
    """documented pattern semantics on one path string: True = excluded"""
    def g(p):
        return fnmatch.fnmatch(path.casefold(), p.casefold())

    def r(p):
        return bool(re.search(p, path))
    if any(r(p) for p in st['inr']) or any(g(p) for p in st['ing']):
        return False
    return any(r(p) for p in st['exr']) or any(g(p) for p in st['exg'])


def fileset(created):
    if created['kind'] == 'multi':
        return {(tuple(p), s) for p, s in created['files']}
    if created['kind'] == 'single':
        return {((), created['size'])}
    return set()


def _diff(case, observed):
    return fileset(observed) ^ fileset(case['spec'])


def _is_model(case, observed):
    """observed is what the model of the code as it is (with the recorded defects) computes"""
    return observed == case['model']


def m_dotdot_patterns(case, observed, finding):
    """D15b: spelling is `..` (pathlib-equal forms ../, ../., ./..), patterns are set, and some
    file's verdict on '../rel' differs from its verdict on 'name/rel'"""
    if not _is_model(case, observed) or case['spell_class'] != 'dotdot':
        return False
    st = case['group']['st']
    if not any(st.values()):
        return False
    name = case['group']['tree']['name']
    d = {p for p, _ in _diff(case, observed)}
    return bool(d) and any(verdict(st, '/'.join(('..',) + p)) != verdict(st, '/'.join((name,) + p)) for p in d)


def _hidden(rel):
    return any(c not in ('.', '..', '') and c.startswith('.') for c in rel)


def m_common_prefix(case, observed, finding):
    """D15c: the files handed to filter_files (the non-empty listed ones) share their first
    component (or there is one such file in a directory), and every deviating file is hidden
    within that shared part or the pattern set is not empty"""
    if not _is_model(case, observed) or case['hypParts']['prefixOK'] or case['spell_class'] == 'name-lost':
        return False
    tree = case['group']['tree']
    ne = [tuple(f['rel']) for f in tree['files'] if f['size'] != 0]
    if not ne:
        return False
    cp = os.path.commonprefix(ne)             # component-wise on tuples
    d = {p for p, _ in _diff(case, observed)}
    has_pat = any(case['group']['st'].values())
    return bool(d) and all(p[:len(cp)] == tuple(cp) and (has_pat or _hidden(cp)) for p in d)


def m_name_lost(case, observed, finding):
    """D15d: relative spelling that normalises to '.', '..', '../..' without being '.' or '..'
    (sub/.., ../.., ../sub/..): the torrent is named '' or '..'"""
    # the class of spellings is itself the narrow part; within it the torrent-relative paths are
    # '../rel' or '<cwd name>/rel' under the name '..' / '', which also misleads patterns — all of
    # it is what the model of the recorded defect computes
    return _is_model(case, observed) and case['spell_class'] == 'name-lost'


MATCHERS = {
    'c15_name_lost': m_name_lost,
    'c15_dotdot_patterns': m_dotdot_patterns,
    'c15_common_prefix': m_common_prefix,
}


# ------------------------------------------------------------------------------------------
# driver side + decision

def _base_req(g, fs, r):
    tree = g['tree']
    order = r.get('order')
    order_ok = order is not None and sorted(order) == list(range(len(tree['files'])))
    return {'name': tree['name'], 'files': tree['files'],
            'order': order if order_ok else list(range(len(tree['files']))),
            'cwd': _comps(r['cwd']), 'spelling': r['spelling'], 'st': g['st'], 'fs': fs}, order_ok


def evaluate(ctx, drv, groups, thorough=False):
    for g in groups:
        g['thorough'] = thorough
    results = common.pmap(_run_groups, common.split(groups, common.NPROC * 4))
    flat = []
    for chunk in results:
        for gr in chunk:
            for r in gr['results']:
                flat.append((gr['group'], gr['fs'], r))
    reqs = []
    for g, fs, r in flat:
        b, ok = _base_req(g, fs, r)
        r['order_ok'] = ok
        r['req'] = b
        reqs.append(dict(b, op='c15.queries'))
    q = drv.run(reqs)
    reqs2 = []
    for (g, fs, r), qr in zip(flat, q):
        st = g['st']
        paths = sorted(set(qr['patpaths']) | set(qr['specpaths']))
        globs = sorted(set(st['exg']) | set(st['ing']))
        regs = sorted(set(st['exr']) | set(st['inr']))
        strings = sorted(set(qr['listed']) | set(paths) | set(globs))
        cf = [[s, s.casefold()] for s in strings if s.casefold() != s]
        gl = [[t, p, fnmatch.fnmatch(t, p)] for t in sorted({x.casefold() for x in paths})
              for p in sorted({x.casefold() for x in globs})]
        rx = [[p, t, bool(re.search(p, t))] for p in regs for t in paths]
        reqs2.append(dict(r['req'], op='c15.create', cf=cf, glob=gl, rex=rx))
    replies = drv.run(reqs2)

    by_group = {}
    for (g, fs, r), rep in zip(flat, replies):
        by_group.setdefault(g['gid'], []).append((g, r, rep))
    for gid, items in by_group.items():
        specs = {json.dumps(rep['spec'], sort_keys=True) for _, _, rep in items}
        if len(specs) > 1:
            ctx.machinery_error('Spec.created differs between variants of one (tree, settings) group', items[0][0])
            continue
        ok_obs = []
        for g, r, rep in items:
            tree = g['tree']
            v = r['variant']
            obs = r['obs']
            I, S, M, hyp = obs['created'], rep['spec'], rep['model'], rep['hyp']
            sc = spell_class(r['spelling'])
            ntriv = len(tree['files']) >= 2 and not (v['cwd'] == 'parent' and v['spelling'] == '{name}')
            key = (hashlib.sha1(json.dumps([tree, g['st']], sort_keys=True).encode()).hexdigest()[:12],
                   r['loc'], v['cwd'], v['spelling'])
            ctx.case(key=key, nontrivial=ntriv, kind=f"{g['shape']}/{v['cwd'].split(':')[0]}/{sc}")
            ctx.dist['hyp' if hyp else 'outside-hyp'] += 1
            if any(g['st'].values()):
                ctx.dist['with-patterns'] += 1
            case = {'group': {k: g[k] for k in ('tree', 'st', 'decoy', 'shape')}, 'loc': r['loc'],
                    'variant': v, 'cwd': r['cwd'], 'spelling': r['spelling'], 'spell_class': sc,
                    'hypParts': rep['hypParts'], 'model': M, 'spec': S}
            ctx.sample({'case': {k: case[k] for k in ('group', 'cwd', 'spelling')}, 'spec': S, 'impl': I, 'hyp': hyp})
            if hyp and not rep['modelEqSpec']:
                ctx.machinery_error('model != spec under hyp although C15_created_partial is proved', case)
                continue
            if I != S:
                what = (f"Torrent({r['spelling']!r}) from cwd={v['cwd']} differs from the result that depends "
                        f"only on tree and settings")
                if 'exc' in obs:
                    what += f" (raised {obs['exc']})"
                ctx.violation(what, case, S, I, finding_matchers=MATCHERS)
                continue
            if not hyp:
                ctx.dist['outside-hyp-but-meets-spec'] += 1
            elif I != M:
                ctx.corr_break('c15.create', case, M, I)
                continue
            # Torrent.files must be name/rel (or name) of exactly the stored entries
            if I['kind'] == 'multi':
                want_files = [['/'.join([I['name']] + p), s] for p, s in I['files']]
            elif I['kind'] == 'single':
                want_files = [[I['name'], I['size']]]
            else:
                want_files = []
            if obs['files'] != want_files:
                ctx.violation('Torrent.files is not name/path of the stored entries', case, want_files, obs['files'])
                continue
            ok_obs.append((case, obs))
            # list_files correspondence (not part of the specification)
            if 'listed' in r and r['order_ok'] and tree['files'] and not any(not f['rel'] for f in tree['files']):
                got = [('/' + x.lstrip('/')) if x.startswith('//') else x for x in r['listed']]
                if got != rep['listed']:
                    ctx.corr_break('c15.list', case, rep['listed'], r['listed'])
            elif 'listed' in r and not r['order_ok'] and tree['files']:
                ctx.dist['walk-order-not-recovered'] += 1
        # group level: piece length and infohash equal for all variants that meet the spec
        for field in ('piece_length', 'infohash'):
            vals = {}
            for case, obs in ok_obs:
                if field in obs:
                    vals.setdefault(obs[field], case)
            if len(vals) > 1:
                (a, ca), (b, cb) = list(vals.items())[:2]
                ctx.violation(f'{field} differs between two variants of the same tree and settings',
                              {'a': ca, 'b': cb}, a, b)


# ------------------------------------------------------------------------------------------

def _F(rel, size):
    return {'rel': rel.split('/') if rel else [], 'size': size}


NOPAT = {'exg': [], 'exr': [], 'ing': [], 'inr': []}


def empty_family():
    """fixed trees with empty files; every one runs under all (cwd, spelling) variants at both
    locations on every seed.  (tree name, files, settings, decoys below the unrelated cwd)"""
    E = []

    def add(tag, name, files, st=None, decoy=()):
        E.append((tag, name, [_F(r, n) for r, n in files], dict(NOPAT, **(st or {})),
                  [{'rel': r.split('/'), 'size': n} for r, n in decoy]))
    top = [('a', 3), ('b', 2), ('e', 0)]
    add('top', 'T', top)
    add('top-first-in-order', 'T', [('0', 0), ('a', 3), ('b', 2)])
    add('nested', 'T', [('a', 3), ('sub/e', 0), ('sub/b', 1), ('sub/x/y', 0), ('sub/x/z', 4)])
    add('nested-only-empties-in-dir', 'T', [('a', 3), ('b', 1), ('sub/e', 0), ('sub/x/f', 0)])
    add('in-hidden-dir', 'T', [('a', 3), ('b', 1), ('.hid/e', 0), ('.hid/x', 2), ('sub/.h/e', 0), ('sub/c', 1)])
    add('hidden-empty-file', 'T', [('a', 3), ('b', 1), ('.e', 0), ('sub/.e', 0), ('sub/c', 1)])
    add('only-file-in-dir', 'T', [('e', 0)])
    add('only-file-nested', 'T', [('sub/x/e', 0)])
    add('single-file-tree', 'e.bin', [('', 0)])
    add('all-empty', 'T', [('e', 0), ('f', 0), ('sub/g', 0), ('sub/x/h', 0)])
    add('hidden-root', '.T', [('a', 3), ('b', 1), ('e', 0), ('sub/e', 0)])
    add('include-glob-matches-empty', 'T', top, {'ing': ['T/e']})
    add('include-regex-matches-empty', 'T', top, {'inr': ['e$'], 'exg': ['*/b']})
    add('include-all-exclude-all', 'T', [('a', 3), ('b', 2), ('e', 0), ('sub/e', 0), ('sub/c', 1)],
        {'exg': ['*'], 'ing': ['*e', 'T/a']})
    add('exclude-matches-empty', 'T', top, {'exr': ['^T/e$']})
    add('case-variants', 'T', [('E', 0), ('e', 2), ('a/E.txt', 0), ('A/e.txt', 1)], {'exg': ['*/e.TXT']})
    # unrelated same-named files below the cwd (U/T/…): empty where the tree's is not, non-empty
    # where the tree's is empty, a directory of that name, nothing
    add('decoy-empty-for-nonempty', 'T', top, decoy=[('a', 0)])
    add('decoy-nonempty-for-empty', 'T', top, decoy=[('e', 5)])
    add('decoy-both', 'T', [('a', 3), ('b', 2), ('e', 0), ('sub/e', 0), ('sub/c', 1)],
        decoy=[('a', 0), ('e', 5), ('sub/c', 0), ('sub/e', 0)])
    add('decoy-directories', 'T', top, decoy=[('a', None), ('e', None)])
    add('decoy-with-patterns', 'T', top, {'exg': ['T/b'], 'ing': ['T/e']}, decoy=[('a', 0), ('b', 0), ('e', 1)])
    # the reach of D15c since d89a92e: the *non-empty* files share a directory / are one file
    add('d15c-one-nonempty-beside-empty', 'T', [('a.txt', 3), ('e', 0)], {'exg': ['T/a.txt']})
    add('d15c-nonempty-share-hidden-dir', 'T', [('e', 0), ('.hid/a', 1), ('.hid/b', 1)])
    add('d15c-nonempty-share-dir-no-pattern', 'T', [('e', 0), ('sub/a', 1), ('sub/b', 1)])
    rng = random.Random(15)
    gs = []
    for i, (tag, name, files, st, decoy) in enumerate(E):
        tree = {'name': name, 'files': files, 'dirs': []}
        gs.append({'gid': f'e{i}', 'shape': 'empty:' + tag, 'tree': tree, 'st': st, 'decoy': decoy,
                   'variants': variants_for(tree, rng), 'locs': [0, 1]})
    return gs


# ------------------------------------------------------------------------------------------
# `Torrent.files = [File(name/rel, size), …]` (outside C15's statement): correspondence with the
# model `filesSetter` only — what is probed is the given size and os.path.exists of the
# torrent-relative path below the cwd

def _run_files_setter(cases):
    torf = common.import_torf()
    wd = common.worker_dir()
    home = os.getcwd()
    out = []
    try:
        for c in cases:
            root = os.path.join(wd, f"fs{c['id']}")
            shutil.rmtree(root, ignore_errors=True)
            fs = []
            for cwdname, entries in c['world'].items():
                base = os.path.join(root, cwdname)
                os.makedirs(base, exist_ok=True)
                fs.append([_comps(base), None])
                for rel, size in entries:
                    p = os.path.join(base, rel)
                    if size is None:
                        os.makedirs(p, exist_ok=True)
                    else:
                        _write(p, size, 'w')
                    fs.append([_comps(p), size])
            res = []
            for cwdname in c['world']:
                cwd = os.path.join(root, cwdname)
                obs = {}
                try:
                    os.chdir(cwd)
                    t = torf.Torrent()
                    t.files = [torf.File(p, size=n) for p, n in c['items']]
                    info = t.metainfo['info']
                    if 'files' in info:
                        obs = {'kind': 'multi', 'name': info.get('name'),
                               'files': [[list(fi['path']), fi['length']] for fi in info['files']]}
                    elif 'length' in info:
                        obs = {'kind': 'single', 'name': info.get('name'), 'size': info['length']}
                    else:
                        obs = {'kind': 'empty'}
                except BaseException as e:  # noqa
                    obs = {'kind': 'error', 'err': type(e).__name__}
                finally:
                    os.chdir(home)
                res.append({'cwd': cwd, 'obs': obs})
            out.append({'case': c, 'fs': fs, 'results': res})
            shutil.rmtree(root, ignore_errors=True)
    finally:
        os.chdir(home)
    return out


def files_setter_cases(rng, n):
    cases = []
    fixed = [
        ([('T/a', 3), ('T/e', 0), ('T/zz', 0)],
         {'P': [('T/a', 3), ('T/e', 0)], 'Q': [], 'U': [('T/a', 0), ('T/e', 5)], 'D': [('T/e', None), ('T/zz/x', 1)]}),
        ([('T/e', 0)], {'P': [('T/e', 0)], 'Q': []}),
        ([('e', 0)], {'P': [('e', 0)], 'Q': []}),
        ([('a', 3)], {'P': [('a', 0)], 'Q': []}),
        ([('T/e', 0), ('T/f', 0)], {'P': [('T/e', 0)], 'Q': [], 'R': [('T/e', 0), ('T/f', 2)]}),
        ([('T/sub/a', 1), ('T/sub/e', 0), ('T/.h/x', 2)], {'P': [('T/sub/e', 0)], 'Q': [('T/sub', 0)]}),
        ([('A/x', 1), ('B/y', 2)], {'P': []}),
    ]
    for items, world in fixed:
        cases.append({'items': items, 'world': world})
    names = ['a', 'b', 'e', 'sub/c', 'sub/e', '.h/x', 'sub/x/y']
    for _ in range(n):
        k = rng.randint(1, 5)
        items = [('T/' + r, rng.choice([0, 0, 1, 4])) for r in rng.sample(names, k)]
        world = {}
        for cw in ('P', 'Q', 'R'):
            ent = []
            for p, _n in items:
                x = rng.random()
                if x < 0.35:
                    ent.append((p, rng.choice([0, 0, 3])))
                elif x < 0.45:
                    ent.append((p, None))
            world[cw] = ent
        cases.append({'items': items, 'world': world})
    for i, c in enumerate(cases):
        c['id'] = i
    return cases


def evaluate_files_setter(ctx, drv, cases):
    results = common.pmap(_run_files_setter, common.split(cases, common.NPROC * 2))
    flat = [(gr['case'], gr['fs'], r) for chunk in results for gr in chunk for r in gr['results']]
    reqs = [{'op': 'c15.files', 'cwd': _comps(r['cwd']), 'fs': fs,
             'items': [{'path': p.split('/'), 'size': n} for p, n in c['items']]} for c, fs, r in flat]
    for (c, fs, r), rep in zip(flat, drv.run(reqs)):
        ctx.dist['files-setter'] += 1
        if r['obs'] != rep['model']:
            ctx.corr_break('c15.files', {'items': c['items'], 'world': c['world'], 'cwd': r['cwd']},
                           rep['model'], r['obs'])


def witness_groups(ctx):
    gs = []
    for i, f in enumerate(ctx.open_findings()):
        w = f.get('witness', {})
        if 'group' in w:
            g = json.loads(json.dumps(w['group']))
            g['gid'] = f'w{i}'
            g.setdefault('decoy', [])
            g.setdefault('locs', [0])
            g.setdefault('shape', 'witness:' + f['id'])
            g['tree'].setdefault('dirs', [])
            for v in g['variants']:
                v.setdefault('wseed', 0)
            gs.append((f['id'], g))
    return gs


def corpus_groups():
    d = os.path.join(common.CORPUS_DIR, 'C15')
    gs = []
    if os.path.isdir(d):
        for fn in sorted(os.listdir(d)):
            if fn.endswith('.json'):
                g = json.load(open(os.path.join(d, fn)))
                g['gid'] = 'c' + fn[:-5]
                g.setdefault('decoy', [])
                g.setdefault('locs', [0, 1])
                g.setdefault('shape', 'corpus')
                g['tree'].setdefault('dirs', [])
                for v in g['variants']:
                    v.setdefault('wseed', 0)
                gs.append(g)
    return gs


def gen_groups(ctx, scale=1.0):
    n = int(ctx.n(150, 3000) * scale)
    return [gen_group(ctx.rng, i) for i in range(n)]


def run(ctx, drv):
    ctx.notes['rule'] = RULE
    ctx.notes['assumptions'] = ASSUMPTIONS
    # 1. witnesses of the open findings, each on its own so that reproduction is attributable
    for fid, g in witness_groups(ctx):
        before = ctx.dist.get('known-finding:' + fid, 0)
        evaluate(ctx, drv, [g], thorough=False)
        if ctx.dist.get('known-finding:' + fid, 0) == before:
            ctx.not_reproduced.append(fid)
    # 2. corpus, 3. the fixed family of trees with empty files, 4. generated groups
    evaluate(ctx, drv, corpus_groups() + empty_family() + gen_groups(ctx), thorough=ctx.thorough)
    # 5. the `files` setter against its model (correspondence only)
    evaluate_files_setter(ctx, drv, files_setter_cases(ctx.rng, ctx.n(60, 600)))
    ctx.exhaustive = False


def search(ctx, drv):
    gs = gen_groups(ctx, scale=2.0)
    for i, g in enumerate(gs):
        g['gid'] = f's{i}'
    evaluate(ctx, drv, gs, thorough=False)


def replay(ctx, drv, rp):
    case = rp['case']
    if 'a' in case and 'group' not in case:
        case = case['a']
    g = json.loads(json.dumps(case['group']))
    g['gid'] = 'replay'
    g.setdefault('decoy', [])
    g['locs'] = [case.get('loc', 0)]
    g['tree'].setdefault('dirs', [])
    g['variants'] = [case['variant']]
    evaluate(ctx, drv, [g], thorough=False)
    return {'fails': bool(ctx.violations or ctx.known or ctx.corr_breaks),
            'violations': ctx.violations, 'known': list(ctx.known), 'corr_breaks': ctx.corr_breaks}
