"""
C12 — progress reports count every piece once and always finish.

The real generate()/verify() run under the scheduler shim with a virtual clock chosen by the
schedule (multiples of 1/8 s) and reporting intervals {0, 1/8, 1, 1000}.  The complete argument
trace of the user callback is (1) judged against the statement directly and (2) compared with
the Lean model `Callbacks.calls` fed with the arrival order the collector actually saw and the
clock values the interval gate actually read (the theorems hold for every arrival order,
interval and clock).
"""
import json

from harness import common
from harness.gen import layouts
from harness.props import c03
from harness.sched import runner

RULE = ('case = C03 case (with a passive user callback) x reporting interval {0, 1/8, 1, 1000 s} x schedule (which also '
        'drives the virtual clock); layouts with and without bad files / corrupt pieces; non-trivial = >= 3 pieces '
        'and (interval > 0 or an error item or >= 2 hasher threads); distinct = distinct (case, schedule) pairs')

MATCHERS = {}


def gen_cases(ctx, scale=1.0):
    rng = ctx.rng
    cases = c03.gen_cases(ctx, scale=scale * 0.9)
    for c in cases:
        c['cb'] = {'table': {}}
        c['interval'] = rng.choice([0, 0, 0.125, 1.0, 1000.0])
        # the same number as Decimal / Fraction / int / bool: the gate compares, it must not need arithmetic on the interval
        c['interval_type'] = rng.choice(['float', 'float', 'decimal', 'fraction', 'int', 'bool'])
    return cases


def evaluate(ctx, drv, cases, optimized=False):
    vidx = [i for i, c in enumerate(cases) if c03.needs_c02(c)]
    c02 = drv.run([{'op': 'c02.verify', 'L': cases[i]['L'], 'sizes': cases[i]['sizes'], 'disk': cases[i]['disk'],
                    'flips': c03.model_flips(cases[i]), 'single': False, 'pathIsDir': True} for i in vidx])
    c02by = dict(zip(vidx, c02))
    # optimized=True: the same cases in child interpreters started with -O (assert statements compiled away)
    results = common.pmap(c03._run_chunk_opt if optimized else c03._run_chunk,
                          common.split(cases, common.NPROC if optimized else common.NPROC * 4))
    flat = [x for chunk in results for x in chunk]
    reqs = []
    for i, (c, obs) in enumerate(flat):
        if 'harness_exc' in obs:
            raise RuntimeError(f'harness failure: {obs["harness_exc"]}')
        cfg = c03.model_cfg(c, c02by.get(i))
        pqm = (obs.get('structure') or {}).get('pq_max')
        if pqm and pqm > 0:
            cfg['cap'] = pqm
        reqs.append({'op': 'c03.replay', 'cfg': cfg, 'trace': obs['trace']})
    replies = drv.run(reqs)
    creqs = []
    meta = []
    for i, ((c, obs), rep) in enumerate(zip(flat, replies)):
        case = {k: c[k] for k in ('mode', 'L', 'sizes', 'paths', 'cseed', 'threads', 'disk', 'flips', 'cb',
                                  'interval', 'strategy', 'max_steps')}
        if c.get('interval_type', 'float') != 'float':
            case['interval_type'] = c['interval_type']
        if c.get('patches'):
            case['patches'] = c['patches']
        if c.get('late'):
            case['late'] = c['late']
        total = obs['total']
        ctx.case(key=json.dumps(case, sort_keys=True),
                 nontrivial=total >= 3 and (c['interval'] > 0 or any(d != 'ok' for d in c['disk']) or
                                            bool(c['flips']) or bool(c.get('patches')) or c['threads'] >= 2),
                 kind=f"{c['mode']}/interval={c['interval']}/N{c['threads']}" + ('/python -O' if optimized else ''))
        if optimized:
            case['python'] = '-O' 
        ctx.sample({'case': case, 'calls': [(cl['done'], cl.get('piece'), (cl.get('exc') or {}).get('kind'))
                                            for cl in obs['calls']][:12]}, limit=3)
        if obs['outcome'] != 'done':
            # termination problems are C03's business; report them here too, they void the "always finish" clause
            if obs['outcome'] in ('deadlock', 'livelock'):
                ctx.violation(f'{c["mode"]}: run does not finish ({obs["outcome"]}), so no final report', case,
                              'final call with done = total', {'outcome': obs['outcome'], 'stuck': obs['stuck']}, MATCHERS)
            continue
        judge_spec(ctx, c, case, obs, c02by.get(i))
        if not c03.check_correspondence(ctx, c, case, obs, rep):
            continue
        # model of the reporting layer on the observed arrival order and clock values
        arrival = rep['seen']
        kinds = reqs[i]['cfg']['items']
        nexc = {}
        if c['mode'] == 'verify':
            for cl in c02by[i]['calls']:
                if cl['exc'] is not None and cl['exc']['kind'] in ('read', 'size'):
                    nexc[cl['piece']] = nexc.get(cl['piece'], 0) + 1
        nows = obs['gate_nows']
        if len(nows) < len(arrival):
            ctx.corr_break('c12.gate', case, f'{len(arrival)} gate evaluations', f'{len(nows)} clock reads')
            continue
        evs = [[p, kinds[p], nexc.get(p, 0), int(nows[k] * 8)] for k, p in enumerate(arrival)]
        creqs.append({'op': 'c12.calls', 'verify': c['mode'] == 'verify', 'interval': int(c['interval'] * 8),
                      'total': total, 'evs': evs})
        meta.append((c, case, obs))
    creplies = drv.run(creqs)
    for (c, case, obs), r in zip(meta, creplies):
        if c['mode'] == 'verify':
            got = [[cl['done'], cl['piece'], cl['exc'] is not None] for cl in obs['calls']]
            want = [[d, p, e is not None] for d, p, e in r['calls']]
        else:
            got = [cl['done'] for cl in obs['calls']]
            want = [d for d, p, e in r['calls']]
        if got != want:
            ctx.corr_break('c12.calls', case, want[:30], got[:30])


def judge_spec(ctx, c, case, obs, c02reply):
    calls = obs['calls']
    total = obs['total']
    problems = []
    if any(not cl['same_torrent'] for cl in calls):
        problems.append('callback did not receive the torrent itself')
    if any(cl['total'] != total for cl in calls):
        problems.append(f'callback received total {sorted(set(cl["total"] for cl in calls))} instead of {total}')
    dones = [cl['done'] for cl in calls]
    if any(d < 1 or d > total for d in dones):
        problems.append(f'done-counter out of 1..{total}: {dones}')
    for a, b in zip(calls, calls[1:]):
        if b['done'] < a['done']:
            problems.append(f'done-counter decreased: {dones}')
            break
        if b['done'] == a['done']:
            if c['mode'] != 'verify' or a.get('piece') != b.get('piece') or a.get('exc') is None or b.get('exc') is None:
                problems.append(f'done-counter value {a["done"]} repeated without delivering errors of one piece')
                break
    cancelled = 'raised' in (obs['result'] or {})
    if c['interval'] == 0 and not cancelled:
        distinct = sorted(set(dones))
        if distinct != list(range(1, total + 1)):
            problems.append(f'zero interval: done values {distinct} instead of 1..{total}')
    if not cancelled and total > 0:
        if not calls or calls[-1]['done'] != total:
            problems.append(f'last call reports done={calls[-1]["done"] if calls else None}, not total={total} '
                            f'(interval {c["interval"]})')
    if c['mode'] == 'verify':
        rep = sorted((cl['exc']['file'], cl['exc']['kind']) for cl in calls
                     if cl['exc'] and cl['exc']['kind'] in ('read', 'size'))
        bad = sorted((e[0], e[1]) for e in c02reply['bad'])
        mism = sorted(cl['piece'] for cl in calls if cl['exc'] and cl['exc']['kind'] == 'content')
        if rep != bad:
            problems.append(f'read/size errors reported {rep}, expected {bad} (interval {c["interval"]})')
        if mism != sorted(c02reply['mismatches']):
            problems.append(f'hash mismatches reported for pieces {mism}, expected {sorted(c02reply["mismatches"])} '
                            f'(interval {c["interval"]})')
    if c['mode'] == 'generate' and c02reply is not None and c02reply['bad']:
        # hashing: the error of a file that cannot be read as recorded is never held back by the interval either —
        # generate() raises it (one of them, if several files are bad)
        exp = c03.expected_outcome(c, c02reply)
        if not c03._match_expected(exp, obs['result']):
            problems.append(f'generate() on files whose size changed: outcome {obs["result"]}, expected {exp} '
                            f'(interval {c["interval"]})')
    if problems:
        ctx.violation(f'{c["mode"]}(threads={c["threads"]}, interval={c["interval"]}): ' + '; '.join(problems[:3]),
                      case, 'callback contract of C12',
                      {'calls': [(cl['done'], cl.get('piece'), (cl.get('exc') or {}).get('kind'), cl['now'])
                                 for cl in calls][:40], 'total': total, 'result': obs['result']}, MATCHERS)


def run(ctx, drv):
    ctx.notes['rule'] = RULE
    ctx.notes['assumptions'] = [
        'as C03; the clock is the shim\'s virtual clock (multiples of 1/8 s, never decreasing)',
        'the user callback is passive (cancellation: C04); one interval-gate evaluation per collected result',
        'the mode-mismatch report issued before the pipeline starts (done = 0) is outside "during hashing and verification"',
        'a tenth of the cases is repeated in child interpreters started with `python -O` (assert statements compiled away)',
    ]
    evaluate(ctx, drv, gen_cases(ctx))
    if not ctx.violations:
        evaluate(ctx, drv, gen_cases(ctx, scale=0.1), optimized=True)


def search(ctx, drv):
    evaluate(ctx, drv, gen_cases(ctx, scale=2.0))


def replay(ctx, drv, rp):
    c = dict(rp['case'])
    evaluate(ctx, drv, [c], optimized=c.pop('python', None) == '-O')
    return {'fails': bool(ctx.violations or ctx.corr_breaks), 'violations': ctx.violations,
            'corr_breaks': ctx.corr_breaks}
