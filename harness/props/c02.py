"""
C02 — content verification is exact.

Lean side: `Verify.verifySeq` (code-shaped sequential reference of Torrent.verify with
VerifyCallback and VerifyContentError) on top of `Missing.iterItems`, and the specification
(`SpecOk`, `badFiles`, `mismatches`, `overlapping`).  Real side: `Torrent.verify()` on a tmpfs
tree damaged in the same way (missing / one byte short / one byte long files, flipped bytes).
"""
import os

from harness import common
from harness.gen import layouts
from harness.impl import content

FLIP = 1 << 39

RULE = ('case = (piece length, file sizes, per-file disk state ok|missing|actual size, flipped byte positions, '
        'single/multi-file, path kind, threads, callback yes/no); damaged trees: every subset of <=3 files '
        'missing/-1/+1 in small scopes, byte flips at first/last byte of pieces and files and random '
        'positions, zero-length entries, renamed top-level directory; non-trivial = damaged and the damaged '
        'piece/file shares a piece with another file, or intact with >=2 files; distinct = distinct case tuples')


def _bad_empty_at_boundary(case):
    L, sizes, disk = case['L'], case['sizes'], case['disk']
    pos = 0
    for s, st in zip(sizes, disk):
        if s == 0 and st != 'ok' and pos % L == 0:
            return True
        pos += s
    return False


def _d10a(case, observed, finding):
    if not isinstance(observed, dict) or not _bad_empty_at_boundary(case):
        return False
    if observed.get('exc_type') == 'IndexError':
        return True
    return observed.get('deviation') == 'duplicate-report-only'


MATCHERS = {'bad_empty_entry_at_piece_boundary': _d10a}


def _good_bytes(c, i, size):
    return content.file_bytes(c['cseed'], i, size)


def _make(wd, c):
    files = [{'path': p, 'size': s} for p, s in zip(c['paths'], c['sizes'])]
    dirname = c.get('dirname', 'T')
    single = c['single']
    top = os.path.join(wd, dirname)
    content.make_tree(wd, dirname, files, seed=c['cseed'], single=single)
    orig = [_good_bytes(c, i, f['size']) for i, f in enumerate(files)]
    now = []
    flips = {}
    for f, o in c['flips']:
        flips.setdefault(f, []).append(o)
    for i, (f, st) in enumerate(zip(files, c['disk'])):
        p = top if single else os.path.join(top, *f['path'])
        data = bytearray(orig[i])
        if st == 'missing':
            os.unlink(p)
            now.append(None)
            continue
        if st != 'ok':
            n = int(st)
            data = bytearray((orig[i] + content.file_bytes(c['cseed'] + 1, i, max(0, n - len(orig[i]))))[:n])
        for o in flips.get(i, []):
            if o < len(data):
                data[o] ^= 0xFF
        if st != 'ok' or i in flips:
            with open(p, 'wb') as fh:
                fh.write(bytes(data))
        now.append(bytes(data))
    return files, orig, now, top


def _exc_obs(torf, e, index_of):
    if isinstance(e, torf.VerifyContentError):
        return {'kind': 'content', 'piece': e.piece_index,
                'files': sorted(index_of.get(str(f), -1) for f in e.files)}
    if isinstance(e, torf.ReadError):
        return {'kind': 'read', 'file': index_of.get(str(e.path), -1)}
    if isinstance(e, torf.VerifyFileSizeError):
        return {'kind': 'size', 'file': index_of.get(str(e.filepath), -1)}
    if isinstance(e, torf.VerifyIsDirectoryError):
        return {'kind': 'isDir'}
    if isinstance(e, torf.VerifyNotDirectoryError):
        return {'kind': 'notDir'}
    if isinstance(e, torf.TorfError):
        return {'kind': 'torf:' + type(e).__name__}
    return {'kind': 'internal', 'exc_type': type(e).__name__, 'msg': str(e)[:120]}


def _run_chunk(cases):
    torf = common.import_torf()
    wd = common.worker_dir()
    out = []
    for c in cases:
        obs = {}
        orig = now = None
        try:
            files, orig, now, top = _make(wd, c)
            L = c['L']
            stream = b''.join(orig)
            pieces = b''.join(common.sha1(stream[i:i + L]) for i in range(0, len(stream), L))
            t = content.make_torrent(torf, wd, 'T', files, L, single=c['single'], with_path=False)
            t.metainfo['info']['pieces'] = pieces
            if L % 16384 != 0:
                t.validate = lambda: None   # small piece lengths: skip only the validate() gate
            path = top
            if c['pathkind'] == 'dir-for-single':
                path = os.path.join(wd, 'adir')
                os.makedirs(path, exist_ok=True)
            elif c['pathkind'] == 'file-for-multi':
                path = os.path.join(wd, 'afile')
                open(path, 'wb').write(b'x')
            elif c['pathkind'] == 'nothing-for-multi':
                path = os.path.join(wd, 'nonexistent')
            if c['single']:
                index_of = {path: 0}
            else:
                index_of = {os.path.join(path, *f['path']): i for i, f in enumerate(files)}
            for mode in ('nocb', 'cb'):
                calls = []

                def cb(tor, fp, done, total, pi, ph, exc):
                    calls.append({'same_torrent': tor is t, 'done': done, 'total': total, 'piece': pi,
                                  'hash': ph, 'exc': None if exc is None else _exc_obs(torf, exc, index_of)})
                try:
                    r = t.verify(path, threads=c['threads'], callback=cb if mode == 'cb' else None, interval=0)
                    obs[mode] = {'ok': r}
                except BaseException as e:  # noqa
                    obs[mode] = {'error': _exc_obs(torf, e, index_of)}
                if mode == 'cb':
                    obs['calls'] = calls
        except BaseException as e:  # noqa
            obs['harness_exc'] = f'{type(e).__name__}: {e}'
        out.append((c, obs, orig, now))
    return out


def _states(size):
    return ['missing', size + 1] + ([size - 1] if size > 0 else [])


def _gen_damage(rng, L, sizes, kind):
    n = len(sizes)
    disk = ['ok'] * n
    flips = []
    total = sum(sizes)
    if kind == 'intact':
        pass
    elif kind == 'flip':
        # boundary bytes of pieces and files, and random positions
        cands = set()
        pos = 0
        for s in sizes:
            if s:
                cands |= {pos, pos + s - 1}
            pos += s
        for p in range(0, total, L):
            cands |= {p, min(total - 1, p + L - 1)}
        cands = sorted(cands)
        k = rng.choice([1, 1, 1, 2, 3])
        for _ in range(k):
            p = rng.choice(cands) if rng.random() < 0.7 else rng.randrange(total)
            pos = 0
            for i, s in enumerate(sizes):
                if p < pos + s:
                    if [i, p - pos] not in flips:
                        flips.append([i, p - pos])
                    break
                pos += s
    elif kind == 'files':
        for i in rng.sample(range(n), min(n, rng.choice([1, 1, 2, 3]))):
            disk[i] = rng.choice(_states(sizes[i]))
    else:  # both
        for i in rng.sample(range(n), min(n, rng.choice([1, 2]))):
            disk[i] = rng.choice(_states(sizes[i]))
        i = rng.randrange(n)
        if sizes[i]:
            flips.append([i, rng.randrange(sizes[i])])
    return disk, flips


def gen_cases(ctx, scale=1.0):
    rng = ctx.rng
    cases = []

    def add(L, sizes, kind, single=False, pathkind='normal', threads=1, nested=True):
        disk, flips = _gen_damage(rng, L, sizes, kind)
        cases.append({'L': L, 'sizes': sizes, 'disk': disk, 'flips': flips, 'single': single,
                      'pathkind': pathkind, 'threads': threads, 'kind': kind,
                      'paths': layouts.paths_for(len(sizes), rng, nested), 'cseed': rng.randrange(1 << 30),
                      'dirname': rng.choice(['T', 'T', 'renamed'])})

    # small scopes, every layout with one damage pattern each of several kinds
    scope = list(layouts.exhaustive([2, 3], 3)) if not ctx.thorough else \
        list(layouts.exhaustive([2, 3], 4)) + list(layouts.exhaustive([4], 3))
    scope = [(L, s) for (L, s) in scope if sum(s) > 0]
    step = 1
    for i, (L, sizes) in enumerate(scope):
        for kind in (('flip', 'files') if i % 3 else ('intact', 'flip', 'files', 'both')):
            add(L, list(sizes), kind, threads=1, nested=False)
    ctx.notes['exhaustive_scope'] = 'all layouts L in {2,3} (<=3 files quick, <=4 thorough; L=4 <=3 thorough), sizes 0..2L+1, one random damage per kind'
    for _ in range(int(ctx.n(900, 25000) * scale)):
        L = rng.choice([2, 3, 4, 5, 8, 16, 64])
        shape, sizes = layouts.random_sizes(rng, L, nmax=24)
        add(L, sizes, rng.choice(['intact', 'flip', 'flip', 'files', 'files', 'both']),
            threads=rng.choice([1, 1, 2, 3, 4]))
    # real piece lengths through the unpatched public API (validate() runs)
    for _ in range(int(ctx.n(80, 2000) * scale)):
        L = 16384 * rng.choice([1, 1, 2])
        n = rng.randint(1, 6)
        sizes = [max(0, rng.choice([0, 1, L - 1, L, L + 1, rng.randint(0, 2 * L), rng.randint(0, L // 16)]))
                 for _ in range(n)]
        if sum(sizes) == 0:
            sizes[0] = L + 1
        add(L, sizes, rng.choice(['intact', 'flip', 'files', 'both']), threads=rng.choice([1, 2, 4]))
    # single-file torrents and path-kind mismatches
    for _ in range(int(ctx.n(120, 2500) * scale)):
        L = rng.choice([2, 3, 8, 16384])
        if rng.random() < 0.6:
            sizes = [max(1, layouts.boundary_sizes(rng, L))]
            add(L, sizes, rng.choice(['intact', 'flip', 'files']), single=True,
                pathkind=rng.choice(['normal', 'normal', 'dir-for-single']), nested=False)
        else:
            shape, sizes = layouts.random_sizes(rng, L, nmax=13)
            add(L, sizes, 'intact', pathkind=rng.choice(['file-for-multi', 'nothing-for-multi']))
    return cases


def _bytes_of(runs, now):
    if runs is None:
        return None
    out = b''
    for f, o, n in runs:
        if o >= FLIP:
            o -= FLIP
        out += now[f][o:o + n]
    return out


def _norm_model_exc(e):
    if e is None:
        return None
    e = dict(e)
    if 'files' in e:
        e['files'] = sorted(e['files'])
    return e


def evaluate(ctx, drv, cases):
    reqs = []
    for c in cases:
        pid = c['pathkind'] not in ('file-for-multi', 'nothing-for-multi') if not c['single'] else \
            c['pathkind'] == 'dir-for-single'
        reqs.append({'op': 'c02.verify', 'L': c['L'], 'sizes': c['sizes'], 'disk': c['disk'], 'flips': c['flips'],
                     'single': c['single'], 'pathIsDir': pid})
    replies = drv.run(reqs)
    results = common.pmap(_run_chunk, common.split(cases, common.NPROC * 4))
    k = 0
    for chunk in results:
        for (c, obs, orig, now) in chunk:
            r = replies[k]
            k += 1
            case = {x: c[x] for x in ('L', 'sizes', 'disk', 'flips', 'single', 'pathkind', 'threads', 'paths',
                                      'cseed', 'dirname')}
            damaged = any(d != 'ok' for d in c['disk']) or bool(c['flips'])
            ctx.case(key=(c['L'], tuple(c['sizes']), tuple(map(str, c['disk'])), tuple(map(tuple, c['flips'])),
                          c['single'], c['pathkind']),
                     nontrivial=len(c['sizes']) >= 2, kind=c['kind'] + ('/single' if c['single'] else '') +
                     ('' if c['pathkind'] == 'normal' else '/' + c['pathkind']))
            if 'harness_exc' in obs:
                raise RuntimeError(f'harness failure on {case}: {obs["harness_exc"]}')
            ctx.sample({'case': case, 'model_nocb': r['nocb'], 'model_cb': r['cb']}, limit=4)
            pathmismatch = c['pathkind'] != 'normal'
            # ---- 1. implementation against the specification
            spec_ok = r['specOk'] and not pathmismatch
            nocb, cb, calls = obs['nocb'], obs['cb'], obs['calls']
            problems = []
            if spec_ok:
                if nocb != {'ok': True} or cb != {'ok': True}:
                    problems.append('intact content did not verify')
            else:
                if 'ok' in nocb:
                    problems.append(f'damaged content: verify() without callback returned {nocb["ok"]} instead of raising')
                elif nocb['error']['kind'] not in ('read', 'size', 'content', 'isDir', 'notDir'):
                    problems.append(f'verify() raised an undocumented error: {nocb["error"]}')
                if cb != {'ok': False}:
                    problems.append(f'damaged content: verify() with callback gave {cb}')
                if not any(cl['exc'] for cl in calls):
                    problems.append('verify() with callback returned False without reporting any error')
            if not pathmismatch and 'ok' in cb:
                rep = sorted((cl['exc']['file'], cl['exc']['kind']) for cl in calls
                             if cl['exc'] and cl['exc']['kind'] in ('read', 'size'))
                bad = sorted((e[0], e[1]) for e in r['bad'])
                if rep != bad:
                    problems.append(f'bad files reported {rep} expected {bad}')
                cerr = {cl['piece']: cl['exc'] for cl in calls if cl['exc'] and cl['exc']['kind'] == 'content'}
                # outside the theorem's hypothesis a bad zero-length entry may blank a neighbouring piece
                required = [p for p in r['mismatches'] if r['hyp'] or not r['mayBlank'][p]]
                if not (set(required) <= set(cerr) <= set(r['mismatches'])):
                    problems.append(f'content errors for pieces {sorted(cerr)} expected {sorted(r["mismatches"])}')
                for p, e in cerr.items():
                    if e['piece'] != p or not set(r['overlapping'][p] if p < len(r['overlapping']) else []) <= set(e['files']):
                        problems.append(f'content error of piece {p} names {e} but files {r["overlapping"][p]} overlap it')
                if any(not cl['same_torrent'] or cl['total'] != r['pieces'] for cl in calls):
                    problems.append('callback got a wrong torrent or total')
            if problems:
                observed = {'nocb': nocb, 'cb': cb, 'calls': calls[:20], 'problems': problems}
                for m in (nocb, cb):
                    if 'error' in m and m['error'].get('kind') == 'internal':
                        observed['exc_type'] = m['error'].get('exc_type')
                if len(problems) == 1 and problems[0].startswith('bad files reported') and \
                        sorted(set(rep)) == bad:
                    observed['deviation'] = 'duplicate-report-only'
                fid = ctx.violation('verify(): ' + '; '.join(problems[:3]), case,
                                    {'specOk': spec_ok, 'bad': r['bad'], 'mismatches': r['mismatches']},
                                    observed, MATCHERS)
                if fid is None:
                    continue
            # ---- 2. implementation against the code-shaped model (only under the theorem's hypothesis;
            #         outside it the comparison with the specification above is what counts)
            if not r['hyp']:
                ctx.dist['outside-hyp(bad empty entry)'] += 1
                continue
            mcalls = [{'done': cl['done'], 'piece': cl['piece'],
                       'hash': None if cl['hash'] is None else common.sha1(_bytes_of(cl['hash'], now)),
                       'exc': _norm_model_exc(cl['exc'])} for cl in r['calls']]
            icalls = [{'done': cl['done'], 'piece': cl['piece'], 'hash': cl['hash'], 'exc': cl['exc']} for cl in calls]
            mn = dict(r['nocb'])
            if 'error' in mn:
                mn['error'] = _norm_model_exc(mn['error'])
            inocb = dict(nocb)
            if 'error' in inocb and inocb['error'].get('kind') == 'internal':
                inocb = {'error': {'kind': 'internal'}}
            icb = cb if not ('error' in cb and cb['error'].get('kind') == 'internal') else {'error': {'kind': 'internal'}}
            if c['threads'] == 1:
                same = (mn == inocb and r['cb'] == icb and (mcalls == icalls or 'error' in icb))
            else:
                def key(cl):
                    import json
                    return (cl['piece'], json.dumps(cl['exc'], sort_keys=True))
                a = sorted([{**cl, 'done': 0} for cl in mcalls], key=key)
                b = sorted([{**cl, 'done': 0} for cl in icalls], key=key)
                possible = [cl['exc'] for cl in mcalls if cl['exc']]
                same = (r['cb'] == icb and (a == b or 'error' in icb) and
                        (mn == inocb or ('error' in inocb and inocb['error'] in possible)))
            if not same:
                ctx.corr_break('c02.verify', case,
                               {'nocb': mn, 'cb': r['cb'], 'calls': [{**cl, 'hash': cl['hash'] and cl['hash'].hex()} for cl in mcalls][:12]},
                               {'nocb': inocb, 'cb': icb, 'calls': [{**cl, 'hash': cl['hash'] and cl['hash'].hex()} for cl in icalls][:12]})


def run(ctx, drv):
    ctx.notes['rule'] = RULE
    ctx.notes['assumptions'] = [
        'SHA-1 is a parameter H; statements about detection carry the hypothesis that H separates the two piece contents; '
        'the driver runs the model with an injective H and the harness applies real SHA-1',
        'for piece lengths that are not multiples of 16 KiB only the validate() gate of verify() is bypassed on the instance; '
        'real multiples of 16 KiB run through the unpatched API',
        'the callback is passive (cancellation: C04); order of callback calls is compared exactly for one hasher thread '
        'and as a set for several (schedules: C03, counters: C12)',
        'the torrent passed validate() (C07)',
    ]
    evaluate(ctx, drv, gen_cases(ctx))


def search(ctx, drv):
    evaluate(ctx, drv, gen_cases(ctx, scale=3.0))


def replay(ctx, drv, rp):
    evaluate(ctx, drv, [dict(rp['case'], kind='replay')])
    return {'fails': bool(ctx.violations or ctx.corr_breaks), 'violations': ctx.violations,
            'corr_breaks': ctx.corr_breaks, 'known': list(ctx.known)}
