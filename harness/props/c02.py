"""
C02 — content verification is exact.

Lean side: `VerifyFs.verifyFs` (code-shaped sequential reference of Torrent.verify with
VerifyCallback and VerifyContentError over every state a listed path can be in; it is
`Verify.verifySeq` on the two classic states, theorem `C02_fs_conservative`) on top of
`Missing.missingCall`, and the specification (`SpecOkFs`, `owed`, `badFiles`, `mismatches`,
`overlapping`).  Real side: `Torrent.verify()` on a tmpfs tree damaged in the same way.

History of the Torrent object (`case['origin']`): 'loaded' (metainfo assigned, `path` None — as
read from a .torrent), 'path-attr' (the same object with its `path` attribute pointing to an intact
original elsewhere), and through the public API only — 'created' (`Torrent(path=original)` +
`generate()` in this session), 'reread' (created, dumped, `read_stream`), 'copy' (`created.copy()`),
'reassigned' (created from one original, `path` re-assigned to a second one, `generate()` again).
Directory given to verify() (`case['verify_as']`): 'direct' (a copy of the content, possibly with a
renamed top directory), 'relative' (the same, spelled relative to the working directory),
'symlink-top' (through a symbolic link to the top directory), 'original' (`Torrent.path` itself).
Reporting interval (`case['interval']`, `case['clock']`): 0 / tiny / 1 / huge with the real clock,
or any integer interval with `time_monotonic` of torf._generate pinned to `case['clock']` (one value
per collected piece: frozen, stepping, jumping, running backwards) — one hasher thread then.

Spelling of the content path (`case['family'] == 'spelling'`): a sandbox `world/` with `a/link -> b/t`
(absolute or relative target), `a/toplink -> b/content`, `a/cwdlink -> b/t`, the tree the caller
names at `b/content` (`case['disk']`, `case['flips']`) and possibly another tree at `a/content`
(`case['textual']`, `case['tflips']`: absent / intact / damaged) — where `os.path.normpath` of the
spelling points; `case['spelling']` = the path given to verify() relative to the sandbox root
(`/a/link/../content`, `/a/link/../x/../content`, `/b//content`, `/b/./content`, `/b/content/`,
`/a/toplink/../content`, …) or relative to `case['cwd']` (a directory that may be reached through a
symbolic link).  The model gets the inode table (`c02.verifyspelled`).
Resource environment (`case['family'] == 'fds'`): soft RLIMIT_NOFILE of the worker lowered to
(descriptors in use + `case['fds']`) around verify(); 1…300 listed files.

State of a listed path (`case['disk'][i]`):
  'ok' | 'missing' | n                         regular file (n = actual size)
  {'k':'file','size':n,'how':'symlink'}        symbolic link to a regular file of n bytes
  {'k':'gone','errno':e,'how':…}               os.path.exists() false, open() raises OSError(e):
        'eloop' link to itself, 'dangling' link, 'enotdir' a parent directory replaced by a regular
        file, 'toolong' a name of 300 characters, 'inject' (patched exists/open: EACCES on a parent …)
  {'k':'noopen','stat':n,'errno':e,'how':…}    exists with stat size n, open() raises OSError(e):
        'dir' a directory in its place, 'socket' a unix socket, 'inject' (patched open: EACCES —
        the tests run as root —, EMFILE, EIO …)
  {'k':'readerr','size':n,'off':o,'errno':e}   regular file of n bytes; a read() that covers byte
        offset o raises OSError(e) (patched open in torf._stream returns a proxy handle)
"""
import errno
import os
import re
import shutil
import socket

from harness import common
from harness.gen import layouts
from harness.impl import content

FLIP = 1 << 39

RULE = ('case = (piece length, file sizes, per-file path state, flipped byte positions, single/multi-file, '
        'path kind, threads, callback yes/no, history of the Torrent object, spelling of the verified directory, '
        'reporting interval and clock); path state = regular file ok / missing / other size / symlink '
        'to a file / not stat-able with open() failing ENOENT, ENOTDIR, ELOOP, ENAMETOOLONG, EACCES / '
        'stat-able with open() failing EISDIR (directory), ENXIO (socket), EACCES, EMFILE, EIO / readable '
        'with an OSError at the read covering a byte offset; damaged trees: every subset of <=3 files '
        'missing/-1/+1 in small scopes, every abstract state at every file position of every layout with '
        '<=3 files of 0..3 bytes (L=2), byte flips at first/last byte of pieces and files and random '
        'positions, zero-length entries, renamed top-level directory; non-trivial = >=2 files; '
        'distinct = distinct case tuples')

ERRNAMES = {2: 'ENOENT', 5: 'EIO', 6: 'ENXIO', 13: 'EACCES', 20: 'ENOTDIR', 21: 'EISDIR', 24: 'EMFILE',
            36: 'ENAMETOOLONG', 40: 'ELOOP', 116: 'ESTALE'}


# ---------------------------------------------------------------- path states

def _kind(st):
    return st['k'] if isinstance(st, dict) else ('ok' if st == 'ok' else 'gone' if st == 'missing' else 'file')


def _main_bad(size, st):
    """is the file bad for the main loop of iter_pieces (`fileError` of the Lean `mainDisk`)?"""
    if st == 'ok':
        return False
    if st == 'missing':
        return True
    if not isinstance(st, dict):
        return int(st) != size
    k = st['k']
    if k == 'gone' or k == 'noopen':
        return True
    return st.get('size', size) != size          # file / readerr


def _legacy(c):
    return all(not isinstance(st, dict) for st in c['disk'])


def _describe(c):
    """one-line description of what is wrong with the content of a case (for messages)"""
    out = []
    for i, st in enumerate(c['disk']):
        if st == 'ok':
            continue
        if st == 'missing':
            out.append(f'file {i} missing')
        elif not isinstance(st, dict):
            out.append(f'file {i} has {st} instead of {c["sizes"][i]} bytes')
        elif st['k'] == 'file':
            n = st.get('size')
            out.append(f'file {i} is a symlink to a file' + ('' if n is None or n == c['sizes'][i] else f' of {n} bytes'))
        elif st['k'] == 'gone':
            out.append(f'file {i} not stat-able, open() fails {ERRNAMES.get(st["errno"], st["errno"])} ({st.get("how")})')
        elif st['k'] == 'noopen':
            out.append(f'file {i} has stat size {st["stat"]} (recorded {c["sizes"][i]}), open() fails '
                       f'{ERRNAMES.get(st["errno"], st["errno"])} ({st.get("how")})')
        else:
            out.append(f'file {i}: read() covering offset {st["off"]} fails {ERRNAMES.get(st["errno"], st["errno"])}')
    for f, o in c['flips']:
        out.append(f'byte {o} of file {f} flipped')
    return '; '.join(out) if out else 'nothing (content as recorded)'


def _bad_empty_at_boundary(case):
    L, sizes, disk = case['L'], case['sizes'], case['disk']
    pos = 0
    emfile = case.get('emfile') or ()        # files whose open() hit the descriptor limit (model's `effective`)
    for i, (s, st) in enumerate(zip(sizes, disk)):
        if s == 0 and (_main_bad(s, st) or i in emfile) and pos % L == 0:
            return True
        pos += s
    return False


def _d10a(case, observed, finding):
    if not isinstance(observed, dict) or not _bad_empty_at_boundary(case):
        return False
    if observed.get('exc_type') == 'IndexError':
        return True
    return observed.get('deviation') == 'duplicate-report-only'


MATCHERS = {'bad_empty_entry_at_piece_boundary': _d10a}


# ---------------------------------------------------------------- the real side

class _FaultyFile:
    """file object whose read() raises OSError(err) when it covers byte offset `off`"""

    def __init__(self, fh, off, err):
        self._fh, self._off, self._err = fh, off, err

    def read(self, n=-1):
        pos = self._fh.tell()
        if pos <= self._off and (n is None or n < 0 or self._off < pos + n):
            raise OSError(self._err, os.strerror(self._err))
        return self._fh.read(n)

    def __getattr__(self, name):
        return getattr(self._fh, name)


class _PathProxy:
    """os.path for which the planned paths cannot be stat'ed (whatever function asks)"""

    def __init__(self, plan):
        self._plan = plan

    def _nostat(self, p):
        st = self._plan.get(os.path.realpath(str(p)))
        return st['open'] if st is not None and st.get('nostat') else None

    def __getattr__(self, name):
        real = getattr(os.path, name)
        if name in ('exists', 'lexists', 'isfile', 'isdir', 'islink'):
            return lambda p: False if self._nostat(p) is not None else real(p)
        if name in ('getsize', 'getmtime', 'getatime', 'getctime'):
            def f(p):
                e = self._nostat(p)
                if e is not None:
                    raise OSError(e, os.strerror(e), str(p))
                return real(p)
            return f
        return real


class _OsProxy:
    def __init__(self, plan):
        self.path = _PathProxy(plan)

    def __getattr__(self, name):
        real = getattr(os, name)
        if name in ('stat', 'lstat'):
            def f(p, *a, **k):
                e = self.path._nostat(p)
                if e is not None:
                    raise OSError(e, os.strerror(e), str(p))
                return real(p, *a, **k)
            return f
        return real


class _Inject:
    """shadow `open` and `os` in torf._stream for the paths of `plan` (nothing else is touched)"""

    def __init__(self, plan):
        self.plan = plan

    def __enter__(self):
        if not self.plan:
            return self
        import builtins
        from torf import _stream as S
        plan = self.plan

        def _open(p, mode='r', *a, **k):
            st = plan.get(os.path.realpath(str(p)))
            if st is not None and st.get('open') is not None:
                raise OSError(st['open'], os.strerror(st['open']), str(p))
            fh = builtins.open(p, mode, *a, **k)
            if st is not None and st.get('read') is not None:
                return _FaultyFile(fh, *st['read'])
            return fh
        self._S = S
        self._saved_os = S.os
        S.open = _open
        S.os = _OsProxy(plan)
        return self

    def __exit__(self, *a):
        if self.plan:
            self._S.__dict__.pop('open', None)
            self._S.os = self._saved_os
        return False


def _good_bytes(c, i, size):
    return content.file_bytes(c['cseed'], i, size)


def _rm(p):
    if os.path.islink(p) or os.path.isfile(p) or (os.path.lexists(p) and not os.path.isdir(p)):
        os.unlink(p)
    elif os.path.isdir(p):
        shutil.rmtree(p)


def _make(wd, c, aux='aux', clean=('T', 'renamed')):
    """build the tree in its damaged state; returns (files, orig contents, contents now, top, inject plan)"""
    files = [{'path': p, 'size': s} for p, s in zip(c['paths'], c['sizes'])]
    dirname = c.get('dirname', 'T')
    single = c['single']
    top = os.path.join(wd, dirname)
    for name in tuple(clean) + (aux,):
        _rm(os.path.join(wd, name))
    aux = os.path.join(wd, aux)
    os.makedirs(aux)
    orig = [_good_bytes(c, i, f['size']) for i, f in enumerate(files)]
    flips = {}
    for f, o in c['flips']:
        flips.setdefault(f, []).append(o)
    if not single:
        os.makedirs(top)
    now = []
    plan = {}
    notdirs = set()
    socks = []
    for i, (f, st) in enumerate(zip(files, c['disk'])):
        p = top if single else os.path.join(top, *f['path'])
        k = _kind(st)
        how = st.get('how') if isinstance(st, dict) else None
        # bytes of the regular file that is (or is linked) there
        n = f['size']
        if k == 'file':
            n = int(st) if not isinstance(st, dict) else (st.get('size') if st.get('size') is not None else n)
        elif k == 'readerr':
            n = st.get('size') if st.get('size') is not None else n
        elif k == 'noopen' and how == 'inject':
            n = st['stat']
        data = bytearray((orig[i] + content.file_bytes(c['cseed'] + 1, i, max(0, n - len(orig[i]))))[:n])
        for o in flips.get(i, []):
            if o < len(data):
                data[o] ^= 0xFF
        data = bytes(data)
        if not single:
            os.makedirs(os.path.dirname(p), exist_ok=True)
        if how == 'toolong':
            now.append(None)
            continue                                  # cannot exist
        if st == 'missing':
            now.append(None)
            continue
        if k in ('ok', 'file', 'readerr') or how == 'inject':
            target = p
            if how == 'symlink':
                target = os.path.join(aux, f'target{i}')
                os.symlink(target, p)
            with open(target, 'wb') as fh:
                fh.write(data)
            if k == 'readerr':
                plan[os.path.realpath(p)] = {'read': (st['off'], st['errno'])}
            elif k == 'gone':
                plan[os.path.realpath(p)] = {'nostat': True, 'open': st['errno']}
            elif k == 'noopen':
                plan[os.path.realpath(p)] = {'open': st['errno']}
            now.append(data if k in ('ok', 'file', 'readerr') else None)
            continue
        now.append(None)
        if how == 'eloop':
            os.symlink(os.path.basename(p), p)
        elif how == 'dangling':
            os.symlink(f'nowhere{i}', p)
        elif how == 'enotdir':
            notdirs.add(os.path.join(top, *f['path'][:st['depth']]))
        elif how == 'dir':
            os.mkdir(p)
            if os.path.getsize(p) != st['stat']:
                raise RuntimeError(f'a directory on the scratch file system has size {os.path.getsize(p)}, '
                                   f'the case says {st["stat"]}')
        elif how == 'socket':
            s = socket.socket(socket.AF_UNIX)
            tmp = os.path.join(wd, f's{i}')         # AF_UNIX paths are short: bind here, move there
            _rm(tmp)
            s.bind(tmp)
            os.rename(tmp, p)
            socks.append(s)
        else:
            raise RuntimeError(f'unknown path state {st}')
    for d in sorted(notdirs, key=len, reverse=True):
        if os.path.isdir(d):
            shutil.rmtree(d)
            with open(d, 'wb') as fh:
                fh.write(b'not a directory')
    return files, orig, now, top, plan, socks


FD_CAP = 10          # TorrentFileStream.max_open_files as committed (the model's `defaultCap`)

SPELLINGS = [
    # (spelling relative to the sandbox root or to cwd, cwd or None, does normpath name another tree?)
    ('/a/link/../content', None, True),
    ('/a/link/../x/../content', None, True),
    ('/a/link/../content/', None, True),
    ('/a/link/.././content', None, True),
    ('/a/toplink/../content', None, True),
    ('/a/toplink/../../b/content', None, False),
    ('/b//content', None, False),
    ('/b/./content', None, False),
    ('/b/content/', None, False),
    ('/b/content/.', None, False),
    ('/b/x/../content', None, False),
    ('/b/t/../content//', None, False),
    ('../content', '/a/cwdlink', False),          # cwd reached through a symlink: the kernel is in /b/t
    ('./../content/', '/a/link', False),
    ('link/../content', '/a', True),
    ('toplink/../content', '/a', True),
    ('../b/content', '/a', False),
    ('content/../../b/t/../content', '/b', False),
]


def _world(c):
    """the sandbox of a spelling case as an inode table (what `c02.verifyspelled` gets)"""
    nodes, contents = [], []

    def new(n):
        nodes.append(n)
        return len(nodes) - 1

    def mkdir(parent, name):
        i = new({'k': 'd', 'r': True, 'x': True, 'e': []})
        nodes[parent]['e'].append([name, i])
        return i

    def mklink(parent, name, target):
        i = new({'k': 'l', 't': target})
        nodes[parent]['e'].append([name, i])

    root = new({'k': 'd', 'r': True, 'x': True, 'e': []})
    a, b = mkdir(root, 'a'), mkdir(root, 'b')
    mkdir(b, 't')
    mkdir(b, 'x')
    mklink(a, 'link', c['linktarget'])
    if not c['single']:
        mklink(a, 'toplink', '/b/content')
    mklink(a, 'cwdlink', '/b/t')

    def tree(parent, states, flips):
        if c['single']:                      # the "tree" is the file itself
            st = states[0]
            if st == 'missing':
                return
            if st == 'ok' or not isinstance(st, dict):
                size = c['sizes'][0] if st == 'ok' else int(st)
                contents.append([0, size, [o for f, o in flips if f == 0]])
                fi = new({'k': 'f', 'size': size, 'r': True, 'c': len(contents) - 1})
                nodes[parent]['e'].append(['content', fi])
            elif st['how'] == 'eloop':
                mklink(parent, 'content', 'content')
            elif st['how'] == 'dangling':
                mklink(parent, 'content', 'nowhere0')
            else:
                raise RuntimeError(f'state {st} cannot be put into a world')
            return
        top = mkdir(parent, 'content')
        dirs = {(): top}
        for i, (p, n, st) in enumerate(zip(c['paths'], c['sizes'], states)):
            d = ()
            for comp in p[:-1]:
                if d + (comp,) not in dirs:
                    dirs[d + (comp,)] = mkdir(dirs[d], comp)
                d += (comp,)
            if st == 'missing':
                continue
            if st == 'ok' or not isinstance(st, dict):
                size = n if st == 'ok' else int(st)
                contents.append([i, size, [o for f, o in flips if f == i]])
                fi = new({'k': 'f', 'size': size, 'r': True, 'c': len(contents) - 1})
                nodes[dirs[d]]['e'].append([p[-1], fi])
            elif st['how'] == 'eloop':
                mklink(dirs[d], p[-1], p[-1])
            elif st['how'] == 'dangling':
                mklink(dirs[d], p[-1], f'nowhere{i}')
            elif st['how'] == 'dir':
                mkdir(dirs[d], p[-1])
            else:
                raise RuntimeError(f'state {st} cannot be put into a world')
    tree(b, c['disk'], c['flips'])
    if c['textual'] is not None:
        tree(a, c['textual'], c['tflips'])
    return nodes, contents


def _make_world(wd, c):
    """build the sandbox of a spelling case; returns (files, orig, now, path to give to verify(), cwd or None)"""
    root = os.path.join(wd, 'world')
    _rm(root)
    for d in ('a', 'b/t', 'b/x'):
        os.makedirs(os.path.join(root, d))
    files, orig, now, top, plan, socks = _make(wd, dict(c, dirname='world/b/content'), aux='waux', clean=())
    if c['textual'] is not None:
        _make(wd, dict(c, dirname='world/a/content', disk=c['textual'], flips=c['tflips']), aux='waux2', clean=())
    lt = c['linktarget']
    os.symlink(root + lt if lt.startswith('/') else lt, os.path.join(root, 'a', 'link'))
    if not c['single']:
        os.symlink(root + '/b/content', os.path.join(root, 'a', 'toplink'))
    os.symlink(root + '/b/t', os.path.join(root, 'a', 'cwdlink'))
    sp = c['spelling']
    path = root + sp if sp.startswith('/') else sp
    cwd = root + c['cwd'] if c.get('cwd') else None
    return files, orig, now, path, cwd


class _FdLimit:
    """soft RLIMIT_NOFILE = descriptors in use + k while verify() runs"""

    def __init__(self, k):
        self.k = k

    def __enter__(self):
        if self.k is not None:
            import resource
            self.old = resource.getrlimit(resource.RLIMIT_NOFILE)
            inuse = len(os.listdir('/proc/self/fd')) - 1          # (listdir itself holds one while it runs)
            resource.setrlimit(resource.RLIMIT_NOFILE, (inuse + self.k, self.old[1]))
        return self

    def __exit__(self, *a):
        if self.k is not None:
            import resource
            resource.setrlimit(resource.RLIMIT_NOFILE, self.old)
        return False


def _make_intact(root, c):
    """an intact original of the content at root/T (what `Torrent.path` points to)"""
    _rm(root)
    top = os.path.join(root, 'T')
    os.makedirs(root)
    if c['single']:
        with open(top, 'wb') as fh:
            fh.write(_good_bytes(c, 0, c['sizes'][0]))
        return top
    os.makedirs(top)
    for i, (p, n) in enumerate(zip(c['paths'], c['sizes'])):
        if len(p[-1]) > 255:
            continue                                  # cannot exist
        fp = os.path.join(top, *p)
        os.makedirs(os.path.dirname(fp), exist_ok=True)
        with open(fp, 'wb') as fh:
            fh.write(_good_bytes(c, i, n))
    return top


API_ORIGINS = ('created', 'reread', 'copy', 'reassigned')


def _api_capable(c):
    """can the torrent of this case be made by Torrent(path=…).generate()? (torf sorts the files,
    never lists empty ones and wants piece sizes that are multiples of 16 KiB)"""
    return (c['L'] % 16384 == 0 and all(n >= 1 for n in c['sizes']) and
            all(len(p) == 1 for p in c['paths']) and c['paths'] == sorted(c['paths']))


def _torrent(torf, wd, c, files, pieces):
    """the Torrent object with the history the case asks for; returns (torrent, Torrent.path or None)"""
    import io
    import pathlib
    origin = c.get('origin', 'loaded')
    L = c['L']
    if origin in API_ORIGINS:
        otop = _make_intact(os.path.join(wd, 'orig'), c)
        t = torf.Torrent(path=otop, piece_size=L)
        t.generate(threads=1)
        if [f.size for f in t.files] != c['sizes'] or t.metainfo['info']['pieces'] != pieces:
            raise RuntimeError(f'Torrent(path=…).generate() made another torrent than the case describes: '
                               f'{[f.size for f in t.files]}')
        if origin == 'reread':
            t = torf.Torrent.read_stream(io.BytesIO(t.dump()))
        elif origin == 'copy':
            t = t.copy()
        elif origin == 'reassigned':
            otop = _make_intact(os.path.join(wd, 'orig2'), c)
            t.path = otop               # (re-assigning the path resets the piece size)
            t.piece_size = L
            t.generate(threads=1)
            if [f.size for f in t.files] != c['sizes'] or t.metainfo['info']['pieces'] != pieces:
                raise RuntimeError('re-assigning Torrent.path made another torrent than the case describes')
        tpath = None if t.path is None else str(t.path)
        assert (tpath is None) == (origin in ('reread', 'copy'))
        return t, tpath
    t = content.make_torrent(torf, wd, 'T', files, L, single=c['single'], with_path=False)
    t.metainfo['info']['pieces'] = pieces
    if L % 16384 != 0:
        t.validate = lambda: None   # small piece lengths: skip only the validate() gate
    tpath = None
    if origin == 'path-attr':
        tpath = _make_intact(os.path.join(wd, 'orig'), c)
        t._path = pathlib.Path(tpath)
        if any(len(p[-1]) > 255 for p in c['paths']):
            t.validate = lambda: None   # the original cannot hold a name the file system refuses
    return t, tpath


class _PinnedClock:
    """`time_monotonic` of torf._generate returns the planned values, one per call"""

    def __init__(self, nows):
        self.nows = nows

    def __enter__(self):
        if self.nows is None:
            return self
        from torf import _generate as G
        self._G, self._saved = G, G.time_monotonic
        it = iter(self.nows)
        last = [0]

        def clock():
            last[0] = next(it, last[0] if not self.nows else self.nows[-1])
            return last[0]
        G.time_monotonic = clock
        return self

    def __exit__(self, *a):
        if self.nows is not None:
            self._G.time_monotonic = self._saved
        return False


def _txt(p):
    """a reported path as text, as torf's File objects spell it: `pathlib` drops empty and `.` components
    (which never changes what the OS resolves below a directory) — `..` and symbolic links stay"""
    import pathlib
    return str(pathlib.PurePosixPath(str(p)))


def _exc_obs(torf, e, index_of):
    if isinstance(e, torf.VerifyContentError):
        return {'kind': 'content', 'piece': e.piece_index,
                'files': sorted(index_of.get(_txt(f), -1) for f in e.files)}
    if isinstance(e, torf.ReadError):
        return {'kind': 'read', 'file': index_of.get(_txt(e.path), -1), 'errno': e.errno}
    if isinstance(e, torf.VerifyFileSizeError):
        return {'kind': 'size', 'file': index_of.get(_txt(e.filepath), -1)}
    if isinstance(e, torf.VerifyIsDirectoryError):
        return {'kind': 'isDir'}
    if isinstance(e, torf.VerifyNotDirectoryError):
        return {'kind': 'notDir'}
    if isinstance(e, torf.TorfError):
        return {'kind': 'torf:' + type(e).__name__}
    return {'kind': 'internal', 'exc_type': type(e).__name__, 'msg': str(e)[:120]}


def _run_chunk(cases):
    torf = common.import_torf()
    wd = common.worker_dir()
    out = []
    for c in cases:
        obs = {}
        orig = now = None
        socks = []
        cwd0 = None
        try:
            spelled = c.get('family') == 'spelling'
            if spelled:
                files, orig, now, top, cwd = _make_world(wd, c)
                plan = {}
                if cwd:
                    cwd0 = os.getcwd()
                    os.chdir(cwd)
            else:
                files, orig, now, top, plan, socks = _make(wd, c)
            L = c['L']
            stream = b''.join(orig)
            pieces = b''.join(common.sha1(stream[i:i + L]) for i in range(0, len(stream), L))
            t, tpath = _torrent(torf, wd, c, files, pieces)
            obs['tpath'] = tpath
            path = top
            va = c.get('verify_as', 'direct')
            if va == 'relative':
                path = os.path.relpath(top)
            elif va == 'symlink-top':
                path = os.path.join(wd, 'toplink')
                _rm(path)
                os.symlink(top, path)
            elif va == 'original':
                path = tpath
            if c['pathkind'] == 'dir-for-single':
                path = os.path.join(wd, 'adir')
                os.makedirs(path, exist_ok=True)
            elif c['pathkind'] == 'file-for-multi':
                path = os.path.join(wd, 'afile')
                open(path, 'wb').write(b'x')
            elif c['pathkind'] == 'nothing-for-multi':
                path = os.path.join(wd, 'nonexistent')
            if c['single']:
                index_of = {_txt(path): 0}
            else:
                index_of = {_txt(os.path.join(path, *f['path'])): i for i, f in enumerate(files)}
            for mode in ('nocb', 'cb'):
                calls = []

                def cb(tor, fp, done, total, pi, ph, exc):
                    calls.append({'same_torrent': tor is t, 'done': done, 'total': total, 'piece': pi,
                                  'hash': ph, 'exc': None if exc is None else _exc_obs(torf, exc, index_of)})
                try:
                    with _Inject(plan), _PinnedClock(c.get('clock')), _FdLimit(c.get('fds')):
                        r = t.verify(path, threads=c['threads'], callback=cb if mode == 'cb' else None,
                                     interval=c.get('interval', 0))
                    obs[mode] = {'ok': r}
                except BaseException as e:  # noqa
                    obs[mode] = {'error': _exc_obs(torf, e, index_of)}
                if mode == 'cb':
                    obs['calls'] = calls
        except BaseException as e:  # noqa
            obs['harness_exc'] = f'{type(e).__name__}: {e}'
        finally:
            for s in socks:
                s.close()
            if cwd0 is not None:
                os.chdir(cwd0)
        out.append((c, obs, orig, now))
    return out


# ---------------------------------------------------------------- generation

def _states(size):
    return ['missing', size + 1] + ([size - 1] if size > 0 else [])


def _dirsize():
    d = os.path.join(common.scratch_root(), 'dirsize-probe')
    os.makedirs(d, exist_ok=True)
    return os.path.getsize(d)


def _offsets(rng, L, pos, n):
    """interesting offsets of an unreadable byte in a file of n bytes at stream position pos"""
    cands = {0, n, max(0, n - 1), n // 2}
    first = (-pos) % L                      # first piece boundary inside the file
    for b in (first, first + L):
        for o in (b - 1, b, b + 1):
            if 0 <= o <= n:
                cands.add(o)
    cands.add(rng.randint(0, n))
    return sorted(cands)


def _fs_state(rng, L, sizes, paths, i, single, dirsize, inject_only=False):
    """a random non-classic state for file i (and the other files it drags along: ENOTDIR)"""
    size = sizes[i]
    pos = sum(sizes[:i])
    opts = ['gone-inject', 'noopen-inject', 'noopen-inject', 'noopen-wrong', 'readerr', 'readerr']
    if not inject_only:
        opts += ['eloop', 'dangling', 'symlink', 'symlink-wrong', 'socket']
        if not single:
            opts += ['dir', 'dir']
            if len(paths[i]) > 1:
                opts += ['enotdir', 'enotdir']
    o = rng.choice(opts)
    if o == 'gone-inject':
        return {i: {'k': 'gone', 'errno': rng.choice([errno.EACCES, errno.EIO, errno.ENOTDIR, errno.ESTALE]), 'how': 'inject'}}
    if o == 'noopen-inject':
        return {i: {'k': 'noopen', 'stat': size, 'how': 'inject',
                    'errno': rng.choice([errno.EACCES, errno.EACCES, errno.EMFILE, errno.EIO, errno.ENOENT, errno.EISDIR])}}
    if o == 'noopen-wrong':
        return {i: {'k': 'noopen', 'stat': rng.choice([size + 1, max(0, size - 1), 0]) if size else 1, 'how': 'inject',
                    'errno': rng.choice([errno.EACCES, errno.EIO])}}
    if o == 'readerr':
        st = {'k': 'readerr', 'off': rng.choice(_offsets(rng, L, pos, size)),
              'errno': rng.choice([errno.EIO, errno.EIO, errno.ESTALE, errno.EACCES, errno.ENOENT])}
        if rng.random() < 0.1:
            st['size'] = size + 1
            st['off'] = rng.randint(0, size + 1)
        return {i: st}
    if o == 'eloop':
        return {i: {'k': 'gone', 'errno': errno.ELOOP, 'how': 'eloop'}}
    if o == 'dangling':
        return {i: {'k': 'gone', 'errno': errno.ENOENT, 'how': 'dangling'}}
    if o == 'symlink':
        return {i: {'k': 'file', 'size': size, 'how': 'symlink'}}
    if o == 'symlink-wrong':
        return {i: {'k': 'file', 'size': rng.choice([size + 1, max(0, size - 1)]) if size else 1, 'how': 'symlink'}}
    if o == 'socket':
        return {i: {'k': 'noopen', 'stat': 0, 'errno': errno.ENXIO, 'how': 'socket'}}
    if o == 'dir':
        return {i: {'k': 'noopen', 'stat': dirsize, 'errno': errno.EISDIR, 'how': 'dir'}}
    depth = rng.randint(1, len(paths[i]) - 1)
    prefix = paths[i][:depth]
    return {j: {'k': 'gone', 'errno': errno.ENOTDIR, 'how': 'enotdir', 'depth': depth}
            for j, p in enumerate(paths) if len(p) > depth and p[:depth] == prefix}


def _gen_damage(rng, L, sizes, kind, paths=None, single=False, dirsize=40):
    n = len(sizes)
    disk = ['ok'] * n
    flips = []
    total = sum(sizes)
    if kind == 'intact':
        pass
    elif kind == 'flip':
        # boundary bytes of pieces and files, and random positions
        cands = set()
        pos = 0
        for s in sizes:
            if s:
                cands |= {pos, pos + s - 1}
            pos += s
        for p in range(0, total, L):
            cands |= {p, min(total - 1, p + L - 1)}
        cands = sorted(cands)
        k = rng.choice([1, 1, 1, 2, 3])
        for _ in range(k):
            p = rng.choice(cands) if rng.random() < 0.7 else rng.randrange(total)
            pos = 0
            for i, s in enumerate(sizes):
                if p < pos + s:
                    if [i, p - pos] not in flips:
                        flips.append([i, p - pos])
                    break
                pos += s
    elif kind == 'files':
        for i in rng.sample(range(n), min(n, rng.choice([1, 1, 2, 3]))):
            disk[i] = rng.choice(_states(sizes[i]))
    elif kind == 'both':
        for i in rng.sample(range(n), min(n, rng.choice([1, 2]))):
            disk[i] = rng.choice(_states(sizes[i]))
        i = rng.randrange(n)
        if sizes[i]:
            flips.append([i, rng.randrange(sizes[i])])
    else:  # fs: one or two paths in a non-classic state, sometimes next to classic damage / a flip
        where = rng.choice(['first', 'last', 'any', 'any', 'any'])
        picks = [0] if where == 'first' else [n - 1] if where == 'last' else [rng.randrange(n)]
        if n > 1 and rng.random() < 0.35:
            picks.append(rng.randrange(n))
        for i in picks:
            new = _fs_state(rng, L, sizes, paths, i, single, dirsize)
            if all(disk[j] == 'ok' for j in new):        # (a replaced directory drags all files below it along)
                for j, st in new.items():
                    disk[j] = st
        if rng.random() < 0.3:
            i = rng.randrange(n)
            if disk[i] == 'ok':
                disk[i] = rng.choice(_states(sizes[i]))
        if rng.random() < 0.25:
            i = rng.randrange(n)
            if sizes[i]:
                flips.append([i, rng.randrange(sizes[i])])
    return disk, flips


PATH_ORIGINS = ('path-attr', 'created', 'reassigned')       # origins whose Torrent.path is set


def _dress(rng, c):
    """history of the Torrent object, spelling of the verified directory, reporting interval"""
    r = rng.random()
    if _api_capable(c) and r < 0.75:
        c['origin'] = rng.choice(API_ORIGINS)
    elif r < 0.45:
        c['origin'] = 'path-attr'
    else:
        c['origin'] = 'loaded'
    intact = all(st == 'ok' for st in c['disk']) and not c['flips']
    if c['pathkind'] != 'normal':
        c['verify_as'] = 'direct'
    elif intact and c['origin'] in PATH_ORIGINS and rng.random() < 0.4:
        c['verify_as'] = 'original'
    else:
        c['verify_as'] = rng.choice(['direct', 'direct', 'direct', 'relative', 'symlink-top'])
    r = rng.random()
    pieces = -(-sum(c['sizes']) // c['L'])
    if r < 0.4:
        c['interval'], c['clock'] = 0, None
    elif r < 0.6:
        c['interval'], c['clock'] = rng.choice([1e-9, 1, 1, 1e9]), None
    else:
        # pinned clock: any integer interval, any sequence of clock values; one hasher thread so that
        # the pieces are collected in piece order
        c['threads'] = 1
        c['interval'] = rng.choice([0, 1, 2, 3, 5, 1000, 1000])
        kind = rng.choice(['frozen', 'step', 'jumps', 'any'])
        t0 = rng.choice([0, 5, 100])
        nows = []
        for _ in range(pieces + 2):
            nows.append(t0)
            t0 += {'frozen': 0, 'step': 1, 'jumps': rng.choice([0, 0, 1, 2, 7]), 'any': rng.randint(-3, 4)}[kind]
        c['clock'] = nows
    return c


ABSTRACT = ['gone', 'noopen', 'noopen-wrong', 'readerr0', 'readerr-mid', 'readerr-end']


def _abstract_state(a, size):
    if a == 'gone':
        return {'k': 'gone', 'errno': errno.EACCES, 'how': 'inject'}
    if a == 'noopen':
        return {'k': 'noopen', 'stat': size, 'errno': errno.EACCES, 'how': 'inject'}
    if a == 'noopen-wrong':
        return {'k': 'noopen', 'stat': size + 1, 'errno': errno.EIO, 'how': 'inject'}
    off = 0 if a == 'readerr0' else size if a == 'readerr-end' else size // 2
    return {'k': 'readerr', 'off': off, 'errno': errno.EIO}


def gen_cases(ctx, scale=1.0):
    rng = ctx.rng
    cases = []
    dirsize = _dirsize()

    def add(L, sizes, kind, single=False, pathkind='normal', threads=1, nested=True, paths=None, disk=None):
        paths = paths or layouts.paths_for(len(sizes), rng, nested)
        if disk is None:
            disk, flips = _gen_damage(rng, L, sizes, kind, paths, single, dirsize)
        else:
            flips = []
        cases.append(_dress(rng, {'L': L, 'sizes': sizes, 'disk': disk, 'flips': flips, 'single': single,
                                  'pathkind': pathkind, 'threads': threads, 'kind': kind,
                                  'paths': paths, 'cseed': rng.randrange(1 << 30),
                                  'dirname': rng.choice(['T', 'T', 'renamed'])}))

    # small scopes, every layout with one damage pattern each of several kinds
    scope = list(layouts.exhaustive([2, 3], 3)) if not ctx.thorough else \
        list(layouts.exhaustive([2, 3], 4)) + list(layouts.exhaustive([4], 3))
    scope = [(L, s) for (L, s) in scope if sum(s) > 0]
    for i, (L, sizes) in enumerate(scope):
        for kind in (('flip', 'files', 'fs') if i % 3 else ('intact', 'flip', 'files', 'both', 'fs')):
            add(L, list(sizes), kind, threads=1, nested=(kind == 'fs'))
    # every abstract path state at every position of every small layout (fault injection only)
    small = [(L, s) for (L, s) in layouts.exhaustive([2], 3 if not ctx.thorough else 4, lambda L: range(0, 4))
             if sum(s) > 0]
    if ctx.thorough:
        small += [(L, s) for (L, s) in layouts.exhaustive([3], 3, lambda L: range(0, 5)) if sum(s) > 0]
    for (L, sizes) in small:
        for i in range(len(sizes)):
            for a in ABSTRACT:
                disk = ['ok'] * len(sizes)
                disk[i] = _abstract_state(a, sizes[i])
                add(L, list(sizes), 'fs', nested=False, disk=disk)
        if len(sizes) >= 2:       # two damaged paths
            for _ in range(2):
                disk = ['ok'] * len(sizes)
                for i in rng.sample(range(len(sizes)), 2):
                    disk[i] = rng.choice([_abstract_state(rng.choice(ABSTRACT), sizes[i]), 'missing', sizes[i] + 1])
                add(L, list(sizes), 'fs', nested=False, disk=disk)
    ctx.notes['exhaustive_scope'] = ('all layouts L in {2,3} (<=3 files quick, <=4 thorough; L=4 <=3 thorough), sizes 0..2L+1, '
                                     'one random damage per kind; L=2, <=3 files (thorough <=4; L=3 <=3) of 0..3 bytes: every '
                                     'file position x {not stat-able, not openable with right / wrong stat size, unreadable '
                                     'byte at offset 0 / middle / end-of-file}')
    for _ in range(int(ctx.n(1100, 30000) * scale)):
        L = rng.choice([2, 3, 4, 5, 8, 16, 64])
        shape, sizes = layouts.random_sizes(rng, L, nmax=24)
        if rng.random() < 0.08:
            sizes[rng.randrange(len(sizes))] = dirsize      # a directory in its place has exactly this stat size
        add(L, sizes, rng.choice(['intact', 'flip', 'flip', 'files', 'files', 'both', 'fs', 'fs', 'fs']),
            threads=rng.choice([1, 1, 2, 3, 4]))
    # a listed name that is too long for the file system: the file cannot exist
    for _ in range(int(ctx.n(20, 300) * scale)):
        L = rng.choice([2, 3, 8, 16])
        shape, sizes = layouts.random_sizes(rng, L, nmax=8)
        paths = layouts.paths_for(len(sizes), rng, True)
        i = rng.randrange(len(sizes))
        paths[i] = paths[i][:-1] + [paths[i][-1] + 'x' * 300]
        disk = ['ok'] * len(sizes)
        disk[i] = {'k': 'gone', 'errno': errno.ENAMETOOLONG, 'how': 'toolong'}
        add(L, sizes, 'fs', threads=rng.choice([1, 2]), paths=paths, disk=disk)
    # real piece lengths through the unpatched public API (validate() runs); half of the layouts are
    # such that torf itself can create the torrent from the content (flat sorted names, no empty file)
    for k in range(int(ctx.n(160, 3200) * scale)):
        L = 16384 * rng.choice([1, 1, 2])
        n = rng.randint(1, 6)
        sizes = [max(0, rng.choice([0, 1, L - 1, L, L + 1, rng.randint(0, 2 * L), rng.randint(0, L // 16)]))
                 for _ in range(n)]
        if k % 2:
            sizes = [max(1, x) for x in sizes]
        if sum(sizes) == 0:
            sizes[0] = L + 1
        add(L, sizes, rng.choice(['intact', 'flip', 'files', 'files', 'both', 'fs', 'fs']), threads=rng.choice([1, 2, 4]),
            nested=not k % 2)
    # the spelling of the content path: what the OS resolves differently from the text; two trees
    def world_damage(sizes, kind):
        disk, flips = ['ok'] * len(sizes), []
        if kind == 'damaged':
            for i in rng.sample(range(len(sizes)), min(len(sizes), rng.choice([1, 1, 2]))):
                disk[i] = rng.choice(_states(sizes[i]) + [{'k': 'gone', 'errno': errno.ELOOP, 'how': 'eloop'},
                                                          {'k': 'gone', 'errno': errno.ENOENT, 'how': 'dangling'},
                                                          {'k': 'noopen', 'stat': dirsize, 'errno': errno.EISDIR, 'how': 'dir'},
                                                          'flip', 'flip', 'flip'])
                if disk[i] == 'flip':
                    disk[i] = 'ok'
                    if sizes[i]:
                        flips.append([i, rng.randrange(sizes[i])])
                    else:
                        disk[i] = 'missing'
        return disk, flips
    for k in range(int(ctx.n(260, 4000) * scale)):
        L = rng.choice([2, 3, 4, 8, 16])
        shape, sizes = layouts.random_sizes(rng, L, nmax=8)
        paths = layouts.paths_for(len(sizes), rng, True)
        disk, flips = world_damage(sizes, rng.choice(['intact', 'damaged']))
        sp, cwd, differs = SPELLINGS[k % len(SPELLINGS)]
        single = k % 7 == 3 and 'toplink' not in sp and not sp.rstrip('.').endswith('/')
        if single:                      # a single-file torrent: the spelling names the file itself
            sizes, paths = [max(1, sizes[0])], [['f000']]
            disk, flips = world_damage(sizes, rng.choice(['intact', 'damaged']))
            if isinstance(disk[0], dict) and disk[0].get('how') == 'dir':
                disk[0] = 'missing'
        textual = rng.choice([None, 'intact', 'damaged', 'damaged'])
        tdisk, tflips = (None, []) if textual is None else world_damage(sizes, textual)
        if single and tdisk and isinstance(tdisk[0], dict) and tdisk[0].get('how') == 'dir':
            tdisk[0] = 'missing'
        cases.append({'family': 'spelling', 'L': L, 'sizes': sizes, 'disk': disk, 'flips': flips, 'single': single,
                      'pathkind': 'normal', 'threads': rng.choice([1, 1, 2, 3]), 'kind': 'spelling', 'paths': paths,
                      'cseed': rng.randrange(1 << 30), 'dirname': 'world/b/content', 'origin': 'loaded',
                      'verify_as': 'direct', 'interval': 0, 'clock': None, 'spelling': sp, 'cwd': cwd,
                      'textual': tdisk, 'tflips': tflips, 'dirsize': dirsize,
                      'linktarget': rng.choice(['/b/t', '../b/t'])})
    # the resource environment: few free file descriptors, many listed files
    for k in range(int(ctx.n(70, 1500) * scale)):
        L = rng.choice([2, 3, 8, 16, 16])
        big = [100, 300] if ctx.thorough or k % 10 == 1 else [30, 50]      # (hundreds of files are slow to set up)
        n = rng.choice([1, 3, 9, 10, 11, 12, 13, 20, 25, 40] + big) if k % 3 else rng.randint(1, 60)
        sizes = [rng.choice([0, 1, 1, 1, 2, 3]) for _ in range(n)]
        if sum(sizes) == 0:
            sizes[0] = 1
        paths = layouts.paths_for(n, rng, rng.random() < 0.3)
        disk, flips = _gen_damage(rng, L, sizes, rng.choice(['intact', 'intact', 'flip', 'files']), paths, False, dirsize)
        cases.append({'family': 'fds', 'L': L, 'sizes': sizes, 'disk': disk, 'flips': flips, 'single': False,
                      'pathkind': 'normal', 'threads': rng.choice([1, 1, 2, 4]), 'kind': 'fds', 'paths': paths,
                      'cseed': rng.randrange(1 << 30), 'dirname': 'T', 'origin': 'loaded', 'verify_as': 'direct',
                      'interval': 0, 'clock': None,
                      'fds': rng.choice([FD_CAP + 1, FD_CAP + 2, FD_CAP + 2, 20, 60, 3, 8, FD_CAP])})
    # single-file torrents and path-kind mismatches
    for _ in range(int(ctx.n(160, 3200) * scale)):
        L = rng.choice([2, 3, 8, 16384])
        if rng.random() < 0.65:
            sizes = [max(1, layouts.boundary_sizes(rng, L))]
            kind = rng.choice(['intact', 'flip', 'files', 'fs', 'fs'])
            add(L, sizes, kind, single=True,
                pathkind='normal' if kind == 'fs' else rng.choice(['normal', 'normal', 'dir-for-single']), nested=False,
                threads=rng.choice([1, 1, 2]))
        else:
            shape, sizes = layouts.random_sizes(rng, L, nmax=13)
            add(L, sizes, 'intact', pathkind=rng.choice(['file-for-multi', 'nothing-for-multi']))
    return cases


# ---------------------------------------------------------------- judging

def _bytes_of(runs, now):
    if runs is None:
        return None
    out = b''
    for f, o, n in runs:
        if o >= FLIP:
            o -= FLIP
        out += now[f][o:o + n]
    return out


def _norm_model_exc(e, errno_of=None, piece=None):
    if e is None:
        return None
    e = dict(e)
    if 'files' in e:
        e['files'] = sorted(e['files'])
    if e.get('kind') == 'read' and errno_of is not None:
        e['errno'] = errno_of(piece, e['file'])
    return e


def _key(c):
    import json
    return (c['L'], tuple(c['sizes']), tuple(json.dumps(d, sort_keys=True) for d in c['disk']),
            tuple(map(tuple, c['flips'])), c['single'], c['pathkind'], c.get('origin', 'loaded'),
            c.get('verify_as', 'direct'), c.get('interval', 0), tuple(c.get('clock') or ()),
            c.get('spelling'), c.get('cwd'), json.dumps(c.get('textual')), c.get('fds'))


def evaluate(ctx, drv, cases):
    # the expensive families (hundreds of listed files) are generated next to each other: spread them
    # over the worker chunks
    import random
    cases = list(cases)
    random.Random(len(cases)).shuffle(cases)
    reqs = []
    for c in cases:
        pid = c['pathkind'] not in ('file-for-multi', 'nothing-for-multi') if not c['single'] else \
            c['pathkind'] == 'dir-for-single'
        pinned = c.get('clock') is not None
        if c.get('family') == 'spelling':
            fs, contents = _world(c)
            reqs.append({'op': 'c02.verifyspelled', 'L': c['L'], 'sizes': c['sizes'], 'single': c['single'], 'fs': fs,
                         'contents': contents, 'cwd': c.get('cwd') or '/', 'path': c['spelling'], 'names': c['paths'],
                         'dirSize': c['dirsize'], 'tpath': None, 'interval': 0, 'clock': []})
            continue
        if c.get('family') == 'fds':
            reqs.append({'op': 'c02.verifyenv', 'L': c['L'], 'sizes': c['sizes'], 'disk': c['disk'], 'flips': c['flips'],
                         'single': False, 'pathIsDir': True, 'tpath': None, 'interval': 0, 'clock': [],
                         'cap': FD_CAP, 'free': c['fds']})
            continue
        reqs.append({'op': 'c02.verifycall', 'L': c['L'], 'sizes': c['sizes'], 'disk': c['disk'], 'flips': c['flips'],
                     'single': c['single'], 'pathIsDir': pid,
                     'tpath': '/original/T' if c.get('origin', 'loaded') in PATH_ORIGINS else None,
                     'interval': c.get('interval', 0) if pinned else 0, 'clock': c['clock'] if pinned else []})
    # on the two classic states the extended model must be the classic one (theorem C02_fs_conservative)
    legacy_idx = [i for i, c in enumerate(cases) if _legacy(c) and not c.get('family')]
    replies = drv.run(reqs + [dict(reqs[i], op='c02.verify') for i in legacy_idx])
    for n, i in enumerate(legacy_idx):
        a, b = replies[i], replies[len(reqs) + n]
        if 'nocb' not in a or 'nocb' not in b:
            continue
        for k in ('nocb', 'cb', 'calls', 'specOk', 'bad', 'mismatches', 'hyp'):
            if a.get(k) != b.get(k):
                ctx.machinery_error(f'verifyFs and verifySeq differ on classic path states in {k!r} '
                                    '(contradicts C02_fs_conservative)', cases[i])
                break
    results = common.pmap(_run_chunk, common.split(cases, common.NPROC * 4))
    k = 0
    for chunk in results:
        for (c, obs, orig, now) in chunk:
            r = replies[k]
            k += 1
            case = {x: c[x] for x in ('L', 'sizes', 'disk', 'flips', 'single', 'pathkind', 'threads', 'paths',
                                      'cseed', 'dirname')}
            case.update(origin=c.get('origin', 'loaded'), verify_as=c.get('verify_as', 'direct'),
                        interval=c.get('interval', 0), clock=c.get('clock'))
            for x in ('family', 'spelling', 'cwd', 'textual', 'tflips', 'dirsize', 'linktarget', 'fds'):
                if x in c:
                    case[x] = c[x]
            if c.get('family') == 'fds':
                case['emfile'] = r.get('emfile')
                ctx.dist[f'free descriptors:{c["fds"]}'] += 1
                if not r.get('envConsistent', True):
                    ctx.machinery_error('verifyEnv differs from verifyFs on the effective description', case)
                if r.get('headroom') and r.get('emfile'):
                    ctx.machinery_error('the model lets open() fail with cap + 1 descriptors free '
                                        '(contradicts C02_descriptor_headroom)', case)
            if c.get('family') == 'spelling':
                ctx.dist['spelling:' + c['spelling'] + (' from ' + c['cwd'] if c.get('cwd') else '')] += 1
            pinned = c.get('clock') is not None
            throttled = not pinned and c.get('interval', 0) > 0       # real clock, interval > 0
            ctx.dist['origin:' + case['origin']] += 1
            ctx.dist['verify_as:' + case['verify_as']] += 1
            ctx.dist['interval:' + ('pinned clock' if pinned else str(case['interval']))] += 1
            if 'nocb' not in r:
                raise RuntimeError(f'driver failure on {case}: {r}')
            states = sorted({(st.get('how') or st['k']) if isinstance(st, dict) else 'classic' for st in c['disk']
                             if st != 'ok'})
            ctx.case(key=_key(c),
                     nontrivial=len(c['sizes']) >= 2, kind=c['kind'] + ('/single' if c['single'] else '') +
                     ('' if c['pathkind'] == 'normal' else '/' + c['pathkind']))
            for s in states:
                if s != 'classic':
                    ctx.dist['state:' + s] += 1
            if 'harness_exc' in obs:
                raise RuntimeError(f'harness failure on {case}: {obs["harness_exc"]}')
            ctx.sample({'case': case, 'model_nocb': r['nocb'], 'model_cb': r['cb']}, limit=4)
            pathmismatch = c['pathkind'] != 'normal'
            what_is_wrong = _describe(c) if not pathmismatch else f'path kind {c["pathkind"]}'
            if c.get('family') == 'spelling' and r.get('resolvesTo', '').startswith('error'):
                what_is_wrong = (f'the OS does not resolve the spelling (errno {r["resolvesTo"].split()[1]}: a regular file is '
                                 'followed by further components, or the like); at the place named: ' + what_is_wrong)
            # ---- 1. implementation against the specification
            spec_ok = r['specOk'] and not pathmismatch
            nocb, cb, calls = obs['nocb'], obs['cb'], obs['calls']
            owed = {e[0]: (e[1], e[2]) for e in r['owed']}                # file -> (kind, admissible errnos)
            fault_files = {f for f, (kd, _) in owed.items()
                           if kd == 'read' and isinstance(c['disk'][f], dict) and c['disk'][f]['k'] == 'readerr'}
            problems = []

            def sound(e, where):
                """a reported / raised file error must be the one owed for that file"""
                if e['kind'] not in ('read', 'size'):
                    return
                o = owed.get(e['file'])
                if o is None:
                    problems.append(f'{where}: {e} names a file that is as recorded (or no listed file)')
                elif o[0] != e['kind']:
                    problems.append(f'{where}: {e} but file {e["file"]} owes a {o[0]} error')
                elif e['kind'] == 'read' and e.get('errno') not in o[1]:
                    problems.append(f'{where}: {e} but the OSError of file {e["file"]} has errno in {sorted(set(o[1]))}')

            if spec_ok:
                if nocb != {'ok': True} or cb != {'ok': True}:
                    problems.append(f'content as recorded did not verify: without callback {nocb}, with callback {cb}')
                if any(cl['exc'] for cl in calls):
                    problems.append(f'content as recorded: the callback was handed {[cl["exc"] for cl in calls if cl["exc"]][:3]}')
            else:
                if 'ok' in nocb:
                    problems.append(f'content differs ({what_is_wrong}): verify() without callback returned {nocb["ok"]} instead of raising')
                elif nocb['error']['kind'] not in ('read', 'size', 'content', 'isDir', 'notDir'):
                    problems.append(f'content differs ({what_is_wrong}): verify() raised an undocumented error: {nocb["error"]}')
                elif not pathmismatch:
                    sound(nocb['error'], 'raised without callback')
                    if nocb['error']['kind'] == 'content' and nocb['error']['piece'] not in r['mismatches']:
                        problems.append(f'raised without callback: {nocb["error"]} but the data pieces that differ are {r["mismatches"]}')
                if 'error' in cb and cb['error']['kind'] == 'read' and cb['error']['file'] in fault_files:
                    sound(cb['error'], 'raised with callback')       # a read() failed in the reader thread: documented ReadError
                elif cb != {'ok': False}:
                    problems.append(f'content differs ({what_is_wrong}): verify() with callback gave {cb}')
                elif not any(cl['exc'] for cl in calls):
                    problems.append(f'content differs ({what_is_wrong}): verify() with callback returned False without reporting any error')
            if not pathmismatch:
                frep = [cl['exc'] for cl in calls if cl['exc'] and cl['exc']['kind'] in ('read', 'size')]
                for e in frep:
                    sound(e, 'handed to the callback')
                rep = sorted((e['file'], e['kind']) for e in frep)
                dup = sorted(set(x for x in rep if rep.count(x) > 1))
                if dup:
                    problems.append(f'bad files reported more than once: {dup} (reports {rep})')
                cerr = {cl['piece']: cl['exc'] for cl in calls if cl['exc'] and cl['exc']['kind'] == 'content'}
                if not set(cerr) <= set(r['mismatches']):
                    problems.append(f'content errors for pieces {sorted(cerr)} but the data pieces that differ are {sorted(r["mismatches"])}')
                for p, e in cerr.items():
                    if e['piece'] != p or not set(r['overlapping'][p] if p < len(r['overlapping']) else []) <= set(e['files']):
                        problems.append(f'content error of piece {p} names {e} but files {r["overlapping"][p]} overlap it')
                if any(not cl['same_torrent'] or cl['total'] != r['pieces'] for cl in calls):
                    problems.append('callback got a wrong torrent or total')
                if 'ok' in cb:
                    must = sorted((e[0], e[1]) for e in r['must'])
                    missing = [x for x in must if x not in rep]
                    if missing:
                        problems.append(f'bad files {missing} were not reported (reports {rep})')
                    # outside the theorem's hypothesis a bad zero-length entry may blank a neighbouring piece
                    required = [p for p in r['mismatches'] if r['hyp'] or not r['mayBlank'][p]]
                    if not set(required) <= set(cerr):
                        problems.append(f'content errors for pieces {sorted(cerr)} expected {sorted(r["mismatches"])}')
                if r['hyp'] and owed:
                    f0 = min(owed)
                    named = {e['file'] for e in frep} | ({cb['error'].get('file')} if 'error' in cb else set())
                    if f0 not in named:
                        problems.append(f'the first damaged file ({f0}) was neither reported nor raised (with callback: {cb}, reports {rep})')
            if problems:
                observed = {'nocb': nocb, 'cb': cb, 'calls': calls[:20], 'problems': problems}
                for m in (nocb, cb):
                    if 'error' in m and m['error'].get('kind') == 'internal':
                        observed['exc_type'] = m['error'].get('exc_type')
                if len(problems) == 1 and problems[0].startswith('bad files reported more than once'):
                    observed['deviation'] = 'duplicate-report-only'
                callinfo = []
                if case['interval']:
                    callinfo.append(f'interval={case["interval"]}' + (f' with time_monotonic pinned to {case["clock"]}' if pinned else ''))
                elif pinned:
                    callinfo.append(f'interval=0 with time_monotonic pinned to {case["clock"]}')
                if case['origin'] != 'loaded':
                    callinfo.append({'path-attr': 'Torrent.path set to an intact original',
                                     'created': 'torrent created from a path in this session',
                                     'reread': 'torrent created, dumped and re-read',
                                     'copy': 'copy() of a torrent created in this session',
                                     'reassigned': 'torrent created from a path, path re-assigned'}[case['origin']])
                if c.get('family') == 'spelling':
                    callinfo.append(f'path spelled {c["spelling"]!r}' + (f' from cwd {c["cwd"]}' if c.get('cwd') else '') +
                                    f' in a sandbox where a/link -> {c["linktarget"]}; tree at a/content: ' +
                                    ('absent' if c['textual'] is None else _describe(dict(c, disk=c['textual'], flips=c['tflips']))))
                if c.get('family') == 'fds':
                    callinfo.append(f'{len(c["sizes"])} listed files, {c["fds"]} file descriptors free')
                if case['verify_as'] != 'direct':
                    callinfo.append({'relative': 'relative path', 'symlink-top': 'through a symlink to the top directory',
                                     'original': 'verifying Torrent.path itself'}[case['verify_as']])
                fid = ctx.violation(f'verify({", ".join(callinfo)}): ' + '; '.join(problems[:3]), case,
                                    {'specOk': spec_ok, 'owed': r['owed'], 'must_report': r['must'],
                                     'mismatches': r['mismatches']},
                                    observed, MATCHERS)
                if fid is None:
                    continue
            # ---- 2. implementation against the code-shaped model (only under the theorem's hypothesis;
            #         outside it the comparison with the specification above is what counts)
            if not r['hyp']:
                ctx.dist['outside-hyp(bad empty entry)'] += 1
                continue
            etab = {}
            for p, f, n in r['errnos']:
                etab.setdefault((p, f), n)
                etab.setdefault((None, f), n)
            fault = r['fault']

            def errno_of(piece, f):
                if (piece, f) in etab:
                    return etab[(piece, f)]
                if fault is not None and fault[0] == f:
                    return fault[1]
                return etab.get((None, f))
            mcalls = [{'done': cl['done'], 'piece': cl['piece'],
                       'hash': None if cl['hash'] is None else common.sha1(_bytes_of(cl['hash'], now)),
                       'exc': _norm_model_exc(cl['exc'], errno_of, cl['piece'])}
                      for cl in (r['callsG'] if pinned else r['calls'])]
            icalls = [{'done': cl['done'], 'piece': cl['piece'], 'hash': cl['hash'], 'exc': cl['exc']} for cl in calls]
            if pinned and (r['nocbG'] != r['nocb'] or r['cbG'] != r['cb']):
                ctx.machinery_error('the verdict of the model depends on the interval (contradicts '
                                    'C02_interval_independent)', case)
            mn = dict(r['nocb'])
            if 'error' in mn:
                mn['error'] = _norm_model_exc(mn['error'], errno_of, None)
            mc = dict(r['cb'])
            if 'error' in mc:
                mc['error'] = _norm_model_exc(mc['error'], lambda p, f: fault[1] if fault and fault[0] == f else errno_of(p, f), None)
            inocb = dict(nocb)
            if 'error' in inocb and inocb['error'].get('kind') == 'internal':
                inocb = {'error': {'kind': 'internal'}}
            icb = cb if not ('error' in cb and cb['error'].get('kind') == 'internal') else {'error': {'kind': 'internal'}}
            # without a callback the reader may run into the unreadable byte before the collector's
            # exception stops it: then Collector._finalize raises that ReadError instead
            alt = [{'error': {'kind': 'read', 'file': fault[0], 'errno': fault[1]}}] if fault else []
            if throttled:
                # real clock and interval > 0: which progress reports pass is a matter of timing; the
                # verdict, the error reports (all of them, in order) and the final report are not
                import json

                def k2(cl):
                    return json.dumps({**cl, 'hash': cl['hash'] and cl['hash'].hex()}, sort_keys=True)
                mex = [cl for cl in mcalls if cl['exc']]
                iex = [cl for cl in icalls if cl['exc']]
                if c['threads'] != 1:
                    mex = sorted(({**cl, 'done': 0} for cl in mex), key=k2)
                    iex = sorted(({**cl, 'done': 0} for cl in iex), key=k2)
                    progress_ok = {k2({**cl, 'done': 0}) for cl in icalls} <= {k2({**cl, 'done': 0}) for cl in mcalls}
                else:
                    progress_ok = {k2(cl) for cl in icalls} <= {k2(cl) for cl in mcalls}
                possible = [cl['exc'] for cl in mcalls if cl['exc']]
                final_ok = (not any(cl['done'] == r['pieces'] for cl in mcalls) or
                            any(cl['done'] == r['pieces'] for cl in icalls))
                same = (mc == icb and mex == iex and progress_ok and final_ok and
                        (mn == inocb or inocb in alt or
                         (c['threads'] != 1 and 'error' in inocb and inocb['error'] in possible)))
            elif c['threads'] == 1:
                same = ((mn == inocb or inocb in alt) and mc == icb and mcalls == icalls)
            else:
                def key(cl):
                    import json
                    return (cl['piece'], json.dumps(cl['exc'], sort_keys=True))
                a = sorted([{**cl, 'done': 0} for cl in mcalls], key=key)
                b = sorted([{**cl, 'done': 0} for cl in icalls], key=key)
                possible = [cl['exc'] for cl in mcalls if cl['exc']]
                same = (mc == icb and a == b and
                        (mn == inocb or inocb in alt or ('error' in inocb and inocb['error'] in possible)))
            if not same:
                ctx.corr_break('c02.verifycall', case,
                               {'nocb': mn, 'cb': mc, 'calls': [{**cl, 'hash': cl['hash'] and cl['hash'].hex()} for cl in mcalls][:12]},
                               {'nocb': inocb, 'cb': icb, 'calls': [{**cl, 'hash': cl['hash'] and cl['hash'].hex()} for cl in icalls][:12]})


def _measure_headroom(_):
    """smallest number of free descriptors with which 40 intact listed files verify (in a worker)"""
    torf = common.import_torf()
    wd = common.worker_dir()
    n, L = 40, 16
    c = {'L': L, 'sizes': [3] * n, 'disk': ['ok'] * n, 'flips': [], 'single': False, 'paths': [[f'f{i:03d}'] for i in range(n)],
         'cseed': 1, 'dirname': 'T'}
    files, orig, now, top, plan, socks = _make(wd, c)
    stream = b''.join(orig)
    t = content.make_torrent(torf, wd, 'T', files, L, with_path=False)
    t.metainfo['info']['pieces'] = b''.join(common.sha1(stream[i:i + L]) for i in range(0, len(stream), L))
    t.validate = lambda: None
    for k in range(1, 64):
        try:
            with _FdLimit(k):
                ok = t.verify(top, threads=1) is True
        except BaseException:  # noqa
            ok = False
        if ok:
            return [k]
    return [None]


def _order(ctx):
    """report a failure on content that is exactly as recorded before failures on damaged content"""
    ctx.violations.sort(key=lambda v: 0 if 'content as recorded' in v.get('what', '') else 1)


def run(ctx, drv):
    ctx.notes['rule'] = RULE
    ctx.notes['assumptions'] = [
        'SHA-1 is a parameter H; statements about detection carry the hypothesis that H separates the two piece contents; '
        'the driver runs the model with an injective H and the harness applies real SHA-1',
        'for piece lengths that are not multiples of 16 KiB only the validate() gate of verify() is bypassed on the instance; '
        'real multiples of 16 KiB run through the unpatched API',
        'the callback is passive (cancellation: C04); order of callback calls is compared exactly for one hasher thread '
        'and as a set for several (schedules: C03, counters: C12)',
        'the torrent passed validate() (C07)',
        'path states that need another user or a faulty device (EACCES — the check runs as root —, EMFILE, EIO, an '
        'unreadable byte) are produced by shadowing `open` and `os` inside torf._stream for the listed paths only; '
        'ENOENT, ENOTDIR, ELOOP, ENAMETOOLONG, EISDIR, ENXIO, symbolic links and are real file system states; FIFOs are not used (open() would block)',
        'the state of a path does not change during one verify() call (no race between exists(), getsize() and open())',
        'without a callback, when both an earlier error and an unreadable byte exist, either may be raised '
        '(the reader thread runs ahead of the collector)',
        'history of the Torrent object: created / re-read / copied / path re-assigned through the public API where torf '
        'can create the torrent of the case itself (multiples of 16 KiB, flat sorted names, no empty file); otherwise the '
        '`_path` attribute of the object is set to an intact original (Torrent.path only returns that attribute)',
        'resource environment: the soft RLIMIT_NOFILE of the forked worker is lowered to (descriptors in use + k) around '
        'verify(); the iff and the reports are demanded whenever k >= max_open_files + 1 = 11 (C02_descriptor_headroom; '
        'the unchanged code needs no further descriptor, see coverage.descriptor_headroom); below that only the '
        'correspondence with the model (open() fails with EMFILE once the handle table is as large as k) is checked',
        'spelling of the content path: the sandbox of a spelling case is described to the model as an inode table; '
        'path resolution is the operating system\'s (Reuse.resolve of the C18 model, trusted as in C18); torf wraps the '
        'joined path in pathlib, which drops empty and `.` components (resolution-preserving below a directory)',
        'reporting interval: with the real clock only the verdict, the error reports and the final report are compared '
        'with the model (which progress reports pass is a matter of timing); with `time_monotonic` of torf._generate '
        'pinned to planned values (one hasher thread) every call is compared',
    ]
    evaluate(ctx, drv, gen_cases(ctx))
    _order(ctx)
    k = common.pmap(_measure_headroom, [[0], [1]])[0][0]       # (two chunks so that it runs in a forked worker)
    ctx.notes['descriptor_headroom'] = {
        'max_open_files (committed)': FD_CAP, 'demanded free descriptors': FD_CAP + 1,
        'measured: smallest number of free descriptors with which 40 intact listed files verify': k,
        'constant beyond cap + 1': None if k is None else k - (FD_CAP + 1)}


def search(ctx, drv):
    evaluate(ctx, drv, gen_cases(ctx, scale=3.0))
    _order(ctx)


def replay(ctx, drv, rp):
    evaluate(ctx, drv, [dict(rp['case'], kind='replay')])
    return {'fails': bool(ctx.violations or ctx.corr_breaks), 'violations': ctx.violations,
            'corr_breaks': ctx.corr_breaks, 'known': list(ctx.known)}
