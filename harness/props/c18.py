"""
C18 — reusing hashes from another torrent is sound, complete and atomic.

Correspondence: the Lean model `Reuse.reuse` (search loop, is_file_match, is_content_match with
its first/middle/last sampling, copy, ReuseCallback) is run on the same scenario as the real
`Torrent.reuse`: result / raised error kind, the metainfo afterwards and the callback argument
trace are compared; the implementation is also checked directly against the executable
specification (`Spec/Reuse.lean`: acceptable / faithful / mustFind): accepted => acceptable and the
torrent carries exactly the candidate's piece length, hashes and file order; not accepted =>
metainfo unchanged; faithful candidate reachable => accepted.  After acceptance the real
`validate()` must pass and the real `verify(path)` must succeed when the candidate is faithful.

A scenario = local content tree (>= 3 files of >= 5 pieces each, files not starting at piece
boundaries; or a single file) + a set of `.torrent` files laid out in a search tree + the shape of
the search path argument + what happens to the local content after the torrent object was made.
The harness abstracts the search tree into the ordered item list itself (its own directory walk
with os.listdir order), computes what is locally readable for every candidate geometry itself
(own chunking + hashlib), and writes the candidate files with its own bencoder.
"""
import hashlib
import json
import os
import shutil

from harness import common

K = 16384
MATCHERS = {}
MAXSZ = int(10e6)

RULE = ('scenario = (content layout, candidate set in a search tree, search path shape, local damage, '
        'torrent piece-size bounds) x callback (none | passive interval 0 | passive huge interval | cancelling at '
        'each call of the passive trace); candidate kinds: faithful, renamed, size +-1, file missing/extra, one '
        'differing piece at every piece position, piece length out of bounds, permuted file order, other piece '
        'lengths, extra per-file fields, separator inside a path component, unreadable/undecodable/invalid/'
        'oversized torrent files, upper-case extension; non-trivial = the scenario contains a candidate that '
        'passes the name/path/size match (content is sampled); distinct = distinct (scenario, callback) tuples')


# --------------------------------------------------------------------------------------------
# own bencoder / content helpers (independent of torf)

def benc(x):
    if isinstance(x, int):
        return b'i%de' % x
    if isinstance(x, str):
        x = x.encode()
    if isinstance(x, bytes):
        return b'%d:%s' % (len(x), x)
    if isinstance(x, list):
        return b'l' + b''.join(benc(v) for v in x) + b'e'
    if isinstance(x, dict):
        items = sorted((k.encode() if isinstance(k, str) else k, v) for k, v in x.items())
        return b'd' + b''.join(benc(k) + benc(v) for k, v in items) + b'e'
    raise TypeError(x)


def fbytes(seed, key, size):
    import random
    return random.Random(f'{seed}/{key}').randbytes(size)


def stream_hashes(datas, pl):
    data = b''.join(datas)
    return [hashlib.sha1(data[i:i + pl]).hexdigest() for i in range(0, len(data), pl)]


# --------------------------------------------------------------------------------------------
# scenario → files on disk, abstract items, candidates

def cand_meta(sc, cd):
    """candidate description → (info dict, abstract candidate for the model)"""
    files = cd['files']          # list of [components, size, key] in candidate order
    pl = cd['pl']
    datas = [fbytes(sc['cseed'], f[2], f[1]) for f in files]
    hashes = stream_hashes(datas, pl)
    for p in cd.get('flip', []):
        if p < len(hashes):
            hashes[p] = hashlib.sha1(b'flip' + bytes.fromhex(hashes[p])).hexdigest()
    info = {'name': cd['name'], 'piece length': pl, 'pieces': b''.join(bytes.fromhex(h) for h in hashes)}
    if cd['single']:
        info['length'] = files[0][1]
    else:
        fl = []
        for f in files:
            d = {'length': f[1], 'path': list(f[0])}
            if cd.get('extra_fields'):
                d['md5sum'] = 'a' * 32
                d['attr'] = 'x'
            fl.append(d)
        info['files'] = fl
    model = {'name': cd['name'], 'single': cd['single'], 'pl': pl, 'hashes': hashes,
             'files': [{'path': list(f[0]), 'size': f[1]} for f in files]}
    return info, model


def local_pieces(content_root, single, cand_model):
    """what verify_piece would find for every piece of the candidate's geometry under the local
    content path: hex digest | 'missing' | 'sizeError' (first relevant file in order decides)"""
    pl = cand_model['pl']
    files = cand_model['files']
    total = sum(f['size'] for f in files)
    n = -(-total // pl)
    state, datas = [], []
    for f in files:
        p = content_root if single else os.path.join(content_root, *f['path'])
        if not os.path.isfile(p):
            state.append('missing')
            datas.append(b'\0' * f['size'])
        elif os.path.getsize(p) != f['size']:
            state.append('sizeError')
            datas.append(b'\0' * f['size'])
        else:
            state.append(None)
            with open(p, 'rb') as fh:
                datas.append(fh.read())
    data = b''.join(datas)
    out = []
    for i in range(n):
        lo, hi = i * pl, min((i + 1) * pl, total) - 1
        pos, verdict = 0, None
        for f, st in zip(files, state):
            a, b = pos, pos + f['size'] - 1
            pos += f['size']
            if f['size'] and a <= hi and b >= lo and st and verdict is None:
                verdict = st
        out.append(verdict or hashlib.sha1(data[lo:hi + 1]).hexdigest())
    return out


def build(wd, sc):
    """create content + search tree; returns (content path, search argument, plan of torrent files)"""
    root = os.path.join(wd, 's')
    shutil.rmtree(root, ignore_errors=True)
    os.makedirs(root)
    cpath = os.path.join(root, 'content', sc['name'])
    if sc['single']:
        os.makedirs(os.path.dirname(cpath))
        with open(cpath, 'wb') as f:
            f.write(fbytes(sc['cseed'], sc['files'][0][2], sc['files'][0][1]))
    else:
        for comps, size, key in sc['files']:
            p = os.path.join(cpath, *comps)
            os.makedirs(os.path.dirname(p), exist_ok=True)
            with open(p, 'wb') as f:
                f.write(fbytes(sc['cseed'], key, size))
    sroot = os.path.join(root, 'search')
    os.makedirs(sroot)
    plan = {}          # absolute path of torrent file → ('torrent', model) | ('unreadable',) | …
    for tf in sc['tfiles']:
        p = os.path.join(sroot, *tf['at'])
        os.makedirs(os.path.dirname(p), exist_ok=True)
        k = tf['kind']
        if k == 'torrent':
            info, model = cand_meta(sc, tf['cand'])
            with open(p, 'wb') as f:
                f.write(benc({'info': info, 'created by': 'harness'}))
            plan[p] = ('torrent', model)
        elif k == 'undecodable':
            with open(p, 'wb') as f:
                f.write(b'this is not bencoded')
            plan[p] = ('undecodable',)
        elif k == 'invalid':
            info, model = cand_meta(sc, tf['cand'])
            info.pop('pieces') if tf.get('how', 0) == 0 else info.update({'piece length': 1000})
            with open(p, 'wb') as f:
                f.write(benc({'info': info}))
            plan[p] = ('invalid',)
        elif k == 'unreadable':
            os.symlink(os.path.join(root, 'nowhere'), p)
            plan[p] = ('unreadable',)
        elif k == 'oversized':
            info, model = cand_meta(sc, tf['cand'])
            with open(p, 'wb') as f:
                f.write(benc({'info': info, 'comment': 'x'}))
                f.truncate(MAXSZ + 1)
            plan[p] = ('skipped',)
        elif k == 'ignored':
            info, model = cand_meta(sc, tf['cand'])
            with open(p, 'wb') as f:
                f.write(benc({'info': info}))
            plan[p] = ('skipped',)
        elif k == 'emptydir':
            os.makedirs(p, exist_ok=True)
    arg = [os.path.join(sroot, *a) for a in sc['search']]
    return cpath, (arg[0] if sc.get('scalar_arg') and len(arg) == 1 else arg), plan


def walk_items(paths, plan):
    """the harness's own statement of what the search must visit, in os.listdir order"""
    items = []

    def find(p):
        if os.path.isdir(p):
            for name in os.listdir(p):
                find(p + os.sep + name)
        elif os.path.basename(p).lower().endswith('.torrent'):
            try:
                sz = os.path.getsize(p)
            except OSError:
                items.append((p, ('unreadable',)))
                return
            if sz <= MAXSZ:
                items.append((p, plan.get(p, ('unreadable',))))
        elif not os.path.exists(p):
            items.append((None, ('pathError',)))
    for p in paths:
        find(p)
    return items


def damage(cpath, sc):
    d = sc.get('damage')
    if not d:
        return
    p = cpath if sc['single'] else os.path.join(cpath, *sc['files'][d['file']][0])
    if d['how'] == 'delete':
        os.unlink(p)
    elif d['how'] == 'truncate':
        with open(p, 'r+b') as f:
            f.truncate(os.path.getsize(p) - 1)
    elif d['how'] == 'flipbyte':
        with open(p, 'r+b') as f:
            f.seek(d['at'])
            b = f.read(1)
            f.seek(d['at'])
            f.write(bytes([b[0] ^ 0xff]))


def exc_kind(e):
    n = type(e).__name__
    return {'ReadError': 'read', 'BdecodeError': 'bdecode', 'MetainfoError': 'metainfo',
            'VerifyFileSizeError': 'verifyFileSize'}.get(n, 'internal:' + n)


def meta_obs(t):
    info = t.metainfo['info']
    pieces = info.get('pieces')
    files = ([[list(f['path']), f['length']] for f in info['files']] if 'files' in info
             else [[[], info['length']]])
    rest = {k: repr(v) for k, v in info.items() if k not in ('pieces', 'piece length', 'files')}
    top = {k: repr(v) for k, v in t.metainfo.items() if k != 'info'}
    extra_file_keys = sorted({k for f in info.get('files', []) for k in f} - {'length', 'path'})
    return {'pl': info.get('piece length'), 'name': info.get('name'),
            'pieces': None if pieces is None else [pieces[i:i + 20].hex() for i in range(0, len(pieces), 20)],
            'files': files, 'rest': [rest, top, extra_file_keys]}


def _run_chunk(scs):
    torf = common.import_torf()
    wd = common.worker_dir()
    out = []
    for sc in scs:
        obs = {'runs': []}
        try:
            cpath, arg, plan = build(wd, sc)
            paths = arg if isinstance(arg, list) else [arg]
            items = walk_items(paths, plan)
            ipaths = [p for p, _ in items]

            def fresh():
                t = torf.Torrent(path=cpath, piece_size_min=sc.get('plmin'), piece_size_max=sc.get('plmax'))
                if sc.get('t_has_pieces'):
                    t.metainfo['info']['pieces'] = b'\x07' * 20 * t.pieces
                return t
            t0 = fresh()
            obs['t'] = dict(meta_obs(t0), plMin=t0.piece_size_min, plMax=t0.piece_size_max,
                            single=t0.mode == 'singlefile')
            damage(cpath, sc)
            # local outcome per candidate geometry (after the damage), computed by the harness
            mitems = []
            for p, pl_ in items:
                if pl_[0] == 'torrent':
                    m = pl_[1]
                    loc = local_pieces(cpath, sc['single'], m) if m['name'] == sc['name'] else []
                    mitems.append({'kind': 'torrent', 'cand': m, 'loc': loc})
                else:
                    mitems.append({'kind': pl_[0]})
            obs['items'] = mitems
            obs['ipaths'] = ipaths
            # callback variants: none, passive, passive with a huge interval, then cancel at each call
            variants = [('none', None, 0), ('passive', (), 0), ('passive-interval', (), 1e9)]
            passive_trace = None
            vi = 0
            while vi < len(variants):
                label, stops, interval = variants[vi]
                vi += 1
                if sc.get('damage'):
                    # restore → make the torrent → damage again, so the torrent describes the intact content
                    build(wd, sc)
                    t = fresh()
                    damage(cpath, sc)
                else:
                    t = fresh()
                before = meta_obs(t)
                calls = []

                def cb(tt, path, done, total, is_match, exc, _stops=stops):
                    ok = tt is t and (exc is None or isinstance(exc, torf.TorfError))
                    calls.append([path if ok else 'BAD-ARGS', done, total, is_match,
                                  None if exc is None else exc_kind(exc)])
                    if _stops and [path, is_match] in [list(s) for s in _stops]:
                        return (False, 0, 'stop')[done % 3]
                    return None
                try:
                    r = t.reuse(arg, callback=None if stops is None else cb, interval=interval)
                    res = {'ok': r} if isinstance(r, bool) else {'ok': repr(r)}
                except BaseException as e:  # noqa
                    res = {'raised': exc_kind(e)}
                after = meta_obs(t)
                run = {'label': label, 'stops': None if stops is None else [list(s) for s in stops],
                       'elapsed': interval == 0, 'res': res, 'calls': calls, 'before': before, 'after': after}
                if res == {'ok': True}:
                    try:
                        t.validate()
                        run['validate'] = 'ok'
                    except BaseException as e:  # noqa
                        run['validate'] = exc_kind(e)
                    if label in ('none', 'passive'):
                        try:
                            run['verify'] = t.verify(cpath, threads=1, callback=lambda *a: None)
                        except BaseException as e:  # noqa
                            run['verify'] = 'raised:' + exc_kind(e)
                obs['runs'].append(run)
                if label == 'passive':
                    passive_trace = calls
                    seen = []
                    for c in calls:
                        key = (c[0], c[3])
                        if key not in seen:
                            seen.append(key)
                            variants.append((f'cancel@{len(seen)}', (key,), 0))
        except BaseException:  # noqa
            import traceback
            obs['harness_exc'] = traceback.format_exc()[-1500:]
        out.append((sc, obs))
    return out


# --------------------------------------------------------------------------------------------
# generators

def _layout(rng, single=False):
    if single:
        return [[[], rng.choice([5, 6, 7, 9]) * K + rng.choice([0, 1, 777, K - 1]), 'f0']]
    n = rng.choice([3, 3, 3, 4])
    files = []
    dirs = rng.choice([[[], [], [], []], [[], ['d'], ['d'], ['e', 'f']], [['d'], ['d'], [], ['d']]])
    for i in range(n):
        size = rng.choice([5, 5, 6, 7, 8]) * K + rng.choice([1, 123, 4321, K - 1, K // 2, 0 if i else 17])
        files.append([dirs[i] + ['%s%d.bin' % ('abcd'[i], i)], size, 'f%d' % i])
    return files


def _sorted_files(files):
    return sorted(files, key=lambda f: os.sep.join(f[0]))


def _cand(sc, **kw):
    cd = {'name': sc['name'], 'single': sc['single'], 'files': _sorted_files([list(f) for f in sc['files']]),
          'pl': K}
    cd.update(kw)
    return cd


def _tf(at, kind='torrent', cand=None, **kw):
    d = {'at': at if isinstance(at, list) else [at], 'kind': kind}
    if cand is not None:
        d['cand'] = cand
    d.update(kw)
    return d


def _scenario(rng, shape, single=False):
    files = _layout(rng, single)
    return {'name': 'single.bin' if single else rng.choice(['Content', 'My Files', 'c.d']),
            'single': single, 'files': files, 'cseed': rng.randrange(1 << 30), 'tfiles': [],
            'search': [['tree']], 'shape': shape}


def gen_scenarios(ctx, scale=1.0):
    rng = ctx.rng
    out = []

    def npieces(sc, pl=K):
        return -(-sum(f[1] for f in sc['files']) // pl)
    # 1. one differing piece at every piece position (pins the sampled set exactly); both for the
    #    torrent's own order and for a permuted candidate order, and for a second piece length
    for single in (False, True):
        for rep in range(ctx.n(3, 12)):
            base = _scenario(rng, 'flip-every-piece', single)
            variants = [dict()]
            if not single:
                perm = [list(f) for f in base['files']]
                rng.shuffle(perm)
                variants.append({'files': perm})
            variants.append({'pl': 2 * K})
            for v in variants:
                pl = v.get('pl', K)
                for p in range(npieces(base, pl)):
                    sc = json.loads(json.dumps(base))
                    sc['tfiles'] = [_tf(['tree', 'c.torrent'], cand=_cand(sc, flip=[p], **v))]
                    if rng.random() < 0.3:
                        sc['tfiles'].append(_tf(['tree', 'z', 'good.torrent'], cand=_cand(sc)))
                    out.append(sc)
    # 2. candidate kinds, alone and in company
    def kinds(sc):
        fs = _sorted_files([list(f) for f in sc['files']])
        ks = {
            'faithful': _cand(sc),
            'renamed': _cand(sc, name=sc['name'] + 'x'),
            'pl-32k': _cand(sc, pl=2 * K),
            'pl-64k': _cand(sc, pl=4 * K),
            'size+1': _cand(sc, files=[[f[0], f[1] + (1 if i == len(fs) - 1 else 0), f[2]] for i, f in enumerate(fs)]),
            'size-1': _cand(sc, files=[[f[0], f[1] - (1 if i == 0 else 0), f[2]] for i, f in enumerate(fs)]),
            'flip-first': _cand(sc, flip=[0]),
            'flip-last': _cand(sc, flip=[npieces(sc) - 1]),
        }
        if not sc['single']:
            ks['file-missing'] = _cand(sc, files=fs[:-1])
            ks['file-extra'] = _cand(sc, files=fs + [[['zz.extra'], 3 * K + 5, 'fx']])
            ks['file-renamed'] = _cand(sc, files=[[f[0][:-1] + ['q' + f[0][-1]] if i == 1 else f[0], f[1], f[2]]
                                                  for i, f in enumerate(fs)])
            ks['permuted'] = _cand(sc, files=list(reversed(fs)))
            ks['rotated-32k'] = _cand(sc, files=fs[1:] + fs[:1], pl=2 * K)
            ks['extra-fields'] = _cand(sc, extra_fields=True)
            nested = [i for i, f in enumerate(fs) if len(f[0]) > 1]
            if nested:
                i = nested[0]
                ks['sep-in-component'] = _cand(sc, files=[[[os.sep.join(f[0])] if j == i else f[0], f[1], f[2]]
                                                          for j, f in enumerate(fs)])
            ks['as-single'] = _cand(sc, single=True, files=[[[], sum(f[1] for f in fs), 'f0']])
        return ks
    for single in (False, True):
        for rep in range(ctx.n(6, 40)):
            base = _scenario(rng, 'kinds', single)
            for kname, cd in kinds(base).items():
                sc = json.loads(json.dumps(base))
                sc['shape'] = 'kind:' + kname
                sc['tfiles'] = [_tf(['tree', 'k.torrent'], cand=cd)]
                if kname == 'pl-64k' or rng.random() < 0.25:
                    sc['plmax'] = rng.choice([2 * K, 4 * K])
                if kname == 'faithful' and rep % 2:
                    sc['plmin'] = 2 * K
                sc['t_has_pieces'] = rng.random() < 0.3
                sc['scalar_arg'] = rng.random() < 0.5
                out.append(sc)
    # 3. search trees: mixtures of items in nested directories, several paths, odd entries
    for rep in range(int(ctx.n(400, 6000) * scale)):
        single = rng.random() < 0.25
        sc = _scenario(rng, 'tree', single)
        ks = kinds(sc)
        names = list(ks)
        tfs = []
        nitems = rng.randint(1, 7)
        dirs = [['tree'], ['tree', 'a'], ['tree', 'a', 'b'], ['tree', 'c'], ['other']]
        for i in range(nitems):
            d = rng.choice(dirs)
            r = rng.random()
            ext = rng.choice(['.torrent', '.torrent', '.TORRENT', '.Torrent'])
            if r < 0.55:
                kn = rng.choice(names + ['faithful'] * 3)
                tfs.append(_tf(d + [f'{i}-{kn}{ext}'], cand=ks[kn]))
            elif r < 0.65:
                tfs.append(_tf(d + [f'{i}-bad{ext}'], kind='undecodable'))
            elif r < 0.75:
                tfs.append(_tf(d + [f'{i}-inv{ext}'], kind='invalid', cand=ks['faithful'], how=rng.randint(0, 1)))
            elif r < 0.83:
                tfs.append(_tf(d + [f'{i}-dangling{ext}'], kind='unreadable'))
            elif r < 0.89:
                tfs.append(_tf(d + [f'{i}-big{ext}'], kind='oversized', cand=ks['faithful']))
            elif r < 0.95:
                tfs.append(_tf(d + [f'{i}-faithful.torrent.txt'], kind='ignored', cand=ks['faithful']))
            else:
                tfs.append(_tf(d + [f'{i}-dir.torrent'], kind='emptydir'))
        sc['tfiles'] = tfs
        shape = rng.choice(['dir', 'dir', 'two', 'files', 'with-missing', 'with-missing-torrent'])
        if shape == 'dir':
            sc['search'] = [['tree']]
            sc['scalar_arg'] = rng.random() < 0.5
        elif shape == 'two':
            sc['search'] = [['other'], ['tree']]
        elif shape == 'files':
            sc['search'] = [tf['at'] for tf in tfs if tf['kind'] != 'emptydir'][:4] or [['tree']]
        elif shape == 'with-missing':
            sc['search'] = [['nonexistent', 'dir'], ['tree'], ['other']]
        else:
            sc['search'] = [['tree', 'a'], ['nowhere', 'x.torrent'], ['tree']]
        if rng.random() < 0.2:
            sc['plmax'] = rng.choice([K, 2 * K])
        if rng.random() < 0.12:
            sc['damage'] = {'file': rng.randrange(len(sc['files'])),
                            'how': rng.choice(['delete', 'truncate', 'flipbyte']),
                            'at': rng.randrange(5 * K)}
        sc['t_has_pieces'] = rng.random() < 0.2
        out.append(sc)
    return out


# --------------------------------------------------------------------------------------------
# evaluation

def _cand_after(m):
    return {'pl': m['pl'], 'pieces': m['hashes'], 'files': [[f['path'], f['size']] for f in m['files']]}


def check_spec(before, res, after, rep, items, stops, what):
    """the executable specification applied to an outcome (of the implementation or of the model);
    returns None or a description of the deviation"""
    if res == {'ok': True}:
        # S1: some acceptable candidate; the torrent carries exactly its piece length, hashes, file order
        for it, info in zip(items, rep['items']):
            if it['kind'] == 'torrent' and info['acceptable']:
                ca = _cand_after(it['cand'])
                if it['cand']['single']:
                    ca['files'] = before['files']
                if all(after[k] == ca[k] for k in ('pl', 'pieces', 'files')):
                    if after['name'] != before['name'] or after.get('rest') != before.get('rest'):
                        return f'{what}: accepted, but fields other than pieces / piece length / files changed'
                    return None
        return f'{what}: returned True but the torrent does not carry an acceptable candidate\'s hashes/piece length/file order'
    # S2: nothing accepted ⇒ unchanged
    if any(after[k] != before[k] for k in ('pl', 'pieces', 'files', 'name')) or after.get('rest') != before.get('rest'):
        return f'{what}: nothing was accepted ({res}) but the metainfo changed'
    # S3: completeness
    if rep['mustFind'] and not stops:
        return f'{what}: a faithful candidate is reachable but the result is {res}'
    return None


def _key(sc, label):
    return json.dumps([sc['name'], sc['files'], sc['tfiles'], sc['search'], sc.get('damage'), sc.get('plmin'),
                       sc.get('plmax'), label], sort_keys=True)


def evaluate(ctx, drv, scs):
    results = common.pmap(_run_chunk, common.split(scs, common.NPROC * 6))
    flat = [x for chunk in results for x in chunk]
    reqs, owner = [], []
    for si, (sc, obs) in enumerate(flat):
        if 'harness_exc' in obs:
            continue
        t = obs['t']
        tj = {'name': t['name'], 'single': t['single'], 'pl': t['pl'], 'plMin': t['plMin'], 'plMax': t['plMax'],
              'files': [{'path': p, 'size': s} for p, s in t['files']]}
        for ri, run in enumerate(obs['runs']):
            tj2 = dict(tj)
            if run['before']['pieces'] is not None:
                tj2['pieces'] = run['before']['pieces']
            ipaths = obs['ipaths']
            cbj = None
            if run['stops'] is not None:
                cbj = [[ipaths.index(p) if p in ipaths else 10 ** 6, m] for p, m in run['stops']]
            reqs.append({'op': 'c18.reuse', 't': tj2, 'items': obs['items'], 'cb': cbj, 'elapsed': run['elapsed']})
            owner.append((si, ri))
    replies = drv.run(reqs)
    for (si, ri), rep in zip(owner, replies):
        sc, obs = flat[si]
        run = obs['runs'][ri]
        items, ipaths = obs['items'], obs['ipaths']
        case = {'scenario': {k: v for k, v in sc.items()}, 'callback': run['label'], 'stops': run['stops'],
                'interval': 0 if run['elapsed'] else 1e9}
        sampled = any(i.get('fileMatch') for i in rep['items'])
        ctx.case(key=_key(sc, run['label']), nontrivial=sampled,
                 kind=sc['shape'].split(':')[0] + '/' + run['label'].split('@')[0])
        ctx.dist['result:' + json.dumps(run['res'], sort_keys=True)] += 1
        # model observables in the implementation's vocabulary
        m = rep['model']
        mcalls = [[ipaths[c[0]], c[1], c[2], c[3], c[4]] for c in m['calls']]
        rel = lambda p: p if p is None else p.split('/search/', 1)[-1]  # noqa: E731
        mafter = {'pl': m['after']['pl'], 'pieces': m['after']['pieces'], 'name': m['after']['name'],
                  'files': [[p, s] for p, s in m['after']['files']]}
        before, after = run['before'], run['after']
        impl = {'res': run['res'], 'calls': run['calls'],
                'after': {k: after[k] for k in ('pl', 'pieces', 'files', 'name')}}
        model = {'res': m['res'], 'calls': mcalls, 'after': mafter}
        bad = check_spec(before, run['res'], after, rep, items, run['stops'], 'reuse()')
        if bad is None and run['res'] == {'ok': True}:
            if run.get('validate') != 'ok':
                bad = f'reuse() accepted a candidate but validate() then raises {run.get("validate")}'
            elif 'verify' in run:
                acc = [i for i, (it, info) in enumerate(zip(items, rep['items'])) if it['kind'] == 'torrent'
                       and info['faithful'] and all(after[k] == _cand_after(it['cand'])[k] for k in ('pl', 'pieces'))]
                if acc and run['verify'] is not True:
                    bad = f'reuse() accepted a faithful candidate but verify() gives {run["verify"]}'
                ctx.dist['verify-after-accept:' + str(run['verify'])] += 1
        if bad is None and 'raised' in run['res'] and run['stops'] is None and run['res']['raised'] in ('read', 'bdecode', 'metainfo'):
            pass
        if bad is not None:
            ctx.violation(bad, case, {'model': model, 'items': rep['items'], 'mustFind': rep['mustFind']}, impl,
                          finding_matchers=MATCHERS)
            continue
        if rep['hyp']:
            mbad = check_spec({k: before[k] for k in ('pl', 'pieces', 'files', 'name')}, m['res'], mafter, rep, items,
                              run['stops'], 'model')
            if mbad is not None:
                ctx.machinery_error('the model violates the specification under the hypothesis: ' + mbad, case)
                continue
            if impl != model:
                ctx.corr_break('c18.reuse', case, model, impl)
        else:
            ctx.dist['outside-hyp'] += 1
        if sampled and run['label'] == 'passive':
            ctx.sample({'case': {'shape': sc['shape'], 'files': sc['files'], 'tfiles': [t['at'] for t in sc['tfiles']]},
                        'res': run['res'], 'calls': [[rel(c[0])] + c[1:] for c in run['calls'][:4]]})
    for sc, obs in flat:
        if 'harness_exc' in obs:
            ctx.machinery_error('harness could not build/run the scenario: ' + obs['harness_exc'], sc)


def run(ctx, drv):
    ctx.notes['rule'] = RULE
    ctx.notes['assumptions'] = [
        'the searched paths are abstracted to the ordered item list find_torrent_files yields; the harness derives it with '
        'its own directory walk (os.listdir order, *.torrent case-insensitive, files above MAX_TORRENT_FILE_SIZE skipped)',
        'local content enters as, per candidate geometry, hash | missing | size error per piece (computed by the harness '
        'with its own chunking and hashlib); SHA-1 is uninterpreted',
        'sorted(a) == sorted(b) on lists of (str, int) tuples is modelled as multiset equality',
        'interval is modelled as a boolean "elapsed" (0 => always, 1e9 => never); intermediate intervals depend on the clock',
        'layouts are well formed: non-empty files, pairwise distinct paths, non-empty components; the torrent was made from '
        'its path (file entries carry only length and path)',
        'AssertionError from copy() (path component containing a separator) is undocumented; the property only demands that '
        'the metainfo is unchanged, which is what is checked',
    ]
    corpus = []
    cdir = os.path.join(common.CORPUS_DIR, 'C18')
    if os.path.isdir(cdir):
        for fn in sorted(os.listdir(cdir)):
            if fn.endswith('.json'):
                corpus.append(json.load(open(os.path.join(cdir, fn)))['case']['scenario'])
    evaluate(ctx, drv, corpus + gen_scenarios(ctx))
    ctx.exhaustive = False


def search(ctx, drv):
    evaluate(ctx, drv, gen_scenarios(ctx, scale=3.0))


def replay(ctx, drv, rp):
    evaluate(ctx, drv, [rp['case']['scenario']])
    return {'fails': bool(ctx.violations or ctx.corr_breaks), 'violations': ctx.violations,
            'corr_breaks': ctx.corr_breaks}
