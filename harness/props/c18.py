"""
C18 — reusing hashes from another torrent is sound, complete and atomic.

Correspondence: the Lean model `Reuse.reuse` (search loop, is_file_match, is_content_match with
its first/middle/last sampling, copy, ReuseCallback) is run on the same scenario as the real
`Torrent.reuse`: result / raised error kind, the metainfo afterwards and the callback argument
trace are compared; the implementation is also checked directly against the executable
specification (`Spec/Reuse.lean`: acceptable / faithful / mustFind): accepted => acceptable and the
torrent carries exactly the candidate's piece length, hashes and file order; not accepted =>
metainfo unchanged; faithful candidate reachable => accepted.  After acceptance the real
`validate()` must pass and the real `verify(path)` must succeed when the candidate is faithful.

A scenario = local content tree (>= 3 files of >= 5 pieces each, files not starting at piece
boundaries; clusters of many tiny files inside one piece; or a single file) + a set of `.torrent`
files laid out in a search tree with symbolic links and permissions + the *spelling* and kind of the
search path argument (absolute / relative to a working directory, `.`, `..`, doubled and trailing
slashes, through links, str / pathlib / list / tuple / generator) + what happens to the local content
after the torrent object was made.

Three parties per case: the implementation I; the Lean model M, which since round 3 includes
`find_torrent_files` over an abstract file system (inode table scanned from the real tree with
lstat/readlink/listdir) whose path resolution is the operating system's (`Model/ReuseSearch.lean`);
and the harness's own walk S over the real file system with the spellings as given (os.path.* /
os.listdir in the same working directory and with the same effective uid).  M's yielded items must
equal S's (else machinery error: the model of path resolution is wrong), I is judged against S
(completeness, soundness, atomicity, reported paths) and compared with M (result, metainfo, trace).
The harness computes what is locally readable for every candidate geometry itself (own chunking +
hashlib), and writes the candidate files with its own bencoder.
"""
import contextlib
import hashlib
import json
import os
import pathlib
import random
import shutil

from harness import common

K = 16384


def _cands(case, same_name=True):
    sc = case.get('scenario', {})
    return [tf['cand'] for tf in sc.get('tfiles', []) if tf.get('kind') == 'torrent' and 'cand' in tf
            and (not same_name or tf['cand']['name'] == sc.get('name'))]


def _m_bytes_component(case, observed, finding):
    """TypeError, and a same-named multi-file candidate with a bytes path component is among the torrent files"""
    return ((observed or {}).get('res') == {'raised': 'internal:TypeError'}
            and any(not c['single'] and any(isinstance(x, dict) for f in c['files'] for x in f[0]) for c in _cands(case)))


def _m_separator_component(case, observed, finding):
    """AssertionError, and a same-named multi-file candidate has a path component containing the separator
    (and none has an entry without components: that is the other finding)"""
    cs = _cands(case)
    return ((observed or {}).get('res') == {'raised': 'internal:AssertionError'}
            and any(not c['single'] and any(isinstance(x, str) and os.sep in x for f in c['files'] for x in f[0]) for c in cs)
            and not any(not c['single'] and any(f[0] == [] for f in c['files']) for c in cs))


def _m_empty_path(case, observed, finding):
    """AssertionError, the torrent is a single file, and a same-named multi-file candidate consists of one
    entry without path components"""
    return ((observed or {}).get('res') == {'raised': 'internal:AssertionError'} and case.get('scenario', {}).get('single')
            and any(not c['single'] and [f[0] for f in c['files']] == [[]] for c in _cands(case)))


MATCHERS = {'bytes_component_typeerror': _m_bytes_component,
            'separator_component_assertion': _m_separator_component,
            'empty_path_assertion': _m_empty_path}
MAXSZ = int(10e6)

NOBODY = 65534
FUEL = 200

RULE = ('scenario = (content layout incl. clusters of > 11 tiny files per piece, candidate set in a search tree with '
        'symlinks/permissions, spelling and kind of the search path argument, working directory, local damage, '
        'torrent piece-size bounds) x callback (none | passive interval 0 | passive huge interval | cancelling at '
        'each call of the passive trace); candidate kinds: faithful, renamed, size +-1, file missing/extra, one '
        'differing piece at every piece position, piece length out of bounds, permuted file order, other piece '
        'lengths, extra per-file fields, separator inside a path component, the other kind (file N <-> directory N holding N, '
        'empty path list, two halves), paths differing by a prefix / the name component / case / normalisation form, sizes '
        'swapped, zero-length and duplicated entries, empty / dot / dotdot / bytes components, length AND files, each alone and '
        'in front of a faithful candidate, several same-identity candidates in one call, unreadable/undecodable/invalid/'
        'oversized torrent files, upper-case extension; histories on ONE Torrent object (hashes from generate() / an earlier '
        'reuse() / an assignment, the object\'s own torrent written into the searched tree, content flipped in a sampled or an '
        'unsampled piece / restored / rewritten / deleted / truncated between the calls, piece size set, path re-assigned, another '
        'object on the same path; every reuse() of the history is judged against the disk of its moment); search trees with symbolic '
        'links to directories (to siblings, ancestors = real loops, descendants, through other links, relative and absolute) over '
        'directory names that are string prefixes of one another, the faithful candidate reachable only through a link; trees with '
        'two links to an ancestor in one cycle (search size >= 10^8 by the harness\'s count: real call under a time limit); '
        'non-trivial = the scenario contains a candidate that '
        'passes the name/path/size match (content is sampled); distinct = distinct (scenario, callback) tuples')


# --------------------------------------------------------------------------------------------
# own bencoder / content helpers (independent of torf)

def benc(x):
    if isinstance(x, int):
        return b'i%de' % x
    if isinstance(x, str):
        x = x.encode()
    if isinstance(x, bytes):
        return b'%d:%s' % (len(x), x)
    if isinstance(x, list):
        return b'l' + b''.join(benc(v) for v in x) + b'e'
    if isinstance(x, dict):
        items = sorted((k.encode() if isinstance(k, str) else k, v) for k, v in x.items())
        return b'd' + b''.join(benc(k) + benc(v) for k, v in items) + b'e'
    raise TypeError(x)


def fbytes(seed, key, size):
    import random
    return random.Random(f'{seed}/{key}').randbytes(size)


def stream_hashes(datas, pl):
    data = b''.join(datas)
    return [hashlib.sha1(data[i:i + pl]).hexdigest() for i in range(0, len(data), pl)]


# --------------------------------------------------------------------------------------------
# scenario → files on disk, abstract items, candidates

def cand_meta(sc, cd):
    """candidate description → (info dict, abstract candidate for the model)"""
    files = cd['files']          # list of [components, size, key] in candidate order
    pl = cd['pl']
    datas = [fbytes(sc['cseed'], f[2], f[1]) for f in files]
    hashes = stream_hashes(datas, pl)
    for p in cd.get('flip', []):
        if p < len(hashes):
            hashes[p] = hashlib.sha1(b'flip' + bytes.fromhex(hashes[p])).hexdigest()
    info = {'name': cd['name'], 'piece length': pl, 'pieces': b''.join(bytes.fromhex(h) for h in hashes)}
    if cd['single']:
        info['length'] = files[0][1]
    else:
        fl = []
        for f in files:
            # a component given as {'hex': …} is a bytes object that is not valid UTF-8
            d = {'length': f[1], 'path': [bytes.fromhex(c['hex']) if isinstance(c, dict) else c for c in f[0]]}
            if cd.get('extra_fields'):
                d['md5sum'] = 'a' * 32
                d['attr'] = 'x'
            fl.append(d)
        info['files'] = fl
    model = {'name': cd['name'], 'single': cd['single'], 'pl': pl, 'hashes': hashes,
             'bytesPath': any(isinstance(c, dict) for f in files for c in f[0]),
             'files': [{'path': [bytes.fromhex(c['hex']).decode('utf-8', 'replace') if isinstance(c, dict) else c
                                 for c in f[0]], 'size': f[1]} for f in files]}
    return info, model


def local_pieces(content_root, single, cand_model):
    """what verify_piece would find for every piece of the candidate's geometry under the local
    content path: hex digest | 'missing' | 'sizeError' (first relevant file in order decides)"""
    pl = cand_model['pl']
    files = cand_model['files']
    total = sum(f['size'] for f in files)
    n = -(-total // pl)
    state, datas = [], []
    for f in files:
        p = content_root if single else os.path.join(content_root, *f['path'])
        if not os.path.isfile(p):
            state.append('missing')
            datas.append(b'\0' * f['size'])
        elif os.path.getsize(p) != f['size']:
            state.append('sizeError')
            datas.append(b'\0' * f['size'])
        else:
            state.append(None)
            with open(p, 'rb') as fh:
                datas.append(fh.read())
    data = b''.join(datas)
    out = []
    for i in range(n):
        lo, hi = i * pl, min((i + 1) * pl, total) - 1
        pos, verdict = 0, None
        for f, st in zip(files, state):
            a, b = pos, pos + f['size'] - 1
            pos += f['size']
            if f['size'] and a <= hi and b >= lo and st and verdict is None:
                verdict = st
        out.append(verdict or hashlib.sha1(data[lo:hi + 1]).hexdigest())
    return out


def build(wd, sc):
    """create content + search tree (torrent files, extra directories, symbolic links, permissions);
    returns (content path, root, search root, plan: inode number of a written file → what it holds)"""
    root = os.path.join(wd, 's')
    if os.path.isdir(root):
        for dp, dns, _ in os.walk(root):         # directories may have been made inaccessible
            for dn in dns:
                q = os.path.join(dp, dn)
                if not os.path.islink(q):
                    os.chmod(q, 0o755)
    shutil.rmtree(root, ignore_errors=True)
    os.makedirs(root)
    cpath = os.path.join(root, 'content', sc['name'])
    if sc['single']:
        os.makedirs(os.path.dirname(cpath))
        with open(cpath, 'wb') as f:
            f.write(fbytes(sc['cseed'], sc['files'][0][2], sc['files'][0][1]))
    else:
        for comps, size, key in sc['files']:
            p = os.path.join(cpath, *comps)
            os.makedirs(os.path.dirname(p), exist_ok=True)
            with open(p, 'wb') as f:
                f.write(fbytes(sc['cseed'], key, size))
        for comps in sc.get('extra_empty', []):      # zero-length neighbours (torf does not list them)
            p = os.path.join(cpath, *comps)
            os.makedirs(os.path.dirname(p), exist_ok=True)
            open(p, 'wb').close()
    sroot = os.path.join(root, 'search')
    os.makedirs(sroot)
    plan = {}          # st_ino of a written file → ('torrent', model) | ('undecodable',) | ('invalid',)
    for d in sc.get('dirs', []):
        os.makedirs(os.path.join(sroot, *d), exist_ok=True)
    for tf in sc['tfiles']:
        p = os.path.join(sroot, *tf['at'])
        os.makedirs(os.path.dirname(p), exist_ok=True)
        k = tf['kind']
        entry = None
        if k in ('torrent', 'ignored'):
            info, model = cand_meta(sc, tf['cand'])
            with open(p, 'wb') as f:
                f.write(benc({'info': info, 'created by': 'harness'}))
            entry = ('torrent', model)
        elif k == 'undecodable':
            with open(p, 'wb') as f:
                f.write(b'this is not bencoded')
            entry = ('undecodable',)
        elif k == 'invalid':
            info, model = cand_meta(sc, tf['cand'])
            how = tf.get('how', 0)
            if how == 0:
                info.pop('pieces')
            elif how == 1:
                info.update({'piece length': 1000})
            elif 'files' in info:                       # both `length` and `files`
                info['length'] = sum(f['length'] for f in info['files'])
            else:
                info['files'] = [{'length': info['length'], 'path': [info['name']]}]
            with open(p, 'wb') as f:
                f.write(benc({'info': info}))
            entry = ('invalid',)
        elif k == 'unreadable':
            os.symlink(os.path.join(root, 'nowhere'), p)
        elif k == 'oversized':
            info, model = cand_meta(sc, tf['cand'])
            with open(p, 'wb') as f:
                f.write(benc({'info': info, 'comment': 'x'}))
                f.truncate(MAXSZ + 1)
            entry = ('undecodable',)
        elif k == 'emptydir':
            os.makedirs(p, exist_ok=True)
        if entry is not None:
            plan[os.lstat(p).st_ino] = entry
    for ln in sc.get('links', []):
        p = os.path.join(sroot, *ln['at'])
        os.makedirs(os.path.dirname(p), exist_ok=True)
        os.symlink(ln['to'].replace('{S}', sroot).replace('{R}', root), p)
    for pm in sc.get('perms', []):
        os.chmod(os.path.join(sroot, *pm['at']), pm['mode'])
    return cpath, root, sroot, plan


def scan_fs(root, euid, plan):
    """the abstract file system handed to the model: inode table (0 = '/', then the chain of real
    directories down to `root`, then everything below `root`), read with lstat / readlink / listdir on
    real directories only (nothing is resolved here); permissions as they apply to `euid`.
    Returns (nodes, contents: per content id what the file holds, cid of inode number)"""
    nodes, contents, cid_of = [], [], {}

    def flags(st):
        if euid == 0:
            return True, True
        assert (st.st_mode >> 3) & 7 == st.st_mode & 7, 'group and other bits must agree'
        return bool(st.st_mode & 4), bool(st.st_mode & 1)

    def add(p):
        st = os.lstat(p)
        i = len(nodes)
        nodes.append(None)
        if os.path.islink(p):
            nodes[i] = {'k': 'l', 't': os.readlink(p)}
        elif os.path.isdir(p):
            r, x = flags(st)
            nodes[i] = {'k': 'd', 'r': r, 'x': x, 'e': [[n, add(p + '/' + n)] for n in os.listdir(p)]}
        else:
            if st.st_ino not in cid_of:
                cid_of[st.st_ino] = len(contents)
                contents.append(plan.get(st.st_ino, ('undecodable',)))
            nodes[i] = {'k': 'f', 'size': st.st_size, 'r': flags(st)[0], 'c': cid_of[st.st_ino]}
        return i
    spine = [c for c in os.path.realpath(root).split('/') if c]
    for c in spine:
        nodes.append({'k': 'd', 'r': True, 'x': True, 'e': [[c, len(nodes) + 1]]})
    assert add(os.path.realpath(root)) == len(spine)
    return nodes, contents, cid_of


def gen_spellings(rng, root, sroot, cwd_abs, n):
    """guided random spellings: walk the real tree from the search root (absolute) or the working
    directory (relative) over listed names, `..`, `.`, empty components and names that do not exist;
    never leaves `root` (the part of the world the model is told about)"""
    out = []
    rroot = os.path.realpath(root)
    for _ in range(n):
        absolute = cwd_abs is None or rng.random() < 0.5
        base = (sroot if rng.random() < 0.85 else root) if absolute else cwd_abs
        parts = []
        for _step in range(rng.choice([0, 1, 1, 2, 2, 3, 4, 6])):
            here = os.path.join(base, *parts) if parts else base
            if not os.path.isdir(here):
                break
            names = sorted(os.listdir(here))
            dirs = [x for x in names if os.path.isdir(os.path.join(here, x))]
            r = rng.random()
            if r < 0.45 and dirs:
                parts.append(rng.choice(dirs))
            elif r < 0.6 and names:
                parts.append(rng.choice(names))
            elif r < 0.78:
                if os.path.realpath(here) != rroot:
                    parts.append('..')
            elif r < 0.86:
                parts.append('.')
            elif r < 0.94:
                parts.append('')
            else:
                parts.append(rng.choice(['nope', 'nope.torrent']))
        if rng.random() < 0.15:
            parts.append('')
        if absolute:
            text = ('{S}' if base == sroot else '{R}') + ''.join('/' + c for c in parts)
        else:
            while parts and parts[0] == '':      # a leading slash would make it absolute
                parts = parts[1:]
            text = '/'.join(parts) if parts else rng.choice(['.', './'])
        out.append(text)
    return out


@contextlib.contextmanager
def running_as(cwd, euid):
    """the working directory and effective uid of one call"""
    old = os.getcwd()
    try:
        if cwd:
            os.chdir(cwd)
        if euid:
            os.seteuid(euid)
        yield
    finally:
        if euid:
            os.seteuid(0)
        os.chdir(old)


def walk_items(paths, plan, cid_of):
    """the harness's own statement of what the search must visit, in os.listdir order, with the
    spellings as given and the operating system's resolution (run in the call's cwd / euid);
    items: (spelling | None, kind, content id | None)"""
    items = []

    def find(p):
        if os.path.isdir(p):
            try:
                names = os.listdir(p)
            except OSError:
                items.append((None, 'pathError', None))
                return
            for name in names:
                find(p + os.sep + name)
        elif os.path.basename(p).lower().endswith('.torrent'):
            try:
                st = os.stat(p)
            except OSError:
                items.append((p, 'unreadable', None))
                return
            if st.st_size <= MAXSZ:
                try:
                    open(p, 'rb').close()
                except OSError:
                    items.append((p, 'unreadable', None))
                else:
                    items.append((p, plan.get(st.st_ino, ('undecodable',))[0], cid_of.get(st.st_ino)))
        elif not os.path.exists(p):
            items.append((None, 'pathError', None))
    for p in paths:
        find(p)
    return items


def damage(cpath, sc):
    d = sc.get('damage')
    if not d:
        return
    p = cpath if sc['single'] else os.path.join(cpath, *sc['files'][d['file']][0])
    if d['how'] == 'delete':
        os.unlink(p)
    elif d['how'] == 'truncate':
        with open(p, 'r+b') as f:
            f.truncate(os.path.getsize(p) - 1)
    elif d['how'] == 'flipbyte':
        with open(p, 'r+b') as f:
            f.seek(d['at'] % os.path.getsize(p))
            b = f.read(1)
            f.seek(d['at'] % os.path.getsize(p))
            f.write(bytes([b[0] ^ 0xff]))


def exc_kind(e):
    n = type(e).__name__
    return {'ReadError': 'read', 'BdecodeError': 'bdecode', 'MetainfoError': 'metainfo',
            'VerifyFileSizeError': 'verifyFileSize'}.get(n, 'internal:' + n)


def meta_obs(t):
    info = t.metainfo['info']
    pieces = info.get('pieces')
    files = ([[list(f['path']), f['length']] for f in info['files']] if 'files' in info
             else [[[], info['length']]])
    rest = {k: repr(v) for k, v in info.items() if k not in ('pieces', 'piece length', 'files')}
    top = {k: repr(v) for k, v in t.metainfo.items() if k != 'info'}
    extra_file_keys = sorted({k for f in info.get('files', []) for k in f} - {'length', 'path'})
    return {'pl': info.get('piece length'), 'name': info.get('name'),
            'pieces': None if pieces is None else [pieces[i:i + 20].hex() for i in range(0, len(pieces), 20)],
            'files': files, 'rest': [rest, top, extra_file_keys]}


def make_arg(kind, texts):
    """the `path` argument of reuse() and the spellings torf gets to see (`str()` of each item)"""
    if kind == 'str' and len(texts) == 1:
        return texts[0], list(texts)
    if kind == 'path' and len(texts) == 1:
        return pathlib.Path(texts[0]), [str(pathlib.Path(texts[0]))]
    if kind == 'tuple':
        return tuple(texts), list(texts)
    if kind == 'gen':
        return (x for x in list(texts)), list(texts)
    if kind == 'pathlist':
        objs = [pathlib.Path(x) if i % 2 == 0 else x for i, x in enumerate(texts)]
        return objs, [str(o) for o in objs]
    return list(texts), list(texts)


_WARM = set()


def _warm(torf, wd):
    """run every code path once as root so that no module is first imported under another euid"""
    if os.getpid() in _WARM:
        return
    _WARM.add(os.getpid())
    sc = {'name': 'W', 'single': False, 'files': [[['a'], K + 5, 'f0'], [['b'], K, 'f1']], 'cseed': 1, 'tfiles': []}
    sc['tfiles'] = [_tf(['t', 'bad.torrent'], kind='undecodable'), _tf(['t', 'x.torrent'], cand=_cand(sc))]
    cpath, root, sroot, plan = build(wd, sc)
    for cb in (None, lambda *a: None):
        t = torf.Torrent(path=cpath)
        try:
            t.reuse([sroot, sroot + '/nope'], callback=cb)
            t.validate()
            t.verify(cpath, threads=1, callback=lambda *a: None)
        except torf.TorfError:
            pass


def _run_chunk(scs):
    torf = common.import_torf()
    wd = common.worker_dir()
    out = []
    for sc in scs:
        obs = {'runs': []}
        try:
            euid = sc.get('euid', 0)
            if euid:
                _warm(torf, wd)
            cpath, root, sroot, plan = build(wd, sc)
            cwd_abs = os.path.join(root, *sc['cwd']) if sc.get('cwd') is not None else None
            if 'spell' not in sc:
                if 'walk' in sc:
                    sc['spell'] = gen_spellings(random.Random(sc['walk']['seed']), root, sroot, cwd_abs, sc['walk']['n'])
                else:
                    sc['spell'] = ['{S}' + ''.join('/' + c for c in a) for a in sc['search']]
            texts = [x.replace('{S}', sroot).replace('{R}', root) for x in sc['spell']]
            for x in texts:       # the model is told about `root` only: no spelling may lead elsewhere
                rp = os.path.realpath(os.path.join(cwd_abs or root, x))
                assert x == '' or (rp + '/').startswith(os.path.realpath(root) + '/'), f'spelling {x!r} leaves the scratch root'
            argkind = sc.get('argkind') or ('str' if sc.get('scalar_arg') and len(texts) == 1 else 'list')
            _, seen_texts = make_arg(argkind, texts)

            def fresh():
                t = torf.Torrent(path=cpath, piece_size_min=sc.get('plmin'), piece_size_max=sc.get('plmax'))
                if sc.get('t_has_pieces'):
                    t.metainfo['info']['pieces'] = b'\x07' * 20 * t.pieces
                return t
            t0 = fresh()
            obs['t'] = dict(meta_obs(t0), plMin=t0.piece_size_min, plMax=t0.piece_size_max,
                            single=t0.mode == 'singlefile')
            damage(cpath, sc)
            nodes, contents, cid_of = scan_fs(root, euid, plan)
            # local outcome per candidate geometry (after the damage), computed by the harness
            mcontents = []
            for c in contents:
                if c[0] == 'torrent':
                    m = c[1]
                    loc = local_pieces(cpath, sc['single'], m) if m['name'] == sc['name'] else []
                    mcontents.append({'kind': 'torrent', 'cand': m, 'loc': loc})
                else:
                    mcontents.append({'kind': c[0]})
            with running_as(cwd_abs, euid):
                sitems = walk_items(seen_texts, plan, cid_of)
            obs.update(fs=nodes, contents=mcontents, sitems=sitems, paths=seen_texts,
                       cwd=os.path.realpath(cwd_abs) if cwd_abs else os.path.realpath(root), euid=euid)
            if sc.get('shape', '').startswith('symlink'):
                # the harness's count of the search on the abstract tree (used to tell explosive trees) is checked here
                obs['predicted'] = predicted_items(sc)
            # callback variants: none, passive, passive with a huge interval, then cancel at each call
            variants = [('none', None, 0), ('passive', (), 0), ('passive-interval', (), 1e9)]
            vi = 0
            while vi < len(variants):
                label, stops, interval = variants[vi]
                vi += 1
                if sc.get('damage'):
                    # restore → make the torrent → damage again, so the torrent describes the intact content
                    build(wd, sc)
                    t = fresh()
                    damage(cpath, sc)
                else:
                    t = fresh()
                before = meta_obs(t)
                calls = []

                def cb(tt, path, done, total, is_match, exc, _stops=stops):
                    ok = tt is t and (exc is None or isinstance(exc, torf.TorfError))
                    if path is not None:
                        path = os.fspath(path)
                    calls.append([path if ok else 'BAD-ARGS', done, total, is_match,
                                  None if exc is None else exc_kind(exc)])
                    if _stops and [path, is_match] in [list(s) for s in _stops]:
                        return (False, 0, 'stop')[done % 3]
                    return None
                arg, _ = make_arg(argkind, texts)
                with running_as(cwd_abs, euid):
                    try:
                        r = t.reuse(arg, callback=None if stops is None else cb, interval=interval)
                        res = {'ok': r} if isinstance(r, bool) else {'ok': repr(r)}
                    except BaseException as e:  # noqa
                        res = {'raised': exc_kind(e)}
                after = meta_obs(t)
                run = {'label': label, 'stops': None if stops is None else [list(s) for s in stops],
                       'elapsed': interval == 0, 'res': res, 'calls': calls, 'before': before, 'after': after}
                if res == {'ok': True}:
                    try:
                        t.validate()
                        run['validate'] = 'ok'
                    except BaseException as e:  # noqa
                        run['validate'] = exc_kind(e)
                    if label in ('none', 'passive'):
                        try:
                            run['verify'] = t.verify(cpath, threads=1, callback=lambda *a: None)
                        except BaseException as e:  # noqa
                            run['verify'] = 'raised:' + exc_kind(e)
                obs['runs'].append(run)
                if label == 'passive':
                    seen = []
                    for c in calls:
                        key = (c[0], c[3])
                        if key not in seen and len(seen) < sc.get('max_cancel', 12):
                            seen.append(key)
                            variants.append((f'cancel@{len(seen)}', (key,), 0))
        except BaseException:  # noqa
            import traceback
            obs['harness_exc'] = traceback.format_exc()[-1500:]
        out.append((sc, obs))
    return out


# --------------------------------------------------------------------------------------------
# generators

CAP = 10          # TorrentFileStream.max_open_files: a piece with more than CAP + 1 files overflows the handle cache


def _cluster(rng, prefix, n, budget, sub=None):
    """n tiny files that together stay below `budget` bytes (so that they share one piece)"""
    sizes = [rng.choice([1, 2, 7, 100, 333, rng.randint(1, max(1, budget // n))]) for _ in range(n)]
    while sum(sizes) >= budget:
        sizes[sizes.index(max(sizes))] //= 2
    sizes = [max(1, x) for x in sizes]
    return [[(sub or []) + ['%s%02d.nfo' % (prefix, i)], sizes[i], '%s%d' % (prefix, i)] for i in range(n)]


def _layout(rng, single=False, style='std'):
    if single:
        return [[[], rng.choice([5, 6, 7, 9]) * K + rng.choice([0, 1, 777, K - 1]), 'f0']]
    if style == 'std':
        n = rng.choice([3, 3, 3, 4])
        files = []
        dirs = rng.choice([[[], [], [], []], [[], ['d'], ['d'], ['e', 'f']], [['d'], ['d'], [], ['d']]])
        for i in range(n):
            size = rng.choice([5, 5, 6, 7, 8]) * K + rng.choice([1, 123, 4321, K - 1, K // 2, 0 if i else 17])
            files.append([dirs[i] + ['%s%d.bin' % ('abcd'[i], i)], size, 'f%d' % i])
        return files
    if style in ('one-file-dir', 'nested-same', 'unicode'):
        return None      # needs the torrent's name: filled in by _scenario
    # clusters: more files inside one piece than the stream keeps open (CAP + 1), next to files that
    # span many pieces; the cluster sits in the first, a middle or the last piece of the stream
    nt = rng.choice([CAP + 2, CAP + 3, CAP + 6, 2 * CAP + 5])
    big = lambda nm, key: [[nm], rng.choice([3, 5, 6]) * K + rng.choice([0, 1, 4321, K - 1]), key]  # noqa: E731
    sub = rng.choice([None, None, ['nfo']])
    if style == 'cluster-first':
        return _cluster(rng, '0', nt, K - 1, sub and ['0' + sub[0]]) + [big('zz-payload.bin', 'big0')]
    if style == 'cluster-mid':
        return [big('a-first.bin', 'big0')] + _cluster(rng, 'm', nt, K // 2, sub and ['m' + sub[0]]) + [big('z-last.bin', 'big1')]
    if style == 'cluster-last':
        return [big('a-first.bin', 'big0')] + _cluster(rng, 'z', nt, K // 2, sub and ['z' + sub[0]])
    if style == 'cluster-only':
        return _cluster(rng, 'c', nt, K - 1) if rng.random() < 0.5 else _cluster(rng, 'c', 3 * CAP, 3 * K)
    if style == 'cluster-two':
        return (_cluster(rng, '0', nt, K // 2) + [big('b-mid.bin', 'big0')] + _cluster(rng, 'n', CAP + 2, K // 2)
                + [big('q-mid.bin', 'big1')] + _cluster(rng, 'z', CAP + 4, K // 2))
    raise ValueError(style)


CLUSTER_STYLES = ['cluster-first', 'cluster-mid', 'cluster-last', 'cluster-only', 'cluster-two']


def _sorted_files(files):
    return sorted(files, key=lambda f: os.sep.join(f[0]))


def _cand(sc, **kw):
    cd = {'name': sc['name'], 'single': sc['single'], 'files': _sorted_files([list(f) for f in sc['files']]),
          'pl': K}
    cd.update(kw)
    return cd


def _tf(at, kind='torrent', cand=None, **kw):
    d = {'at': at if isinstance(at, list) else [at], 'kind': kind}
    if cand is not None:
        d['cand'] = cand
    d.update(kw)
    return d


E_ACUTE = chr(0xe9)           # NFC; its NFD spelling is 'e' + chr(0x301)
KIND_STYLES = ['one-file-dir', 'nested-same', 'unicode']


def _scenario(rng, shape, single=False, style='std'):
    files = _layout(rng, single, style)
    name = 'single.bin' if single else rng.choice(['Content', 'My Files', 'c.d'])
    sz = lambda: rng.choice([3, 5, 6]) * K + rng.choice([0, 1, 777, K - 1])  # noqa: E731
    if not single and style == 'one-file-dir':
        # a directory that holds exactly one file, named like the directory
        name = rng.choice(['data.bin', 'N'])
        files = [[[name], sz(), 'f0']]
    elif not single and style == 'nested-same':
        # N/N/N next to other files; a second directory level that repeats the name
        name = 'N'
        files = [[['N', 'N'], sz(), 'f0'], [['N', 'x.bin'], sz(), 'f1'], [['a.bin'], sz(), 'f2']]
    elif not single and style == 'unicode':
        name = 'Caf' + E_ACUTE
        files = [[[E_ACUTE + 't' + E_ACUTE, 'un.bin'], sz(), 'f0'], [['deux' + E_ACUTE + '.bin'], sz(), 'f1'],
                 [['trois.bin'], sz(), 'f2']]
    sc = {'name': name,
          'single': single, 'files': files, 'cseed': rng.randrange(1 << 30), 'tfiles': [],
          'search': [['tree']], 'shape': shape}
    if style != 'std' and not single and rng.random() < 0.6:
        # zero-length neighbours on disk, between the files of the cluster (torf leaves them out)
        first = _sorted_files(files)[len(files) // 2][0]
        sc['extra_empty'] = [first[:-1] + [first[-1] + '.empty'], ['0000.empty'], ['zzzz.empty']]
    return sc


STD_DIRS = [['tree'], ['tree', 'a'], ['tree', 'a', 'b'], ['tree', 'c'], ['other']]
# links never lead from `tree` back to `other` or upwards: the tree stays free of cycles
LINK_MENU = [
    {'at': ['ln_b'], 'to': 'tree/a/b'},                      # relative and deep: ln_b/.. is tree/a
    {'at': ['ln_a_slash'], 'to': 'tree/a/'},                 # target with a trailing slash
    {'at': ['other', 'ln_tree'], 'to': '../tree'},
    {'at': ['other', 'd.torrent'], 'to': '../tree/c'},       # a directory behind a *.torrent name
    {'at': ['tree', 'a', 'chain'], 'to': '../../ln_b'},      # link to a link
    {'at': ['tree', 'c', 'abs_b'], 'to': '{S}/tree/a/b'},    # absolute target
    {'at': ['tree', 'junk'], 'to': 'missing-target'},        # dangling, not a torrent name
    {'at': ['tree', 'c', 'dots'], 'to': './../a/./b/..'},    # dots inside the target
]
ARGKINDS = ['str', 'list', 'tuple', 'gen', 'path', 'pathlist']


def gen_search_scenarios(ctx, rng):
    """families whose subject is the search: spelling and kind of the search paths, links inside the
    searched tree, permissions, many files, depth"""
    out = []

    def base(shape, single=False):
        sc = _scenario(rng, shape, single)
        sc['files'] = [[f[0], min(f[1], 5 * K + 17), f[2]] for f in sc['files'][:3]]
        return sc
    # --- 1. a menu of spellings for one directory that holds the only faithful candidate
    for variant in range(ctx.n(2, 6)):
        proto = base('spelling')
        good, other = _cand(proto), _cand(proto, name=proto['name'] + 'x')
        tfs = [_tf(['data', 'torrents', 'good.torrent'], cand=good),
               _tf(['data', 'v2', 'other.torrent'], cand=other),
               _tf(['data', 'store', 'blob'], kind='ignored', cand=_cand(proto, pl=2 * K))]
        if variant % 2:
            tfs.append(_tf(['home', 'torrents', 'decoy.torrent'], cand=other))   # the lexical location exists
        links = [{'at': ['home', 'cur'], 'to': '../data/v2' if variant % 4 < 2 else '{S}/data/v2'},
                 {'at': ['home', 'g.torrent'], 'to': '../data/torrents/good.torrent'},
                 {'at': ['home', 'c.torrent'], 'to': '../data/store/blob'},
                 {'at': ['home', 't'], 'to': '../data/torrents'}]
        menu = [(None, [x]) for x in (
            '{S}/home/cur/../torrents', '{S}/home/cur/../torrents/good.torrent',
            '{S}/data/torrents', '{S}/data/torrents/', '{S}//data//torrents', '{S}/./data/./torrents/.',
            '{S}/data/v2/../torrents',
            '{S}/home/../data/torrents', '{S}/home/t', '{S}/home/t/', '{S}/home/t/.', '{S}/home/t/../torrents',
            '{S}/home/g.torrent', '{S}/home/c.torrent', '{S}/home/cur/../store/../torrents//',
            '{S}/home/cur/../../home/cur/../torrents', '{S}/data/torrents/good.torrent/', '{S}/home/cur/..')]
        menu += [(['search', 'home'], ['cur/../torrents']), (['search', 'home'], ['../data/torrents']),
                 (['search', 'home'], ['./t']), (['search', 'home'], ['t/good.torrent']),
                 (['search', 'home'], ['g.torrent']), (['search', 'data', 'v2'], ['../torrents']),
                 (['search', 'home', 'cur'], ['../torrents']), (['search', 'home', 'cur'], ['..']),
                 (['search', 'data', 'torrents'], ['.']), (['search', 'data', 'torrents'], ['']),
                 (['search', 'data', 'torrents'], ['good.torrent']), (['search', 'data'], ['torrents/good.torrent/']),
                 (['search'], ['home/c.torrent']), (['content'], ['../search/home/cur/../torrents']),
                 (None, ['{S}/data/v2', '{S}/home/cur/../torrents']), (None, ['{S}/home/cur/../torrents', '{S}/data/v2']),
                 (None, ['{S}/home/t', '{S}/data/torrents']), (None, ['{S}/data/torrents', '{S}/data/torrents']),
                 (None, ['{S}/nowhere', '{S}/home/cur/../torrents']), (['search', 'home'], ['nowhere', 'cur/../torrents/']),
                 (None, ['{S}/home/c.torrent', '{S}/home/g.torrent'])]
        for i, (cwd, spell) in enumerate(menu):
            sc = json.loads(json.dumps(proto))
            sc.update(tfiles=tfs, links=links, dirs=[['home'], ['data', 'v2']], spell=spell, cwd=cwd,
                      argkind=ARGKINDS[(i + variant) % len(ARGKINDS)], shape='spelling', max_cancel=3)
            sc.pop('search')
            out.append(sc)
    # --- 2. links inside the searched tree
    for variant in range(ctx.n(2, 8)):
        proto = base('links')
        good, other = _cand(proto), _cand(proto, name=proto['name'] + 'x')
        shapes = [
            ([{'at': ['tree', 'ext'], 'to': '../other'}], [_tf(['other', 'good.torrent'], cand=good)]),
            ([{'at': ['tree', 'ext'], 'to': '{S}/other'}], [_tf(['other', 'sub', 'good.torrent'], cand=good)]),
            ([{'at': ['tree', 'x.torrent'], 'to': '../other'}], [_tf(['other', 'good.torrent'], cand=good)]),
            ([{'at': ['tree', 'l.torrent'], 'to': '../other/blob'}], [_tf(['other', 'blob'], kind='ignored', cand=good)]),
            ([{'at': ['tree', 'l.txt'], 'to': '../other/good.torrent'}], [_tf(['other', 'good.torrent'], cand=good)]),
            ([{'at': ['tree', 'c1'], 'to': 'c2'}, {'at': ['tree', 'c2'], 'to': '../other/.'}],
             [_tf(['other', 'good.torrent'], cand=good)]),
            ([{'at': ['tree', 'dangling.torrent'], 'to': 'gone'}, {'at': ['tree', 'junk'], 'to': 'gone'}],
             [_tf(['tree', 'good.torrent'], cand=good)]),
            ([{'at': ['tree', 'loop'], 'to': '.'}], [_tf(['tree', 'good.torrent'], cand=good)]),
            ([{'at': ['tree', 'loop'], 'to': '../tree'}], [_tf(['tree', 'no.torrent'], cand=other)]),
            ([{'at': ['tree', 'l1'], 'to': 'l2'}, {'at': ['tree', 'l2'], 'to': 'l1'}],
             [_tf(['tree', 'good.torrent'], cand=good)]),
        ]
        for i, (links, tfs) in enumerate(shapes):
            sc = json.loads(json.dumps(proto))
            sc.update(tfiles=tfs + [_tf(['tree', 'first.torrent'], cand=other)], links=links, dirs=[['tree'], ['other']],
                      spell=[['{S}/tree'], ['{S}/tree/'], ['tree']][(i + variant) % 3], cwd=['search'],
                      argkind=ARGKINDS[(i + 2 * variant) % len(ARGKINDS)], shape='links', max_cancel=2)
            sc.pop('search')
            out.append(sc)
    # --- 3. permissions (the call runs with another effective uid): directories that cannot be listed
    #        or searched, a torrent file that cannot be opened
    for variant in range(ctx.n(1, 4)):
        proto = base('perms')
        good, other = _cand(proto), _cand(proto, name=proto['name'] + 'x')
        shapes = [
            ([_tf(['tree', 'locked', 'good.torrent'], cand=good), _tf(['tree', 'z.torrent'], cand=other)],
             [{'at': ['tree', 'locked'], 'mode': 0o000}], ['{S}/tree']),
            ([_tf(['tree', 'locked', 'x.torrent'], cand=other), _tf(['tree', 'z', 'good.torrent'], cand=good)],
             [{'at': ['tree', 'locked'], 'mode': 0o000}], ['{S}/tree']),
            ([_tf(['tree', 'ronly', 'x.torrent'], cand=good), _tf(['tree', 'ronly', 'sub', 'y.torrent'], cand=good),
              _tf(['tree', 'ronly', 'note.txt'], kind='ignored', cand=other), _tf(['tree', 'z', 'good.torrent'], cand=good)],
             [{'at': ['tree', 'ronly'], 'mode': 0o444}], ['{S}/tree']),
            ([_tf(['tree', 'xonly', 'good.torrent'], cand=good)], [{'at': ['tree', 'xonly'], 'mode': 0o111}], ['{S}/tree']),
            ([_tf(['tree', 'xonly', 'good.torrent'], cand=good)], [{'at': ['tree', 'xonly'], 'mode': 0o111}],
             ['{S}/tree/xonly/good.torrent']),
            ([_tf(['tree', 'xonly', 'sub', 'good.torrent'], cand=good)], [{'at': ['tree', 'xonly'], 'mode': 0o111}],
             ['{S}/tree/xonly/sub/../sub']),
            ([_tf(['tree', 'secret.torrent'], cand=good), _tf(['tree', 'z', 'good.torrent'], cand=_cand(proto, pl=2 * K))],
             [{'at': ['tree', 'secret.torrent'], 'mode': 0o000}], ['{S}/tree']),
            ([_tf(['tree', 'locked', 'a', 'good.torrent'], cand=good)], [{'at': ['tree', 'locked'], 'mode': 0o000}],
             ['{S}/tree/locked/a', '{S}/tree/locked/../locked', '{S}/tree/locked/']),
        ]
        for i, (tfs, perms, spell) in enumerate(shapes):
            sc = json.loads(json.dumps(proto))
            sc.update(tfiles=tfs, perms=perms, spell=spell, cwd=['search'], euid=NOBODY if variant % 2 == 0 else 0,
                      argkind=ARGKINDS[(i + variant) % 4], shape='perms', max_cancel=2)
            sc.pop('search')
            out.append(sc)
    # --- 4. very many files in one directory, the faithful one somewhere among them; deep nesting
    for variant in range(ctx.n(1, 3)):
        proto = base('many')
        good, other = _cand(proto), _cand(proto, name=proto['name'] + 'x')
        n = ctx.n(60, 400)
        at = rng.randrange(n)
        tfs = [_tf(['tree', 'n%03d.torrent' % i], cand=good if i == at else other) for i in range(n)]
        tfs += [_tf(['tree', 'readme-%d.txt' % i], kind='ignored', cand=other) for i in range(10)]
        sc = json.loads(json.dumps(proto))
        sc.update(tfiles=tfs, spell=['{S}/tree'], argkind='str', shape='many', max_cancel=2)
        sc.pop('search')
        out.append(sc)
        depth = ctx.n(12, 60)
        sc = json.loads(json.dumps(proto))
        chain = ['d%d' % i for i in range(depth)]
        sc.update(tfiles=[_tf(['tree'] + chain + ['good.torrent'], cand=good), _tf(['tree', 'd0', 'x.torrent'], cand=other)],
                  # the link makes the tail of the chain reachable twice; no cycle (it points downwards)
                  links=[{'at': ['tree', 'side'], 'to': 'd0/d1/d2'}] if variant % 2 else [],
                  spell=['{S}/tree', 'tree/d0/../d0/d1'][:1 + variant % 2], cwd=['search'], argkind='tuple', shape='deep',
                  max_cancel=2)
        sc.pop('search')
        out.append(sc)
    return out


def gen_scenarios(ctx, scale=1.0):
    rng = ctx.rng
    out = []

    def npieces(sc, pl=K):
        return -(-sum(f[1] for f in sc['files']) // pl)
    # 1. one differing piece at every piece position (pins the sampled set exactly); both for the
    #    torrent's own order and for a permuted candidate order, and for a second piece length;
    #    on the standard layouts and on the layouts with clusters of tiny files
    for single, style in [(False, 'std'), (True, 'std')] + [(False, s) for s in CLUSTER_STYLES + KIND_STYLES]:
        for rep in range(ctx.n(3, 12) if style == 'std' else ctx.n(1, 4)):
            base = _scenario(rng, 'flip-every-piece' if style == 'std' else 'flip-kinds' if style in KIND_STYLES
                             else 'flip-cluster', single, style)
            variants = [dict()]
            if not single:
                perm = [list(f) for f in base['files']]
                rng.shuffle(perm)
                variants.append({'files': perm})
            variants.append({'pl': 2 * K})
            for v in variants:
                pl = v.get('pl', K)
                for p in range(npieces(base, pl)):
                    sc = json.loads(json.dumps(base))
                    sc['tfiles'] = [_tf(['tree', 'c.torrent'], cand=_cand(sc, flip=[p], **v))]
                    if rng.random() < 0.3:
                        sc['tfiles'].append(_tf(['tree', 'z', 'good.torrent'], cand=_cand(sc)))
                    out.append(sc)
    # 2. candidate kinds, alone and in company
    def kinds(sc):
        fs = _sorted_files([list(f) for f in sc['files']])
        ks = {
            'faithful': _cand(sc),
            'renamed': _cand(sc, name=sc['name'] + 'x'),
            'pl-32k': _cand(sc, pl=2 * K),
            'pl-64k': _cand(sc, pl=4 * K),
            'size+1': _cand(sc, files=[[f[0], f[1] + (1 if i == len(fs) - 1 else 0), f[2]] for i, f in enumerate(fs)]),
            'size-1': _cand(sc, files=[[f[0], f[1] + (-1 if i == 0 and f[1] > 1 else 1 if i == 0 else 0), f[2]]
                                       for i, f in enumerate(fs)]),
            'flip-first': _cand(sc, flip=[0]),
            'flip-last': _cand(sc, flip=[npieces(sc) - 1]),
        }
        if not sc['single']:
            if len(fs) > 1:          # (an empty file list is an invalid torrent, not a candidate)
                ks['file-missing'] = _cand(sc, files=fs[:-1])
            ks['file-extra'] = _cand(sc, files=fs + [[['zz.extra'], 3 * K + 5, 'fx']])
            ks['file-renamed'] = _cand(sc, files=[[f[0][:-1] + ['q' + f[0][-1]] if i == 1 else f[0], f[1], f[2]]
                                                  for i, f in enumerate(fs)])
            ks['permuted'] = _cand(sc, files=list(reversed(fs)))
            ks['rotated-32k'] = _cand(sc, files=fs[1:] + fs[:1], pl=2 * K)
            ks['extra-fields'] = _cand(sc, extra_fields=True)
            nested = [i for i, f in enumerate(fs) if len(f[0]) > 1]
            if nested:
                i = nested[0]
                ks['sep-in-component'] = _cand(sc, files=[[[os.sep.join(f[0])] if j == i else f[0], f[1], f[2]]
                                                          for j, f in enumerate(fs)])
            ks['as-single'] = _cand(sc, single=True, files=[[[], sum(f[1] for f in fs), 'f0']])
            if sc.get('extra_empty'):
                # a candidate that lists the zero-length files too: another file set
                ks['with-empties'] = _cand(sc, files=_sorted_files(fs + [[e, 0, 'e'] for e in sc['extra_empty']]))
            # --- the same paths in another spelling / another list of entries (all unfaithful: to be skipped)
            first, last = fs[0], fs[-1]
            but = lambda i, f: [f if j == i else g for j, g in enumerate(fs)]  # noqa: E731
            ks['prefix-added'] = _cand(sc, files=[[[sc['name']] + f[0], f[1], f[2]] for f in fs])
            ks['name-component'] = _cand(sc, files=but(0, [[sc['name']] + first[0], first[1], first[2]]))
            if all(len(f[0]) > 1 for f in fs):
                ks['prefix-dropped'] = _cand(sc, files=[[f[0][1:], f[1], f[2]] for f in fs])
            ks['case'] = _cand(sc, files=but(len(fs) - 1, [last[0][:-1] + [last[0][-1].swapcase()], last[1], last[2]]))
            ks['name-case'] = _cand(sc, name=sc['name'].swapcase())
            import unicodedata
            nfd = lambda x: unicodedata.normalize('NFD', x)  # noqa: E731
            if any(nfd(c) != c for f in fs for c in f[0]):
                ks['nfd-paths'] = _cand(sc, files=[[[nfd(c) for c in f[0]], f[1], f[2]] for f in fs])
            if nfd(sc['name']) != sc['name']:
                ks['nfd-name'] = _cand(sc, name=nfd(sc['name']))
            if len(fs) > 1 and fs[0][1] != fs[1][1]:
                ks['sizes-swapped'] = _cand(sc, files=[[fs[0][0], fs[1][1], fs[0][2]], [fs[1][0], fs[0][1], fs[1][2]]] + fs[2:])
            ks['zero-entry-first'] = _cand(sc, files=[[['0000.zero'], 0, 'z']] + fs)
            ks['zero-entry-last'] = _cand(sc, files=fs + [[['zzzz.zero'], 0, 'z']])
            ks['zero-entry-mid'] = _cand(sc, files=fs[:1] + [[first[0][:-1] + [first[0][-1] + '.zero'], 0, 'z']] + fs[1:])
            ks['dup-entry'] = _cand(sc, files=fs + [list(last)])
            ks['empty-component'] = _cand(sc, files=but(0, [first[0][:-1] + ['', first[0][-1]], first[1], first[2]]))
            ks['dot-component'] = _cand(sc, files=but(0, [first[0][:-1] + ['.', first[0][-1]], first[1], first[2]]))
            ks['dotdot-component'] = _cand(sc, files=but(0, [['q', '..'] + first[0], first[1], first[2]]))
            # a component that is not valid UTF-8 stays a bytes object when the torrent file is read
            bcomp = {'hex': (b'\xff\xfe' + last[0][-1].encode()).hex()}
            ks['bytes-component'] = _cand(sc, files=but(len(fs) - 1, [last[0][:-1] + [bcomp], last[1], last[2]]))
            ks['bytes-component-other-name'] = _cand(sc, name=sc['name'] + 'x',
                                                     files=but(len(fs) - 1, [last[0][:-1] + [bcomp], last[1], last[2]]))
        else:
            # --- the other KIND with the same name, the same size and the same bytes
            f0 = fs[0]
            ks['as-one-file-dir'] = _cand(sc, single=False, files=[[[sc['name']], f0[1], f0[2]]])
            ks['as-dir-other-file'] = _cand(sc, single=False, files=[[['file.bin'], f0[1], f0[2]]])
            ks['as-dir-empty-path'] = _cand(sc, single=False, files=[[[], f0[1], f0[2]]])
            ks['as-dir-two-halves'] = _cand(sc, single=False, files=[[['a'], f0[1] // 2, 'h0'], [['b'], f0[1] - f0[1] // 2, 'h1']])
            ks['name-case'] = _cand(sc, name=sc['name'].swapcase())
        return ks
    for single, style in [(False, 'std'), (True, 'std')] + [(False, s) for s in CLUSTER_STYLES + KIND_STYLES]:
        for rep in range(ctx.n(6, 40) if style == 'std' else ctx.n(1, 6)):
            base = _scenario(rng, 'kinds', single, style)
            for kname, cd in kinds(base).items():
                sc = json.loads(json.dumps(base))
                sc['shape'] = ('kind:' if style == 'std' else 'kind-layout:' if style in KIND_STYLES else 'kind-cluster:') + kname
                sc['tfiles'] = [_tf(['tree', 'k.torrent'], cand=cd)]
                if kname == 'pl-64k' or rng.random() < 0.25:
                    sc['plmax'] = rng.choice([2 * K, 4 * K])
                if kname == 'faithful' and rep % 2:
                    sc['plmin'] = 2 * K
                sc['t_has_pieces'] = rng.random() < 0.3
                sc['scalar_arg'] = rng.random() < 0.5
                if style != 'std' and kname in ('faithful', 'permuted', 'flip-last') and rng.random() < 0.5:
                    nf = len(sc['files'])
                    sc['damage'] = {'file': rng.randrange(nf), 'how': rng.choice(['delete', 'truncate', 'flipbyte']),
                                    'at': rng.randrange(5 * K)}
                out.append(sc)
    # 2b. every kind of odd candidate *in front of* a faithful one (explicit order: two file paths): the odd one is
    #     a readable, valid torrent file, so it must be skipped without an error and the faithful one found —
    #     candidates of the other kind (file N <-> directory N holding N), other spellings of the same paths,
    #     other lists of entries, components that are empty / `.` / `..` / bytes, both `length` and `files`
    for single, style in [(False, 'std'), (True, 'std'), (False, 'cluster-first')] + [(False, s) for s in KIND_STYLES]:
        for rep in range(ctx.n(1, 5) if style in ('std', 'one-file-dir') else ctx.n(1, 3)):
            base = _scenario(rng, 'odd-first', single, style)
            ks = kinds(base)
            good = ks['faithful']
            for kname, cd in list(ks.items()) + [('length-and-files', None)]:
                if kname == 'faithful':
                    continue
                sc = json.loads(json.dumps(base))
                sc['shape'] = 'odd-first:' + kname
                odd = (_tf(['tree', '1-odd.torrent'], kind='invalid', cand=good, how=2) if cd is None
                       else _tf(['tree', '1-odd.torrent'], cand=cd))
                sc['tfiles'] = [odd, _tf(['tree', '2-good.torrent'], cand=good)]
                sc['spell'] = ['{S}/tree/1-odd.torrent', '{S}/tree/2-good.torrent']
                sc['argkind'] = ['list', 'tuple', 'gen', 'pathlist'][(rep + len(kname)) % 4]
                sc['max_cancel'] = 2
                if kname == 'pl-64k':
                    sc['plmax'] = 2 * K
                sc.pop('search')
                out.append(sc)
    # 2c. several candidates with the torrent's identity in ONE call (whatever state the call keeps between
    #     candidates is exposed): file orders x piece lengths x content (faithful | differing in the first / last
    #     piece | made from the same bytes attached to other, equally sized paths), in explicit order; the last one
    #     is faithful (must be found) or made from other content (nothing may be accepted)
    for equal in (False, True):
        for rep in range(ctx.n(6, 40)):
            base = _scenario(rng, 'several', False, 'std')
            if equal:
                base['files'] = [[f[0], base['files'][0][1], f[2]] for f in base['files']]
            fs = _sorted_files([list(f) for f in base['files']])
            orders = [fs, list(reversed(fs)), fs[1:] + fs[:1]]

            def swapped(order):
                """the same entries, but the bytes of two equally sized files attached to each other's paths"""
                i, j = 0, len(order) - 1
                o = [list(f) for f in order]
                o[i][2], o[j][2] = o[j][2], o[i][2]
                return o

            def pick(final):
                order = rng.choice(orders)
                pl = rng.choice([K, K, K, 2 * K])
                what = rng.choice((['faithful', 'swapped'] if final else ['flip-last', 'flip-last', 'flip-first', 'swapped'])
                                  if equal else (['faithful'] * 3 + ['flip-last'] if final else ['flip-last', 'flip-last', 'flip-first']))
                kw = {'files': swapped(order) if what == 'swapped' else order, 'pl': pl}
                if what == 'flip-last':
                    kw['flip'] = [-(-sum(f[1] for f in fs) // pl) - 1]
                elif what == 'flip-first':
                    kw['flip'] = [0]
                return _cand(base, **kw)
            n = rng.randint(2, 4)
            sc = json.loads(json.dumps(base))
            sc['tfiles'] = [_tf(['tree', 'c%d.torrent' % i], cand=pick(i == n - 1)) for i in range(n)]
            sc['spell'] = ['{S}/tree/c%d.torrent' % i for i in range(n)]
            sc['argkind'] = ['list', 'tuple', 'gen'][rep % 3]
            sc['max_cancel'] = 2
            sc.pop('search')
            out.append(sc)
    # 3. the search: spellings, links, permissions, many files, depth
    out += gen_search_scenarios(ctx, rng)
    # 4. search trees: mixtures of items in nested directories, several paths, odd entries, links,
    #    guided random spellings from a working directory
    for rep in range(int(ctx.n(400, 6000) * scale)):
        single = rng.random() < 0.25
        sc = _scenario(rng, 'tree', single, 'std' if rng.random() < 0.9 else rng.choice(CLUSTER_STYLES))
        ks = kinds(sc)
        names = list(ks)
        tfs = []
        nitems = rng.randint(1, 7)
        dirs = STD_DIRS
        for i in range(nitems):
            d = rng.choice(dirs)
            r = rng.random()
            ext = rng.choice(['.torrent', '.torrent', '.TORRENT', '.Torrent'])
            if r < 0.55:
                kn = rng.choice(names + ['faithful'] * 3)
                tfs.append(_tf(d + [f'{i}-{kn}{ext}'], cand=ks[kn]))
            elif r < 0.65:
                tfs.append(_tf(d + [f'{i}-bad{ext}'], kind='undecodable'))
            elif r < 0.75:
                tfs.append(_tf(d + [f'{i}-inv{ext}'], kind='invalid', cand=ks['faithful'], how=rng.randint(0, 1)))
            elif r < 0.83:
                tfs.append(_tf(d + [f'{i}-dangling{ext}'], kind='unreadable'))
            elif r < 0.89:
                tfs.append(_tf(d + [f'{i}-big{ext}'], kind='oversized', cand=ks['faithful']))
            elif r < 0.95:
                tfs.append(_tf(d + [f'{i}-faithful.torrent.txt'], kind='ignored', cand=ks['faithful']))
            else:
                tfs.append(_tf(d + [f'{i}-dir.torrent'], kind='emptydir'))
        sc['tfiles'] = tfs
        if rng.random() < 0.45:
            # symbolic links (no cycles) and spellings found by walking the real tree
            sc['dirs'] = STD_DIRS
            sc['links'] = rng.sample(LINK_MENU, rng.randint(1, 4))
            files_there = [tf['at'] for tf in tfs if tf['kind'] not in ('emptydir',)]
            if files_there and rng.random() < 0.6:
                tgt = rng.choice(files_there)
                sc['links'] = sc['links'] + [{'at': ['other', rng.choice(['to-file.torrent', 'to-file.txt', 'TO.TORRENT'])],
                                              'to': '../' + '/'.join(tgt)}]
            sc['cwd'] = rng.choice([None, ['search'], ['search', 'tree'], ['search', 'tree', 'a'], ['search', 'ln_b'],
                                    ['content']])
            if sc['cwd'] == ['search', 'ln_b'] and not any(ln['at'] == ['ln_b'] for ln in sc['links']):
                sc['cwd'] = ['search', 'other']
            sc['walk'] = {'seed': rng.randrange(1 << 30), 'n': rng.choice([1, 1, 2, 3])}
            sc['argkind'] = rng.choice(ARGKINDS)
            sc['shape'] = 'tree-walk'
            sc.pop('search')
        else:
            shape = rng.choice(['dir', 'dir', 'two', 'files', 'with-missing', 'with-missing-torrent'])
            if shape == 'dir':
                sc['search'] = [['tree']]
                sc['scalar_arg'] = rng.random() < 0.5
            elif shape == 'two':
                sc['search'] = [['other'], ['tree']]
            elif shape == 'files':
                sc['search'] = [tf['at'] for tf in tfs if tf['kind'] != 'emptydir'][:4] or [['tree']]
            elif shape == 'with-missing':
                sc['search'] = [['nonexistent', 'dir'], ['tree'], ['other']]
            else:
                sc['search'] = [['tree', 'a'], ['nowhere', 'x.torrent'], ['tree']]
        if rng.random() < 0.2:
            sc['plmax'] = rng.choice([K, 2 * K])
        if rng.random() < 0.12:
            sc['damage'] = {'file': rng.randrange(len(sc['files'])),
                            'how': rng.choice(['delete', 'truncate', 'flipbyte']),
                            'at': rng.randrange(5 * K)}
        sc['t_has_pieces'] = rng.random() < 0.2
        out.append(sc)
    # 5. round 6: histories on one object; search trees with symbolic links to directories
    out += gen_history_scenarios(ctx, rng)
    out += gen_symtree_scenarios(ctx, rng)
    return out


# --------------------------------------------------------------------------------------------
# round 6 generators: histories on one object; search trees with symbolic links to directories

def _small_base(rng, shape, single=False):
    sc = _scenario(rng, shape, single)
    if not single:
        sc['files'] = [[f[0], min(f[1], 5 * K + 17), f[2]] for f in sc['files'][:3]]
    sc.pop('search')
    return sc


def gen_history_scenarios(ctx, rng):
    """operations on ONE Torrent object around reuse(): where its hashes come from (generate, an earlier reuse, an
    assignment), its own torrent stored in the searched tree, the content on disk changed at the same size (in a
    sampled / an unsampled piece), restored, rewritten, deleted, truncated; another object on the same path"""
    out = []

    def flip(sfiles, p):
        total = sum(f[1] for f in sfiles)
        return {'op': 'disk', 'how': 'flip', 'at': p * K + rng.randrange(min(K, total - p * K))}

    def proto(single, style='std'):
        sc = _scenario(rng, 'history', single, style)
        sc.pop('search')
        sfiles = _sorted_files([list(f) for f in sc['files']])
        n = -(-sum(f[1] for f in sfiles) // K)
        samp = py_samples(sfiles, K)
        unsamp = [i for i in range(n) if i not in samp]
        extra = rng.choice([[], [], [_tf(['tree', 'a', 'other.torrent'], cand=_cand(sc, name=sc['name'] + 'x'))],
                            [_tf(['tree', '0-rev.torrent'], cand=_cand(sc, files=list(reversed(sfiles)), flip=[0]))]
                            if not single else []])
        sc.update(tfiles=[_tf(['tree', 'self.torrent'], cand=_cand(sc))] + extra, spell=['{S}/tree'], argkind='list',
                  dirs=[['tree']])
        return sc, sfiles, samp, unsamp
    R = lambda cb='none': {'op': 'reuse', 'cb': cb}  # noqa: E731
    G, ST = {'op': 'generate'}, {'op': 'store', 'at': ['tree', 'own.torrent']}
    RESTORE = {'op': 'disk', 'how': 'restore'}
    for rep in range(ctx.n(2, 10)):
        for single, style in [(False, 'std'), (True, 'std'), (False, rng.choice(CLUSTER_STYLES))]:
            sc0, sf, samp, unsamp = proto(single, style)
            S = lambda: flip(sf, rng.choice(samp))  # noqa: E731
            U = lambda: flip(sf, rng.choice(unsamp)) if unsamp else RESTORE  # noqa: E731
            cb = rng.choice(['none', 'passive', 'passive-interval'])
            templates = [
                [G, ST, S(), R(cb)],
                [G, S(), R(cb)],
                [R(), S(), R(cb)],
                [G, ST, U(), R(cb)],
                [G, S(), RESTORE, R(cb)],
                [R(cb), {'op': 'newobj'}, S(), R(cb)],
                [{'op': 'setpieces', 'what': 0}, S(), R(cb)],
                [S(), R(), RESTORE, R(cb), S(), R(cb)],
                [G, ST, {'op': 'set_pl', 'pl': 2 * K}, S(), R(cb), {'op': 'set_pl', 'pl': K}, R(cb)],
                [G, ST, {'op': 'disk', 'how': 'delete', 'file': rep}, R(cb), RESTORE, R(cb)],
                [G, ST, {'op': 'disk', 'how': 'truncate', 'file': rep}, R(cb), RESTORE, R(cb)],
                [R(cb), {'op': 'disk', 'how': 'rewrite-same', 'file': rep}, R(cb), S(), R(cb)],
                [G, ST, {'op': 'repath'}, S(), R(cb)],
                [{'op': 'setpieces', 'what': 'junk'}, R(cb), S(), R(cb), {'op': 'setpieces', 'what': 'none'}, R(cb)],
                [G, ST, S(), R('none'), R('passive'), RESTORE, R('passive-interval')],
            ]
            for h in templates:
                sc = json.loads(json.dumps(sc0))
                sc['history'] = json.loads(json.dumps(h))
                out.append(sc)
    # random histories
    for rep in range(ctx.n(40, 500)):
        sc, sf, samp, unsamp = proto(rng.random() < 0.25, 'std' if rng.random() < 0.85 else rng.choice(CLUSTER_STYLES))
        h = []
        for _ in range(rng.randint(3, 9)):
            r = rng.random()
            cb = rng.choice(['none', 'none', 'passive', 'passive-interval'])
            if r < 0.30:
                h.append({'op': 'reuse', 'cb': cb})
            elif r < 0.42:
                h.append(flip(sf, rng.choice(samp)))
            elif r < 0.48 and unsamp:
                h.append(flip(sf, rng.choice(unsamp)))
            elif r < 0.58:
                h.append(RESTORE)
            elif r < 0.68:
                h.append(G)
                if rng.random() < 0.6:
                    h.append(ST)
            elif r < 0.74:
                h.append({'op': 'newobj'})
            elif r < 0.78:
                h.append({'op': 'repath'})
            elif r < 0.85:
                h.append({'op': 'setpieces', 'what': rng.choice(['junk', 'none', 0, 0])})
            elif r < 0.90:
                h.append({'op': 'set_pl', 'pl': rng.choice([K, 2 * K])})
            elif r < 0.94:
                h.append({'op': 'disk', 'how': 'rewrite-same', 'file': rng.randrange(8)})
            else:
                # a change of size is looked at by one call and undone (another object / generate() would see other files)
                h += [{'op': 'disk', 'how': rng.choice(['delete', 'truncate']), 'file': rng.randrange(8)},
                      {'op': 'reuse', 'cb': cb}, RESTORE]
        h.append({'op': 'reuse', 'cb': rng.choice(['none', 'passive'])})
        sc['history'] = json.loads(json.dumps(h))
        out.append(sc)
    return out


# names that are string prefixes of one another (a test on the text of real paths confuses them), and one pair that is not
PREFIX_PAIRS = [('torrents-new', 'torrents'), ('torrents', 'torrents-new'), ('ab', 'a'), ('a', 'ab'), ('data.old', 'data'),
                ('x-1', 'x'), ('incoming', 'torrents')]
NAME_POOL = ['t', 'to', 'tor', 'torrents', 'torrents-new', 'torrents.old', 'a', 'ab', 'abc', 'new', 'new2', 'old', 'x', 'x-1',
             'data', 'data.old']


def gen_symtree_scenarios(ctx, rng):
    """search trees with symbolic links to directories: to siblings, to ancestors (real loops), to descendants, through
    other links, absolute and relative, where the names of the directories are string prefixes of one another; the only
    faithful candidate is reachable through a link (directed families) or anywhere (random trees)"""
    out = []
    # --- 1. directed: the candidate lies in a sibling B of the search directory A and is reachable only through a link
    for variant in range(ctx.n(1, 4)):
        for A, B in PREFIX_PAIRS:
            proto = _small_base(rng, 'symlink-sibling')
            good, other = _cand(proto), _cand(proto, name=proto['name'] + 'x')
            sub = rng.choice(['2024', 'a', B])
            forms = [
                ([{'at': [A, 'old'], 'to': '../' + B}], [_tf([B, sub, 'good.torrent'], cand=good)], ['{S}/' + A], None),
                ([{'at': [A, 'old'], 'to': '{S}/' + B}], [_tf([B, 'good.torrent'], cand=good)], ['{S}/' + A + '/'], None),
                ([{'at': [A, 'sub', 'old'], 'to': '../../' + B}], [_tf([B, sub, 'good.torrent'], cand=good)], [A], ['search']),
                ([{'at': [A, 'old'], 'to': 'old2'}, {'at': [A, 'old2'], 'to': '../' + B + '/'}],
                 [_tf([B, sub, 'good.torrent'], cand=good)], ['{S}/' + A], None),
                ([{'at': ['p', 'q', A, 'old'], 'to': '../' + B}], [_tf(['p', 'q', B, sub, 'good.torrent'], cand=good)],
                 ['q/' + A], ['search', 'p']),
                ([{'at': ['ln'], 'to': A}, {'at': [A, 'old'], 'to': '../' + B}], [_tf([B, sub, 'good.torrent'], cand=good)],
                 ['{S}/ln'], None),
                ([{'at': [A, 'deep', 'er', 'old'], 'to': '{S}/' + B + '/' + sub}], [_tf([B, sub, 'good.torrent'], cand=good)],
                 ['{S}/' + A, '{S}/nowhere'], None),
            ]
            for i, (links, tfs, spell, cwd) in enumerate(forms):
                sc = json.loads(json.dumps(proto))
                top = links[-1]['at'][:-1]
                sc.update(tfiles=tfs + [_tf(top + ['other.torrent'], cand=other)], links=links, spell=spell, cwd=cwd,
                          dirs=[top], argkind=ARGKINDS[(i + variant) % 4], shape='symlink-sibling', max_cancel=2)
                out.append(sc)
    # --- 2. directed: links to ancestors (real loops: the OS's limit of 40 links ends them), the ancestor above the
    #        search path with other children; links to descendants; links reached through links
    for variant in range(ctx.n(1, 4)):
        proto = _small_base(rng, 'symlink-loop')
        good, other = _cand(proto), _cand(proto, name=proto['name'] + 'x')
        n1, n2 = rng.choice([('tree', 'tree-2'), ('a', 'ab'), ('tor', 'torrents')])
        shapes = [
            ([{'at': [n1, 'a', 'up'], 'to': '..'}], [_tf([n1, 'c', 'good.torrent'], cand=good)], ['{S}/' + n1 + '/a']),
            ([{'at': [n1, 'a', 'b', 'up'], 'to': '../..'}], [_tf([n1, 'good.torrent'], cand=good)], ['{S}/' + n1]),
            ([{'at': [n1, 'a', 'up'], 'to': '{S}/' + n1}], [_tf([n1, 'zz', 'good.torrent'], cand=good)], ['{S}/' + n1 + '/a/']),
            ([{'at': [n1, 'a', 'up'], 'to': '../../' + n2}, {'at': [n2, 'back'], 'to': '../' + n1 + '/a'}],
             [_tf([n2, 'good.torrent'], cand=good)], ['{S}/' + n1]),
            ([{'at': [n1, 'down'], 'to': 'a/b'}], [_tf([n1, 'a', 'b', 'good.torrent'], cand=good)], ['{S}/' + n1]),
            ([{'at': [n1, 'l1'], 'to': 'l2'}, {'at': [n1, 'l2'], 'to': 'l3/'}, {'at': [n1, 'l3'], 'to': '../' + n2}],
             [_tf([n2, 'k', 'good.torrent'], cand=good)], ['{S}/' + n1]),
            ([{'at': [n1, 'self'], 'to': '.'}], [_tf([n1, 'good.torrent'], cand=good)], ['{S}/' + n1]),
            ([{'at': [n1, 'self'], 'to': '../' + n1}], [_tf([n1, 'sub', 'good.torrent'], cand=good)], ['{S}/' + n1 + '/sub/..']),
        ]
        for i, (links, tfs, spell) in enumerate(shapes):
            sc = json.loads(json.dumps(proto))
            sc.update(tfiles=tfs + [_tf([n1, '0-other.torrent'], cand=other)], links=links, spell=spell, cwd=None,
                      dirs=[[n1, 'a', 'b'], [n2]], argkind=ARGKINDS[(i + variant) % 4], shape='symlink-loop', max_cancel=2)
            out.append(sc)
    # --- 3. random trees over the prefix name pool
    made, tries, explosive = 0, 0, []
    want = ctx.n(50, 600)
    while made < want and tries < want * 6:
        tries += 1
        proto = _small_base(rng, 'symlink-tree')
        good, other = _cand(proto), _cand(proto, name=proto['name'] + 'x')
        dirs = [[]]
        used = {(): set()}
        for _ in range(rng.randint(3, 7)):
            par = rng.choice([d for d in dirs if len(d) < 3])
            nm = rng.choice([n for n in NAME_POOL if n not in used[tuple(par)]])
            used[tuple(par)].add(nm)
            dirs.append(par + [nm])
            used[tuple(par + [nm])] = set()
        real = [d for d in dirs if d]
        tfs = [_tf(rng.choice(real) + ['good.torrent'], cand=good)]
        used[tuple(tfs[0]['at'][:-1])].add('good.torrent')
        for j in range(rng.randint(0, 2)):
            d = rng.choice(real)
            nm = f'{j}-other' + rng.choice(['.torrent', '.TORRENT'])
            tfs.append(_tf(d + [nm], cand=other))
            used[tuple(d)].add(nm)
        links = []
        for _ in range(rng.randint(1, 4)):
            at_dir = rng.choice(real)
            free = [n for n in NAME_POOL + ['ln', 'up', 'cur'] if n not in used[tuple(at_dir)]]
            nm = rng.choice(free)
            used[tuple(at_dir)].add(nm)
            r = rng.random()
            if r < 0.15 and links:
                prev = rng.choice(links)['at']         # through another link
                to = os.path.relpath('/' + '/'.join(prev), '/' + '/'.join(at_dir)) if rng.random() < 0.5 \
                    else '{S}/' + '/'.join(prev)
            else:
                tgt = rng.choice(dirs)
                to = (os.path.relpath('/' + '/'.join(tgt), '/' + '/'.join(at_dir)) if r < 0.7
                      else '{S}' + ''.join('/' + c for c in tgt))
            if rng.random() < 0.15:
                to += rng.choice(['/', '/.'])
            links.append({'at': at_dir + [nm], 'to': to})
        start = rng.choice(real + [ln['at'] for ln in links])
        sc = json.loads(json.dumps(proto))
        if rng.random() < 0.3 and len(start) > 1 and start[:1] in real:
            spell, cwd = ['/'.join(start[1:])], ['search'] + start[:1]
        else:
            spell, cwd = ['{S}/' + '/'.join(start)], None
        sc.update(tfiles=tfs, links=links, dirs=real, spell=spell, cwd=cwd, argkind=rng.choice(ARGKINDS[:4]),
                  shape='symlink-tree', max_cancel=1)
        try:
            pred = predicted_items(sc)
        except (KeyError, ValueError, RecursionError):
            continue
        if pred is None:
            continue
        if pred <= SMALL // 6:
            out.append(sc)
            made += 1
        elif pred >= BLOWUP and len(explosive) < ctx.n(1, 6):
            sc.update(explosive=True, explosive_cb='passive', shape='loops-explosive')
            explosive.append(sc)
    # --- 4. two links to an ancestor in one cycle: the search is exponential in the OS's link limit
    proto = _small_base(rng, 'loops-explosive')
    good, other = _cand(proto), _cand(proto, name=proto['name'] + 'x')
    for links in ([{'at': ['tree', 'a'], 'to': '.'}, {'at': ['tree', 'b'], 'to': '.'}],
                  [{'at': ['tree', 'x', 'u'], 'to': '..'}, {'at': ['tree', 'y', 'v'], 'to': '{S}/tree'}])[:ctx.n(1, 2)]:
        sc = json.loads(json.dumps(proto))
        sc.update(tfiles=[_tf(['tree', 'good.torrent'], cand=good), _tf(['tree', '0-other.torrent'], cand=other)], links=links,
                  dirs=[['tree']], spell=['{S}/tree'], cwd=None, argkind='list', shape='loops-explosive', explosive=True,
                  explosive_cb='passive')
        explosive.append(sc)
    return out + explosive


# --------------------------------------------------------------------------------------------
# evaluation

def _cand_after(m):
    return {'pl': m['pl'], 'pieces': m['hashes'], 'files': [[f['path'], f['size']] for f in m['files']]}


def _plain(p):
    """a spelling without its empty and `.` components (what denotes the same thing for every OS)"""
    comps = [c for c in p.split('/') if c not in ('', '.')]
    return ('/' if p.startswith('/') else '') + '/'.join(comps)


def check_reports(calls, sitems, what):
    """S4: what the callback is told: paths are search paths joined with listed names (up to empty and
    `.` components); an error is reported only for something that really cannot be used"""
    known = {}
    for p, kind, _ in sitems:
        known.setdefault(None if p is None else _plain(p), set()).add(kind)
    for c in calls:
        p, exc = c[0], c[4]
        key = None if p is None else _plain(p)
        if p is not None and key not in known:
            return f'{what}: the callback was given the path {p!r}, which is not a search path joined with listed names'
        if p is None and None not in known:
            return (f'{what}: the callback was told about an unusable search path / directory ({exc}) although every '
                    'given path exists and every directory can be listed')
        if exc is not None and p is not None and known[key] == {'torrent'}:
            return f'{what}: the callback was told {exc} for {p!r}, which is a readable, valid torrent file'
    return None


def check_spec(before, res, after, rep, items, stops, what, calls=None, sitems=None):
    """the executable specification applied to an outcome (of the implementation or of the model);
    returns None or a description of the deviation"""
    bad = check_result(before, res, after, rep, items, stops, what)
    if bad is None and calls is not None and sitems is not None:
        bad = check_reports(calls, sitems, what)
    return bad


def check_result(before, res, after, rep, items, stops, what):
    if res == {'ok': True}:
        # S1: some acceptable candidate; the torrent carries exactly its piece length, hashes, file order
        for it, info in zip(items, rep['items']):
            if it['kind'] == 'torrent' and info['acceptable']:
                ca = _cand_after(it['cand'])
                if it['cand']['single']:
                    ca['files'] = before['files']
                if all(after[k] == ca[k] for k in ('pl', 'pieces', 'files')):
                    if after['name'] != before['name'] or after.get('rest') != before.get('rest'):
                        return f'{what}: accepted, but fields other than pieces / piece length / files changed'
                    return None
        return f'{what}: returned True but the torrent does not carry an acceptable candidate\'s hashes/piece length/file order'
    # S2: nothing accepted ⇒ unchanged
    if any(after[k] != before[k] for k in ('pl', 'pieces', 'files', 'name')) or after.get('rest') != before.get('rest'):
        return f'{what}: nothing was accepted ({res}) but the metainfo changed'
    # S3: completeness
    if rep['mustFind'] and not stops:
        return f'{what}: a faithful candidate is reachable but the result is {res}'
    # S5: no torrent file — readable and valid or not — ends the search with an undocumented internal error
    if str(res.get('raised', '')).startswith('internal:') and not rep.get('overflow'):
        return f'{what}: the search was aborted with the undocumented error {res["raised"]}'
    return None


def _key(sc, label):
    return json.dumps([sc['name'], sc['files'], sc['tfiles'], sc.get('search'), sc.get('spell'), sc.get('cwd'),
                       sc.get('links'), sc.get('perms'), sc.get('euid'), sc.get('argkind'), sc.get('damage'),
                       sc.get('plmin'), sc.get('plmax'), sc.get('history'), sc.get('step'), label], sort_keys=True)


def evaluate(ctx, drv, scs):
    """dispatch by kind of scenario: plain (one world, callback variants), history (operations on one object with
    disk changes in between), explosive (search trees whose visit count is astronomic: bounded by a time limit)"""
    os.umask(0o022)
    plain = [sc for sc in scs if 'history' not in sc and not sc.get('explosive')]
    hist = [sc for sc in scs if 'history' in sc]
    expl = [sc for sc in scs if sc.get('explosive') and 'history' not in sc]
    for fn, part in ((evaluate_plain, plain), (evaluate_hist, hist), (evaluate_explosive, expl)):
        if part:
            fn(ctx, drv, part)


def world_req(obs, t, run):
    return {'t': t, 'fs': obs['fs'], 'cwd': obs['cwd'], 'paths': obs['paths'], 'contents': obs['contents'],
            'cb': run['stops'], 'elapsed': run['elapsed'], 'fuel': FUEL, 'maxSize': MAXSZ}


def tor_json(obs, run):
    t = obs['t']
    tj = {'name': t['name'], 'single': t['single'], 'pl': t['pl'] or 0, 'plMin': t['plMin'], 'plMax': t['plMax'],
          'files': [{'path': p, 'size': s} for p, s in t['files']]}
    if run is not None and run['before']['pieces'] is not None:
        tj['pieces'] = run['before']['pieces']
    return tj


def evaluate_plain(ctx, drv, scs):
    results = common.pmap(_run_chunk, common.split(scs, common.NPROC * 6))
    flat = [x for chunk in results for x in chunk]
    reqs, owner = [], []
    for si, (sc, obs) in enumerate(flat):
        if 'harness_exc' in obs:
            continue
        for ri, run in enumerate(obs['runs']):
            reqs.append(dict(world_req(obs, tor_json(obs, run), run), op='c18.reusePaths'))
            owner.append((si, ri))
    replies = drv.run(reqs)
    for (si, ri), rep in zip(owner, replies):
        sc, obs = flat[si]
        judge(ctx, sc, obs, obs['runs'][ri], rep)
    for sc, obs in flat:
        if 'harness_exc' in obs:
            ctx.machinery_error('harness could not build/run the scenario: ' + obs['harness_exc'], sc)


def judge(ctx, sc, obs, run, rep):
    """one reuse() call: implementation against the harness's walk (S), the model (M) against both"""
    if True:
        case = {'scenario': {k: v for k, v in sc.items()}, 'callback': run['label'], 'stops': run['stops'],
                'interval': 0 if run['elapsed'] else 1e9}
        # the model's search against the operating system's (the harness's own walk of the real tree)
        contents = obs['contents']
        sitems = [list(x) for x in obs['sitems']]
        mitems = []
        for f in rep['found']:
            if f['kind'] == 'pathError':
                mitems.append([None, 'pathError', None])
            elif not f['statOk'] or not f['readable']:
                mitems.append([f['path'], 'unreadable', None])
            else:
                mitems.append([f['path'], contents[f['cid']]['kind'], f['cid']])
        if rep['overflow']:
            ctx.dist['outside-hyp:recursion'] += 1
        elif mitems != sitems:
            ctx.machinery_error('the model of the search (path resolution by the OS, find_torrent_files) yields other items '
                                f'than the walk of the real file system: model {mitems[:6]} … real {sitems[:6]} …', case)
            return 'machinery'
        if obs.get('predicted') is not None and not rep['overflow'] and obs['predicted'] != len(sitems):
            ctx.machinery_error(f'the harness\'s count of the search ({obs["predicted"]} items, resolution on the abstract tree) '
                                f'differs from its walk of the real tree ({len(sitems)} items)', case)
            return 'machinery'
        if not rep.get('freshSame', True):
            ctx.machinery_error('the model\'s outcome depends on the hashes the object holds (contradicts '
                                'C18_history_independent)', case)
            return 'machinery'
        items = [contents[cid] if kind == 'torrent' else {'kind': kind} for _, kind, cid in sitems]
        sampled = any(i.get('fileMatch') for i in rep['items'])
        memo_differs = rep.get('memoRes') is not None and rep['memoRes'] != rep['model']['res']
        if memo_differs:
            ctx.dist['carried-hashes-would-mislead'] += 1
        ctx.case(key=_key(sc, run['label']), nontrivial=sampled,
                 kind=sc['shape'].split(':')[0] + '/' + run['label'].split('@')[0])
        ctx.dist['result:' + json.dumps(run['res'], sort_keys=True)] += 1
        ctx.dist['argkind:' + str(sc.get('argkind'))] += 1
        # model observables in the implementation's vocabulary
        m = rep['model']
        rel = lambda p: p if p is None else p.split('/s/', 1)[-1]  # noqa: E731
        mafter = {'pl': m['after']['pl'], 'pieces': m['after']['pieces'], 'name': m['after']['name'],
                  'files': [[p, s] for p, s in m['after']['files']]}
        before, after = run['before'], run['after']
        impl = {'res': run['res'], 'calls': run['calls'],
                'after': {k: after[k] for k in ('pl', 'pieces', 'files', 'name')}}
        model = {'res': m['res'], 'calls': m['calls'], 'after': mafter}
        bad = check_spec(before, run['res'], after, rep, items, run['stops'], 'reuse()', run['calls'], sitems)
        if bad is None and run['res'] == {'ok': True}:
            if run.get('validate') != 'ok':
                bad = f'reuse() accepted a candidate but validate() then raises {run.get("validate")}'
            elif 'verify' in run:
                acc = [i for i, (it, info) in enumerate(zip(items, rep['items'])) if it['kind'] == 'torrent'
                       and info['faithful'] and all(after[k] == _cand_after(it['cand'])[k] for k in ('pl', 'pieces'))]
                if acc and run['verify'] is not True:
                    bad = f'reuse() accepted a faithful candidate but verify() gives {run["verify"]}'
                ctx.dist['verify-after-accept:' + str(run['verify'])] += 1
        if bad is not None:
            if 'history' in sc:
                bad = f'step {sc.get("step")} of a history on one object ({[h["op"] for h in sc["history"]]}): ' + bad
            ctx.violation(bad, case, {'model': model, 'search': sitems[:40], 'items': rep['items'][:40],
                                      'mustFind': rep['mustFind']}, impl, finding_matchers=MATCHERS)
            return 'violation'
        if rep['hyp']:
            mbad = check_spec({k: before[k] for k in ('pl', 'pieces', 'files', 'name')}, m['res'], mafter, rep, items,
                              run['stops'], 'model', m['calls'], sitems)
            if mbad is not None:
                ctx.machinery_error('the model violates the specification under the hypothesis: ' + mbad, case)
                return 'machinery'
            if impl != model:
                ctx.corr_break('c18.reusePaths', case, model, impl)
                return 'corr'
        else:
            ctx.dist['outside-hyp'] += 1
        if sampled and run['label'] == 'passive':
            ctx.sample({'case': {'shape': sc['shape'], 'files': sc['files'][:6], 'spell': sc.get('spell'), 'cwd': sc.get('cwd'),
                                 'links': sc.get('links'), 'tfiles': [t['at'] for t in sc['tfiles']][:8],
                                 'history': [h['op'] for h in sc.get('history', [])] or None, 'step': sc.get('step')},
                        'res': run['res'], 'calls': [[rel(c[0])] + c[1:] for c in run['calls'][:4]]})


# --------------------------------------------------------------------------------------------
# round 6: the size of a search, computed on the abstract tree (symbolic links to directories make the
# same real directory reachable under many spellings; with two links to an ancestor in one cycle the
# number of spellings the search visits is exponential in the OS's link limit)

MAXLINKS = 40
BLOWUP = 10 ** 8           # ≥ this many yielded items: cannot end within the time limit (≈ 30 000 items/s)
SMALL = 3000               # ≤ this many: evaluated in full by implementation, model and walk
TIME_LIMIT = 3.0


def abstract_nodes(sc):
    """inode table of the search tree as the scenario describes it (no disk involved): 0 = '/', 1 = '/S' (the
    search root `{S}`); link targets with `{S}` replaced by '/S'.  Only for trees without permissions."""
    nodes = [{'k': 'd', 'r': True, 'x': True, 'e': [['S', 1]]}, {'k': 'd', 'r': True, 'x': True, 'e': []}]

    def mkdir(comps):
        cur = 1
        for c in comps:
            ent = dict(nodes[cur]['e'])
            if c not in ent:
                nodes.append({'k': 'd', 'r': True, 'x': True, 'e': []})
                nodes[cur]['e'].append([c, len(nodes) - 1])
                ent[c] = len(nodes) - 1
            cur = ent[c]
        return cur
    for d in sc.get('dirs', []):
        mkdir(d)
    for tf in sc['tfiles']:
        if tf['kind'] == 'emptydir':
            mkdir(tf['at'])
            continue
        parent = mkdir(tf['at'][:-1])
        if tf['kind'] == 'unreadable':
            nodes.append({'k': 'l', 't': '/S-nowhere'})
        else:
            nodes.append({'k': 'f', 'size': MAXSZ + 1 if tf['kind'] == 'oversized' else 1})
        nodes[parent]['e'].append([tf['at'][-1], len(nodes) - 1])
    for ln in sc.get('links', []):
        parent = mkdir(ln['at'][:-1])
        nodes.append({'k': 'l', 't': ln['to'].replace('{S}', '/S')})
        nodes[parent]['e'].append([ln['at'][-1], len(nodes) - 1])
    return nodes


def py_walk(nodes, st, comps, links):
    """path_resolution(7) on the inode table: ('dir', chain, links left) | ('file', ino, links left) | ('err', errno name);
    `st` = chain of real directories below '/', outermost first"""
    comps = list(comps)
    while comps:
        c = comps.pop(0)
        if c == '':
            continue
        node = nodes[st[-1] if st else 0]
        if node['k'] != 'd':
            return ('err', 'notdir')
        if not node['x']:
            return ('err', 'acces')
        if c == '.':
            continue
        if c == '..':
            st = st[:-1]
            continue
        ino = dict(node['e']).get(c)
        if ino is None:
            return ('err', 'noent')
        n = nodes[ino]
        if n['k'] == 'd':
            st = st + (ino,)
        elif n['k'] == 'f':
            return ('file', ino, links) if not comps else ('err', 'notdir')
        else:
            if links == 0:
                return ('err', 'loop')
            links -= 1
            if n['t'].startswith('/'):
                st = ()
            comps = n['t'].split('/') + comps
    return ('dir', st, links)


def count_items(nodes, st, links, memo=None):
    """how many items `find_torrent_files` yields below the directory `st` reached with `links` links still allowed:
    what a spelling followed by one more name denotes depends only on where the spelling leads and on the links used so
    far (C18_resolve_push), so the count is a function of that state"""
    memo = {} if memo is None else memo
    key = (st, links)
    if key in memo:
        return memo[key]
    node = nodes[st[-1] if st else 0]
    total = 0
    if not node['r']:
        total = 1
    else:
        for name, _ in node['e']:
            r = py_walk(nodes, st, [name], links)
            if r[0] == 'dir':
                total += count_items(nodes, r[1], r[2], memo)
            elif r[0] == 'file':
                total += 1 if name.lower().endswith('.torrent') and nodes[r[1]].get('size', 0) <= MAXSZ else 0
            else:
                total += 1          # a *.torrent name that cannot be stat'ed, or a path that does not exist
    memo[key] = total
    return total


def predicted_items(sc):
    """number of items the search of this scenario yields, from the description alone (None: not computable here)"""
    if sc.get('perms') or sc.get('euid') or 'spell' not in sc:
        return None
    nodes = abstract_nodes(sc)
    cwd = (1,) + tuple(_abs_lookup(nodes, sc['cwd'][1:])) if sc.get('cwd') and sc['cwd'][0] == 'search' else None
    total = 0
    for text in sc['spell']:
        if text.startswith('{S}'):
            r = py_walk(nodes, (), ('/S' + text[3:]).split('/'), MAXLINKS)
        elif text.startswith('{R}') or text.startswith('/') or cwd is None or text == '':
            return None
        else:
            r = py_walk(nodes, cwd, text.split('/'), MAXLINKS)
        base = [c for c in text.split('/')]
        last = base[-1] if base else ''
        if r[0] == 'dir':
            total += count_items(nodes, r[1], r[2])
        elif r[0] == 'file':
            total += 1 if last.lower().endswith('.torrent') and nodes[r[1]].get('size', 0) <= MAXSZ else 0
        else:
            total += 1
    return total


def _abs_lookup(nodes, comps):
    """chain of real directories for plain names below '/S' (cwd given as real components)"""
    out, cur = [], 1
    for c in comps:
        cur = dict(nodes[cur]['e'])[c]
        if nodes[cur]['k'] != 'd':
            raise ValueError('cwd must be given by real directories')
        out.append(cur)
    return out


def loop_links(sc):
    """the links of the scenario that lead to the directory they lie in or to a real ancestor of it"""
    nodes = abstract_nodes(sc)
    out = []
    for ln in sc.get('links', []):
        try:
            here = (1,) + tuple(_abs_lookup(nodes, ln['at'][:-1]))
        except (KeyError, ValueError):
            continue
        r = py_walk(nodes, here, [ln['at'][-1]], MAXLINKS)
        if r[0] == 'dir' and here[:len(r[1])] == r[1]:
            out.append(ln['at'])
    return out


def _m_loop_blowup(case, observed, finding):
    """reuse() did not return within the time limit, and the searched tree has a real loop (a symbolic link that leads to
    the directory it lies in or to an ancestor of it) and at least one more link to a directory (the loop can be walked in more
    than one way), and the harness's count of the search is astronomic"""
    sc = case.get('scenario', {})
    try:
        return ('timeout' in ((observed or {}).get('res') or {}) and len(loop_links(sc)) >= 1
                and len(sc.get('links', [])) >= 2 and (predicted_items(sc) or 0) >= BLOWUP)
    except Exception:  # noqa
        return False


MATCHERS['loop_links_blowup'] = _m_loop_blowup


# --------------------------------------------------------------------------------------------
# round 6: explosive search trees — real call under a time limit, no model evaluation (the code-shaped model
# `find` is as exponential as the code: C18_two_loops_blowup)

def _call_with_limit(fn, limit):
    """run fn() in a forked child; ('done', value) or ('timeout', limit)"""
    import pickle
    import select
    import signal
    r, w = os.pipe()
    pid = os.fork()
    if pid == 0:
        try:
            os.close(r)
            try:
                val = ('done', fn())
            except BaseException as e:  # noqa
                val = ('done', {'res': {'raised': exc_kind(e)}})
            with os.fdopen(w, 'wb') as f:
                pickle.dump(val, f)
        finally:
            os._exit(0)
    os.close(w)
    try:
        ready, _, _ = select.select([r], [], [], limit)
        if not ready:
            os.kill(pid, signal.SIGKILL)
            return ('timeout', limit)
        with os.fdopen(os.dup(r), 'rb') as f:
            data = f.read()
        return pickle.loads(data) if data else ('timeout', limit)
    finally:
        os.close(r)
        try:
            os.waitpid(pid, 0)
        except OSError:
            pass


def _run_explosive_chunk(scs):
    torf = common.import_torf()
    wd = common.worker_dir()
    out = []
    for sc in scs:
        obs = {}
        try:
            cpath, root, sroot, plan = build(wd, sc)
            texts = [x.replace('{S}', sroot).replace('{R}', root) for x in sc['spell']]
            label = sc.get('explosive_cb', 'passive')

            def call():
                t = torf.Torrent(path=cpath)
                before = meta_obs(t)
                calls = []

                def cb(tt, path, done, total, is_match, exc):
                    calls.append(is_match)
                try:
                    r = t.reuse(list(texts), callback=None if label == 'none' else cb)
                    res = {'ok': r} if isinstance(r, bool) else {'ok': repr(r)}
                except BaseException as e:  # noqa
                    res = {'raised': exc_kind(e)}
                return {'res': res, 'before': before, 'after': meta_obs(t), 'ncalls': len(calls)}
            cwd_abs = os.path.join(root, *sc['cwd']) if sc.get('cwd') is not None else None
            for x in texts:
                rp = os.path.realpath(os.path.join(cwd_abs or root, x))
                assert (rp + '/').startswith(os.path.realpath(root) + '/'), f'spelling {x!r} leaves the scratch root'
            with running_as(cwd_abs, 0):
                kind, val = _call_with_limit(call, TIME_LIMIT)
            obs = {'label': label, 'res': {'timeout': TIME_LIMIT}} if kind == 'timeout' else dict(val, label=label)
            texts = [os.path.join(cwd_abs or root, x) for x in texts]
            # what a search that visits every real directory once would reach
            seen, reach = set(), []

            def visit(p):
                rp = os.path.realpath(p)
                if rp in seen:
                    return
                seen.add(rp)
                for n in sorted(os.listdir(rp)):
                    q = os.path.join(rp, n)
                    if os.path.isdir(q):
                        visit(q)
                    elif n.lower().endswith('.torrent') and os.path.isfile(q):
                        reach.append(plan.get(os.stat(q).st_ino, ('undecodable',)))
            for x in texts:
                visit(x)
            obs['reach'] = [r[1] if r[0] == 'torrent' else {'kind': r[0]} for r in reach]
        except BaseException:  # noqa
            import traceback
            obs['harness_exc'] = traceback.format_exc()[-1500:]
        out.append((sc, obs))
    return out


def evaluate_explosive(ctx, drv, scs):
    results = common.pmap(_run_explosive_chunk, [[sc] for sc in scs], procs=max(1, min(len(scs), common.NPROC * 2)))
    for sc, obs in [x for chunk in results for x in chunk]:
        if 'harness_exc' in obs:
            ctx.machinery_error('harness could not build/run the scenario: ' + obs['harness_exc'], sc)
            continue
        case = {'scenario': dict(sc), 'callback': obs['label'], 'stops': None if obs['label'] == 'none' else [], 'interval': 0}
        pred = predicted_items(sc)
        if pred is None or pred < BLOWUP:
            ctx.machinery_error(f'scenario marked explosive but the predicted search size is {pred}', case)
            continue
        ctx.case(key=_key(sc, obs['label']), nontrivial=True, kind='loops-explosive/' + obs['label'])
        ctx.dist['result:' + json.dumps(obs['res'], sort_keys=True)] += 1
        good = [c for c in obs['reach'] if c.get('name') == sc['name']]
        expected = {'reachable candidates with the torrent\'s name': len(good), 'loop links': loop_links(sc),
                    'items the search would yield': '>= 10^8' if pred >= BLOWUP else pred}
        if 'timeout' in obs['res']:
            ctx.violation(f'reuse() does not return within {TIME_LIMIT} s: the searched tree has {len(sc.get("links", []))} symbolic '
                          f'links to directories, {len(loop_links(sc))} of them to the directory they lie in / an ancestor of it (a real '
                          'loop that can be walked in more than one way); there is no loop protection, only the OS\'s limit of 40 links '
                          'per resolution ends the descent — the search (and `.total`, which walks everything first) '
                          f'yields about {pred:.3g} items; a faithful candidate in the searched path is never reached',
                          case, expected, {'res': obs['res']}, finding_matchers=MATCHERS)
            continue
        # the call came back: every scenario of this family holds one faithful candidate and otherwise only readable
        # valid torrents with another name
        after, before = obs['after'], obs['before']
        if not good:
            if obs['res'] != {'ok': False} or any(after[k] != before[k] for k in ('pl', 'pieces', 'files', 'name')):
                ctx.violation(f'no candidate with the torrent\'s name is reachable but the result is {obs["res"]} / the metainfo changed',
                              case, expected, {'res': obs['res'], 'after': after}, finding_matchers=MATCHERS)
        elif obs['res'] != {'ok': True}:
            ctx.violation(f'a faithful candidate is reachable but the result is {obs["res"]}', case, expected, {'res': obs['res']},
                          finding_matchers=MATCHERS)
        elif not any(after['pl'] == c['pl'] and after['pieces'] == c['hashes'] for c in good):
            ctx.violation('returned True but the torrent does not carry the reachable candidate\'s hashes', case, expected,
                          {'res': obs['res'], 'after': after}, finding_matchers=MATCHERS)


# --------------------------------------------------------------------------------------------
# round 6: histories on ONE Torrent object (hashes from generate() / an earlier reuse() / an assignment;
# the object's own torrent stored in the searched tree; the content on disk changed in between)

def py_samples(files, pl):
    """first / middle / last piece of every file of a layout (the generator's own arithmetic, used only to aim)"""
    out, pos = set(), 0
    for _, size, _ in files:
        if size:
            a, b = pos // pl, (pos + size - 1) // pl
            out.update([a, a + (b - a + 1) // 2, b])
        pos += size
    return sorted(out)


def _stream_locate(files, off):
    """(index of the file, offset in it) of stream offset `off` in a layout"""
    pos = 0
    for i, (_, size, _) in enumerate(files):
        if off < pos + size:
            return i, off - pos
        pos += size
    raise ValueError(off)


def _cand_from_object(t):
    """the candidate an object's torrent file holds (for the model), from its metainfo"""
    info = t.metainfo['info']
    pieces = info['pieces']
    single = 'length' in info
    files = ([{'path': [], 'size': info['length']}] if single
             else [{'path': list(f['path']), 'size': f['length']} for f in info['files']])
    return {'name': info['name'], 'single': single, 'pl': info['piece length'],
            'hashes': [pieces[i:i + 20].hex() for i in range(0, len(pieces), 20)], 'bytesPath': False, 'files': files}


def _run_hist_chunk(scs):
    torf = common.import_torf()
    wd = common.worker_dir()
    out = []
    for sc in scs:
        hobs = {'ops': [], 'steps': []}
        try:
            cpath, root, sroot, plan = build(wd, sc)
            texts = [x.replace('{S}', sroot).replace('{R}', root) for x in sc['spell']]
            sfiles = _sorted_files([list(f) for f in sc['files']])

            def fpath(i):
                return cpath if sc['single'] else os.path.join(cpath, *sfiles[i][0])

            def mk():
                return torf.Torrent(path=cpath, piece_size_min=sc.get('plmin'), piece_size_max=sc.get('plmax'))
            t = mk()
            hobs['t0'] = dict(meta_obs(t), plMin=t.piece_size_min, plMax=t.piece_size_max, single=t.mode == 'singlefile')
            for k, st in enumerate(sc['history']):
                op = st['op']
                mops = []                      # what the step is for the model
                note = None
                if op == 'generate':
                    t.generate(threads=1)
                    info = t.metainfo['info']
                    order = [f['path'] for f in info['files']] if 'files' in info else [[]]
                    datas = []
                    for comps in order:
                        with open(os.path.join(cpath, *comps) if comps else cpath, 'rb') as fh:
                            datas.append(fh.read())
                    mops = [{'k': 'generate', 'hashes': stream_hashes(datas, info['piece length'])}]
                elif op == 'store':
                    dest = os.path.join(sroot, *st['at'])
                    os.makedirs(os.path.dirname(dest), exist_ok=True)
                    try:
                        t.write(dest, overwrite=True)
                        plan[os.lstat(dest).st_ino] = ('torrent', _cand_from_object(t))
                    except torf.TorfError as e:
                        note = 'not stored: ' + exc_kind(e)
                elif op == 'disk':
                    if st['how'] == 'flip':
                        i, off = _stream_locate(sfiles, st['at'])
                        with open(fpath(i), 'r+b') as f:
                            f.seek(off)
                            b = f.read(1)
                            f.seek(off)
                            f.write(bytes([b[0] ^ 0xff]))
                    elif st['how'] == 'restore':
                        for i, (comps, size, key) in enumerate(sfiles):
                            os.makedirs(os.path.dirname(fpath(i)), exist_ok=True)
                            with open(fpath(i), 'wb') as f:
                                f.write(fbytes(sc['cseed'], key, size))
                    elif st['how'] == 'rewrite-same':      # new inode, new mtime, same bytes
                        i = st['file'] % len(sfiles)
                        with open(fpath(i), 'rb') as f:
                            data = f.read()
                        os.unlink(fpath(i))
                        with open(fpath(i), 'wb') as f:
                            f.write(data)
                    elif st['how'] == 'delete':
                        os.unlink(fpath(st['file'] % len(sfiles)))
                    elif st['how'] == 'truncate':
                        q = fpath(st['file'] % len(sfiles))
                        with open(q, 'r+b') as f:
                            f.truncate(os.path.getsize(q) - 1)
                elif op == 'newobj':
                    t = mk()
                    mops = [{'k': 'repath'}]
                elif op == 'repath':
                    t.path = cpath
                    mops = [{'k': 'repath'}]
                elif op == 'setpieces':
                    info = t.metainfo['info']
                    if st['what'] == 'none':
                        info.pop('pieces', None)
                        mops = [{'k': 'setPieces', 'pieces': None}]
                    elif st['what'] == 'junk':
                        info['pieces'] = b'\x07' * 20 * max(1, t.pieces)
                        mops = [{'k': 'setPieces', 'pieces': ['07' * 20] * max(1, t.pieces)}]
                    else:                     # the pieces and piece length of one of the stored candidates
                        cinfo, cm = cand_meta(sc, sc['tfiles'][st['what']]['cand'])
                        t.piece_size = cm['pl']
                        info['pieces'] = cinfo['pieces']
                        mops = [{'k': 'setPl', 'pl': cm['pl']}, {'k': 'setPieces', 'pieces': cm['hashes']}]
                elif op == 'set_pl':
                    t.piece_size = st['pl']
                    mops = [{'k': 'setPl', 'pl': st['pl']}]
                elif op == 'reuse':
                    nodes, contents, cid_of = scan_fs(root, 0, plan)
                    mcontents = []
                    for c in contents:
                        if c[0] == 'torrent':
                            m = c[1]
                            loc = local_pieces(cpath, sc['single'], m) if m['name'] == sc['name'] else []
                            mcontents.append({'kind': 'torrent', 'cand': m, 'loc': loc})
                        else:
                            mcontents.append({'kind': c[0]})
                    sitems = walk_items(texts, plan, cid_of)
                    label = st.get('cb', 'none')
                    interval = 1e9 if label == 'passive-interval' else 0
                    before = meta_obs(t)
                    calls = []

                    def cb(tt, path, done, total, is_match, exc, _t=t):
                        ok = tt is _t and (exc is None or isinstance(exc, torf.TorfError))
                        if path is not None:
                            path = os.fspath(path)
                        calls.append([path if ok else 'BAD-ARGS', done, total, is_match,
                                      None if exc is None else exc_kind(exc)])
                    try:
                        r = t.reuse(list(texts), callback=None if label == 'none' else cb, interval=interval)
                        res = {'ok': r} if isinstance(r, bool) else {'ok': repr(r)}
                    except BaseException as e:  # noqa
                        res = {'raised': exc_kind(e)}
                    after = meta_obs(t)
                    run = {'label': label, 'stops': None if label == 'none' else [], 'elapsed': interval == 0, 'res': res,
                           'calls': calls, 'before': before, 'after': after}
                    if res == {'ok': True}:
                        try:
                            t.validate()
                            run['validate'] = 'ok'
                        except BaseException as e:  # noqa
                            run['validate'] = exc_kind(e)
                        try:
                            run['verify'] = t.verify(cpath, threads=1, callback=lambda *a: None)
                        except BaseException as e:  # noqa
                            run['verify'] = 'raised:' + exc_kind(e)
                    obs = {'t': dict(before, plMin=t.piece_size_min, plMax=t.piece_size_max, single=t.mode == 'singlefile'),
                           'fs': nodes, 'contents': mcontents, 'sitems': sitems, 'paths': list(texts),
                           'cwd': os.path.realpath(root), 'euid': 0, 'runs': [run]}
                    hobs['steps'].append((k, obs))
                    mops = [dict(world_req(obs, None, run), k='reuse')]
                    for mo in mops:
                        mo.pop('t')
                else:
                    raise ValueError(op)
                hobs['ops'].append({'step': k, 'mops': mops, 'note': note, 'after': meta_obs(t)})
        except BaseException:  # noqa
            import traceback
            hobs['harness_exc'] = traceback.format_exc()[-1500:]
        out.append((sc, hobs))
    return out


def evaluate_hist(ctx, drv, scs):
    results = common.pmap(_run_hist_chunk, common.split(scs, common.NPROC * 6))
    flat = [x for chunk in results for x in chunk]
    reqs, owner = [], []
    for si, (sc, hobs) in enumerate(flat):
        if 'harness_exc' in hobs:
            ctx.machinery_error('harness could not build/run the history: ' + hobs['harness_exc'], sc)
            continue
        t0 = tor_json({'t': hobs['t0']}, None)
        if hobs['t0']['pieces'] is not None:
            t0['pieces'] = hobs['t0']['pieces']
        reqs.append({'op': 'c18.history', 't': t0, 'ops': [mo for o in hobs['ops'] for mo in o['mops']]})
        owner.append(si)
    replies = drv.run(reqs)
    for si, rep in zip(owner, replies):
        sc, hobs = flat[si]
        msteps = iter(rep['steps'])
        obs_of = dict(hobs['steps'])
        for o in hobs['ops']:
            mlast = None
            for _ in o['mops']:
                mlast = next(msteps)
            if mlast is None:
                continue
            k = o['step']
            sck = dict(sc, step=k)
            if 'reuse' in mlast:
                if judge(ctx, sck, obs_of[k], obs_of[k]['runs'][0], mlast['reuse']) is not None:
                    break          # the rest of the history runs from a state the model does not share
            else:
                # the state of the object after an operation other than reuse(): the model's bookkeeping of who holds
                # which hashes against the real object
                ma, ia = mlast['after'], o['after']
                model = {'pl': ma['pl'], 'pieces': ma['pieces'], 'files': [[p_, s_] for p_, s_ in ma['files']], 'name': ma['name']}
                impl = {kk: ia[kk] for kk in ('pl', 'pieces', 'files', 'name')}
                ctx.case(key=_key(sck, 'state'), nontrivial=False, kind='history/state')
                if model != impl:
                    ctx.corr_break('c18.history', {'scenario': sck, 'callback': 'state', 'stops': None, 'interval': 0},
                                   model, impl)
                    break


def run(ctx, drv):
    ctx.notes['rule'] = RULE
    ctx.notes['assumptions'] = [
        'the world of the search is an inode table scanned from the real tree (lstat / readlink / listdir order of real '
        'directories; the chain of directories from / to the scratch root has no links); the model resolves spellings as '
        'path_resolution(7) says (links followed when met, `..` taken where the walk has arrived, at most 40 links, search '
        'permission for every component but empty ones); every case checks the model\'s yield against the harness\'s own walk '
        'of the real file system (os.path.isdir / listdir / stat / open with the spellings as given)',
        'reported paths are compared with the harness\'s walk up to empty and `.` components (exactly with the model)',
        'permissions: the call runs with effective uid 65534 on trees whose group and other bits agree; recursion depth stays '
        'below Python\'s limit (model fuel 200); *.torrent is matched with ASCII case folding; names are ASCII',
        'local content enters as, per candidate geometry, hash | missing | size error per piece (computed by the harness '
        'with its own chunking and hashlib); SHA-1 is uninterpreted',
        'sorted(a) == sorted(b) on lists of (str, int) tuples is modelled as multiset equality',
        'interval is modelled as a boolean "elapsed" (0 => always, 1e9 => never); intermediate intervals depend on the clock',
        'layouts are well formed: non-empty files, pairwise distinct paths, non-empty components; the torrent was made from '
        'its path (file entries carry only length and path; zero-length files on disk are not listed by torf)',
        'histories: an operation other than reuse() enters the model as what it does to the object (generate: the hashes of the '
        'content of that moment, computed by the harness; assignment / deletion of pieces; piece size set: hashes dropped when it '
        'changes; path re-assigned / new object: as first made) and the model\'s state after it is compared with the real object; '
        'size-changing damage is undone before another object is made or generate() runs',
        'search trees with links: no permissions involved; the number of items a search yields is computed on the abstract tree '
        '(state = real directory reached + links used so far) and must equal the walk of the real tree; trees with more than '
        f'{SMALL // 6} predicted items are not generated except those with at least {BLOWUP:.0e}, which are run under a time limit of '
        f'{TIME_LIMIT} s without evaluating the model (it is as exponential as the code: C18_two_loops_blowup)',
        'a readable, valid torrent file must be accepted or skipped: reuse() never ends with an internal error (TypeError, '
        'ValueError, KeyError, AssertionError …); VerifyFileSizeError / ReadError from the content check of a candidate with the '
        'torrent\'s identity are tolerated (the local content changed after the torrent object was made)',
    ]
    corpus = []
    cdir = os.path.join(common.CORPUS_DIR, 'C18')
    if os.path.isdir(cdir):
        for fn in sorted(os.listdir(cdir)):
            if fn.endswith('.json'):
                corpus.append(json.load(open(os.path.join(cdir, fn)))['case']['scenario'])
    evaluate(ctx, drv, corpus + gen_scenarios(ctx))
    ctx.exhaustive = False


def search(ctx, drv):
    evaluate(ctx, drv, gen_scenarios(ctx, scale=3.0))


def replay(ctx, drv, rp):
    evaluate(ctx, drv, [rp['case']['scenario']])
    return {'fails': bool(ctx.violations or ctx.corr_breaks), 'violations': ctx.violations,
            'corr_breaks': ctx.corr_breaks}
