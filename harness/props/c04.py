"""
C04 — cancellation and failures shut the pipeline down cleanly.

Same machinery as C03 (real code under the deterministic scheduler shim, trace replayed in the
Lean transition system), plus a fault plan: the callback cancels or raises at a chosen piece
count, a read() call on a content file fails (I/O error, or a burst of MemoryErrors for the
out-of-memory handler), the OS refuses to start a chosen thread.
"""
import json

from harness import common
from harness.gen import layouts
from harness.props import c03
from harness.sched import exitfaults, runner

RULE = ('case = C03 case + fault plan: callback cancels/raises at pieces_done = k (every k up to the piece count in '
        'small runs), read call r fails with OSError or a MemoryError burst (every r in small runs), start of thread '
        't refused (every t); x schedule strategies x 1..3 hasher threads; round 6: OSError at the n-th close() (every '
        'open file of the finally block; evictions with 12..15 files), the n-th seek(), open()/stat of every file, combined '
        'with cancelling/raising callbacks and read faults, and calls whose callback / interval / thread count has the '
        'wrong type; non-trivial = the fault actually fired '
        'and >= 2 threads were running at that moment; distinct = distinct (case, schedule) pairs')


def _d04a(case, observed, finding):
    """start of the vital hasher or of the janitor is refused: the already running threads are not stopped"""
    ref = set(case.get('refuse') or [])
    if not ({'hasher1', 'janitor'} & ref):
        return False
    if not isinstance(observed, dict):
        return False
    res = observed.get('result') or {}
    return 'raised' in res and res['raised'].get('kind') == 'startRefused' and \
        observed.get('only_problem') == 'threads-left-after-start-refusal'


MATCHERS = {'start_of_vital_thread_refused': _d04a, **exitfaults.MATCHERS}
BATCH = 6000


def gen_cases(ctx, scale=1.0):
    rng = ctx.rng
    cases = []

    def base(threads, npieces, mode='generate', L=2, nfiles=None):
        total = npieces * L - rng.choice([0, 0, 1])
        total = max(1, total)
        nfiles = nfiles or rng.randint(1, 3)
        cuts = sorted(rng.sample(range(1, total), min(total - 1, nfiles - 1))) if total > 1 else []
        sizes = [b - a for a, b in zip([0] + cuts, cuts + [total])]
        return {'mode': mode, 'L': L, 'sizes': sizes, 'paths': layouts.paths_for(len(sizes), rng, nested=False),
                'cseed': rng.randrange(1 << 30), 'threads': threads, 'disk': ['ok'] * len(sizes), 'flips': [],
                'cb': None, 'interval': 0, 'strategy': c03.mk_strategy(rng, threads), 'max_steps': 40000}

    # 1. enumerated fault positions on small runs (one random schedule each)
    for threads in (1, 2):
        for npieces in (1, 3 * threads, 3 * threads + 2):
            for k in range(1, npieces + 1):
                for d in ('cancel', 'raise', 'raise-base'):
                    for mode in ('generate', 'verify'):
                        c = base(threads, npieces, mode)
                        c['cb'] = {'table': {str(k): d}}
                        c['fault'] = f'cb-{d}'
                        cases.append(c)
            c0 = base(threads, npieces)
            nreads = 2 * npieces + 2 * len(c0['sizes']) + 2
            for r in range(1, nreads, 1 if npieces <= 3 else 2):
                c = base(threads, npieces, rng.choice(['generate', 'verify']))
                c['read_fault'] = r
                c['read_fault_kind'] = 'oserror'
                c['cb'] = rng.choice([None, {'table': {}}])
                c['fault'] = 'read-oserror'
                cases.append(c)
            for t in ['reader', 'janitor'] + [f'hasher{i+1}' for i in range(threads)]:
                for mode in ('generate', 'verify'):
                    c = base(threads, npieces, mode)
                    c['refuse'] = [t]
                    c['fault'] = 'refuse-' + ('vital' if t in ('hasher1', 'janitor') else t if t == 'reader' else 'other-hasher')
                    cases.append(c)
    # verify(): a piece that carries several exceptions (a missing file whose piece also holds small bad
    # by-catch files); the callback asks to stop for the first of them only
    for threads in (1, 2):
        for extra in (6, 40):
            c = base(threads, 3, 'verify', L=4, nfiles=1)
            c['sizes'] = [2, 1, 1, 4 * extra]
            c['paths'] = layouts.paths_for(4, rng, nested=False)
            c['disk'] = ['missing', 'missing', 2, 'ok']
            c['cb'] = {'table': {'1': 'cancel-first'}}
            c['fault'] = 'cb-cancel-first-of-several-errors'
            cases.append(c)
    ctx.notes['enumerated'] = ('threads 1..2 x pieces {1, cap, cap+2}: callback cancel/raise at every pieces_done, '
                               'OSError at (every / every other) read call, refusal of every thread')
    # 2. random: large piece counts (bounded work after the fault), OOM bursts, combinations
    for _ in range(int(ctx.n(1500, 40000) * scale)):
        threads = rng.choice([1, 2, 2, 3])
        cap = 3 * threads
        npieces = rng.choice([cap + 3, 2 * cap + 5, 6 * cap, 12 * cap])
        c = base(threads, npieces, rng.choice(['generate', 'verify']))
        kind = rng.choice(['cb-cancel', 'cb-raise', 'read-oserror', 'read-oom', 'refuse', 'cb+read'])
        c['fault'] = kind
        if kind in ('cb-cancel', 'cb-raise', 'cb+read'):
            c['cb'] = {'table': {str(rng.randint(1, npieces)): 'cancel' if kind == 'cb-cancel' else rng.choice(['raise', 'raise-base', 'cancel'])}}
        if kind in ('read-oserror', 'cb+read'):
            c['read_fault'] = rng.randint(1, 2 * npieces)
            c['read_fault_kind'] = 'oserror'
            if c['cb'] is None:
                c['cb'] = rng.choice([None, {'table': {}}])
        if kind == 'read-oom':
            c['read_fault'] = rng.randint(1, 2 * npieces)
            c['read_fault_kind'] = 'memory'
            c['read_fault_burst'] = rng.choice([1, 1, 2, 3, 8, 40, 10 ** 9, 10 ** 9])
            c['cb'] = rng.choice([None, {'table': {}}])
        if kind == 'refuse':
            c['refuse'] = [rng.choice(['reader', 'janitor'] + [f'hasher{i+1}' for i in range(threads)])]
            c['fault'] = 'refuse-' + ('vital' if c['refuse'][0] in ('hasher1', 'janitor') else 'other')
        cases.append(c)
    # 2a. a transient out-of-memory burst (the handler shrinks the piece queue; it must keep a bound of at least 1) and
    #     LATER a stop request: the further work after the request stays bounded
    for _ in range(int(ctx.n(200, 5000) * scale)):
        threads = rng.choice([1, 1, 2, 3])
        cap = 3 * threads
        npieces = rng.choice([8 * cap, 20 * cap, 40 * cap])
        c = base(threads, npieces, rng.choice(['generate', 'verify']), nfiles=1)
        c['read_fault'] = rng.randint(1, 6)
        c['read_fault_kind'] = 'memory'
        # (the handler acts at most every 0.1 s of the clock, which advances 1/64 s per look of the reader: any number of
        #  consecutive failures up to well beyond the point where the unchanged handler gives up)
        c['read_fault_burst'] = rng.randint(1, 8 * cap + 8)
        k = rng.randint(min(npieces - 1, cap + 4), max(cap + 5, npieces // 2))
        c['cb'] = {'table': {str(k): rng.choice(['cancel', 'raise'])}}
        c['fault'] = 'oom-burst-then-stop'
        cases.append(c)
    # 2b. verification of a tree with many damaged small files (about one piece each), the callback asks to stop at
    #     an early report: the error items behind the stop request must neither be raised (they belong to the callback,
    #     the run returns False) nor keep the reader going
    for _ in range(int(ctx.n(160, 4000) * scale)):
        threads = rng.choice([1, 2, 3])
        cap = 3 * threads
        L = 2
        nfiles = rng.choice([cap + 6, 2 * cap + 9, 4 * cap + 10])
        sizes = [rng.choice([L, L, L, L + 1, 1, 2 * L]) for _ in range(nfiles)]
        c = base(threads, 1, 'verify', L=L)
        c['sizes'] = sizes
        c['paths'] = layouts.paths_for(nfiles, rng, nested=False)
        p_bad = rng.choice([0.3, 0.7, 1.0])
        c['disk'] = [rng.choice(['missing', 'missing', s + 1] + ([s - 1] if s > 1 else [])) if rng.random() < p_bad else 'ok'
                     for s in sizes]
        if all(d == 'ok' for d in c['disk']):
            c['disk'][rng.randrange(nfiles)] = 'missing'
        k = rng.choice([1, 1, 2, 3, rng.randint(1, max(1, nfiles // 2))])
        c['cb'] = {'table': {str(k): rng.choice(['cancel', 'cancel', 'cancel-first'])}}
        c['interval'] = 0        # (the pipeline model asks the callback at every result: no interval gate in it)
        c['fault'] = 'cb-cancel-among-damaged-files'
        cases.append(c)
    # 3. a content file that cannot be read as recorded (its size changed after the torrent was made): the reader's
    #    generator yields an error item, which a hashing run must raise whatever the callback and the reporting interval
    for _ in range(int(ctx.n(150, 4000) * scale)):
        threads = rng.choice([1, 2, 3])
        cap = 3 * threads
        c = base(threads, rng.choice([2, cap, cap + 3, 3 * cap]), 'generate')
        for i in rng.sample(range(len(c['sizes'])), rng.choice([1, 1, 2]) if len(c['sizes']) > 1 else 1):
            if c['sizes'][i] > 0:
                c['disk'][i] = rng.choice([c['sizes'][i] + 1] + ([c['sizes'][i] - 1] if c['sizes'][i] > 1 else []))
        c['cb'] = rng.choice([None, {'table': {}}])
        c['interval'] = rng.choice([0, 0.125, 1.0, 1000.0])
        c['fault'] = 'file-size-changed'
        cases.append(c)
    # the value a cancelling callback answers with: the contract is "not None", so half of the cancelling cases use a
    # falsy answer (False, 0, '', (), 0.0)
    from harness.sched import runner as _runner
    for c in cases:
        tb = ((c.get('cb') or {}).get('table') or {})
        if any(str(v).startswith('cancel') for v in tb.values()) and 'answer' not in c['cb'] and rng.random() < 0.5:
            c['cb'] = dict(c['cb'], answer=rng.randrange(1, len(_runner.CANCEL_ANSWERS)))
    return cases


def judge(ctx, c, case, obs, rep, c02reply, prop):
    case = dict(case)
    for k in ('fault', 'read_fault_kind', 'read_fault_burst'):
        if c.get(k) is not None:
            case[k] = c[k]
    problems = []
    tags = []
    res = obs['result'] or {}
    table = ((c.get('cb') or {}).get('table') or {})
    if obs['outcome'] == 'budget':
        ctx.dist['step-budget-exhausted(inconclusive)'] += 1
        return
    refused_vital = bool({'hasher1', 'janitor'} & set(c.get('refuse') or []))
    if obs['outcome'] in ('deadlock', 'livelock'):
        problems.append(f'{obs["outcome"]}: threads blocked at {obs["stuck"]}')
        tags.append('hang')
    if obs['alive_at_return']:
        problems.append(f'worker threads still running at return: {obs["alive_at_return"]}')
        tags.append('threads')
    # --- never a partial or wrong piece string
    if c['mode'] == 'generate':
        stored = obs['pieces_stored']
        if res == {'returned': True}:
            if stored != obs['want_pieces']:
                problems.append('generate() returned True but the stored piece string is not the complete correct one')
                tags.append('pieces')
        elif stored is not None:
            problems.append(f'generate() did not succeed ({res}) but stored a piece string of {len(stored)} bytes')
            tags.append('pieces')
    # --- what the caller gets
    raise_k = [int(k) for k, v in table.items() if v in ('raise', 'raise-base')]
    cancel_k = [int(k) for k, v in table.items() if v in ('cancel', 'cancel-first')]
    cb_raised = any(cl['done'] in raise_k for cl in obs['calls'])
    cb_cancelled = any(cl['done'] in cancel_k for cl in obs['calls'])
    fault_gave_up = obs['fault_fired'] and (c.get('read_fault_kind') == 'oserror' or
                                            ('raised' in res and res['raised'].get('errno') == 12))
    if cb_raised and not obs['fault_fired']:
        if not ('raised' in res and res['raised'].get('kind') == 'cb'):
            problems.append(f'the callback raised but the caller got {res}')
            tags.append('result')
    if c['mode'] == 'verify' and c.get('cb') is not None and cb_cancelled and not cb_raised and not obs['fault_fired'] \
            and not c.get('refuse') and obs['outcome'] == 'done' and 'returned' not in res:
        problems.append(f'the callback asked to stop (verification with a callback: errors belong to the callback) '
                        f'but the caller got {res}')
        tags.append('result')
    if obs['fault_fired'] and c.get('read_fault_kind') == 'oserror' and not cb_raised:
        if not ('raised' in res and res['raised'].get('kind') == 'read'):
            problems.append(f'a content file failed to read but the caller got {res} instead of the read error')
            tags.append('result')
    if c.get('fault') == 'file-size-changed' and c02reply is not None and c02reply['bad']:
        exp = c03.expected_outcome(c, c02reply)
        if obs['outcome'] == 'done' and not c03._match_expected(exp, obs['result']):
            problems.append(f'a content file cannot be read as recorded but the caller got {res} instead of its error '
                            f'(interval {c.get("interval")})')
            tags.append('result')
    if 'raised' in res and res['raised'].get('kind') == 'spin':
        problems.append('persistent MemoryError: the reader keeps retrying the read forever instead of giving up with the read error')
        tags.append('hang')
    if 'raised' in res and res['raised'].get('kind') == 'internal':
        problems.append(f'internal exception escaped: {res["raised"]}')
        tags.append('result')
    if c.get('read_fault_kind') == 'memory' and obs['fault_fired'] and not (cb_raised or cb_cancelled):
        # transient out-of-memory: either the run recovers completely or it gives up with ENOMEM
        ok_recovered = (res == {'returned': True}) if c['mode'] == 'generate' else ('returned' in res)
        gave_up = 'raised' in res and res['raised'].get('kind') == 'read' and res['raised'].get('errno') == 12
        if not (ok_recovered or gave_up):
            problems.append(f'after an out-of-memory burst the caller got {res}')
            tags.append('result')
        if c['mode'] == 'verify' and 'returned' in res and res['returned'] is not True and not gave_up:
            problems.append('verify() of intact content returned False after a recovered out-of-memory burst')
            tags.append('result')
    # --- bounded further work after the stop request
    first_stop = None
    for cl in obs['calls']:
        if cl['done'] in raise_k or cl['done'] in cancel_k:
            first_stop = cl['at_step']
            break
    if first_stop is not None and obs['outcome'] == 'done':
        puts_after = sum(1 for e in obs['trace'][first_stop:] if e[0] == 'reader' and e[1] == 'pq.put') - 1
        # pieces hashed after the stop request: what was in the piece queue (<= cap), in the hashers' hands
        # (<= N) and the one piece the reader may still push.  (Results already waiting in the unbounded
        # hash queue were produced before the request; draining them is not further hashing work.)
        gets_after = sum(1 for e in obs['trace'][first_stop:] if e[0].startswith('hasher') and e[1] == 'hq.put')
        cap = (obs.get('structure') or {}).get('pq_max') or 3 * c['threads']
        ctx.dist['max-items-read-after-stop'] = max(ctx.dist['max-items-read-after-stop'], puts_after)
        if puts_after > 1:
            problems.append(f'the reader pushed {puts_after} further pieces after the callback asked to stop')
            tags.append('bound')
        ctx.dist['max-pieces-hashed-after-stop'] = max(ctx.dist['max-pieces-hashed-after-stop'], gets_after)
        if gets_after > cap + c['threads'] + 1:
            problems.append(f'{gets_after} further pieces were hashed after the stop request (bound cap+N+1 = {cap + c["threads"] + 1})')
            tags.append('bound')
    if c.get('refuse') and 'reader' in c['refuse'] and not (res.get('raised', {}).get('kind') == 'startRefused'):
        problems.append(f'start of the reader was refused but the caller got {res}')
        tags.append('result')
    if problems:
        only = None
        if refused_vital and set(tags) <= {'hang', 'threads'}:
            only = 'threads-left-after-start-refusal'
        fid = ctx.violation(f'{c["mode"]}(threads={c["threads"]}, fault={c.get("fault")}): ' + '; '.join(problems[:3]),
                            case, 'returns/raises cleanly', {'outcome': obs['outcome'], 'result': obs['result'],
                                                             'alive_at_return': obs['alive_at_return'],
                                                             'stuck': obs['stuck'], 'only_problem': only,
                                                             'fault_fired': obs['fault_fired'],
                                                             'trace_tail': obs['trace'][-20:]}, MATCHERS)
        if fid is None:
            return
    if refused_vital:
        ctx.dist['refused-vital(known finding class)'] += 1
    c03.check_correspondence(ctx, c, case, obs, rep)


def evaluate(ctx, drv, cases):
    vidx = [i for i, c in enumerate(cases) if c03.needs_c02(c)]
    c02 = drv.run([{'op': 'c02.verify', 'L': cases[i]['L'], 'sizes': cases[i]['sizes'], 'disk': cases[i]['disk'],
                    'flips': c03.model_flips(cases[i]), 'single': False, 'pathIsDir': True} for i in vidx])
    c02by = dict(zip(vidx, c02))
    results = common.pmap(c03._run_chunk, common.split(cases, common.NPROC * 4))
    flat = [x for chunk in results for x in chunk]
    reqs = []
    for i, (c, obs) in enumerate(flat):
        if 'harness_exc' in obs:
            raise RuntimeError(f'harness failure: {obs["harness_exc"]}')
        # the fault position in terms of items = number of pieces the reader had pushed when it died
        if obs['fault_fired'] and obs['result'] and 'raised' in obs['result'] and \
                obs['result']['raised'].get('kind') == 'read' or (obs['fault_fired'] and c.get('read_fault_kind') == 'oserror'):
            puts = sum(1 for e in obs['trace'] if e[0] == 'reader' and e[1] == 'pq.put')
            c['read_fault_item'] = max(0, puts - 1)
        cfg = c03.model_cfg(c, c02by.get(i))
        pqm = (obs.get('structure') or {}).get('pq_max')
        if pqm and pqm > 0 and c.get('read_fault_kind') != 'memory':
            cfg['cap'] = pqm
        reqs.append({'op': 'c03.replay', 'cfg': cfg, 'trace': obs['trace']})
    replies = drv.run(reqs)
    for i, ((c, obs), rep) in enumerate(zip(flat, replies)):
        case = {k: c[k] for k in ('mode', 'L', 'sizes', 'paths', 'cseed', 'threads', 'disk', 'flips', 'cb',
                                  'interval', 'strategy', 'max_steps', 'refuse', 'read_fault') if c.get(k) is not None}
        fired = bool(obs['fault_fired']) or any(cl['done'] in [int(k) for k in ((c.get('cb') or {}).get('table') or {})]
                                                for cl in obs['calls']) or bool(c.get('refuse')) or \
            c.get('fault') == 'file-size-changed'
        ctx.case(key=json.dumps(case, sort_keys=True), nontrivial=fired and c['threads'] >= 1,
                 kind=f"{c.get('fault')}/{c['mode']}/N{c['threads']}")
        if fired:
            ctx.dist['fault-fired'] += 1
        ctx.sample({'case': case, 'fault': c.get('fault'), 'outcome': obs['outcome'], 'result': obs['result']}, limit=4)
        judge(ctx, c, case, obs, rep, c02by.get(i), 'C04')


def run(ctx, drv):
    ctx.notes['rule'] = RULE
    ctx.notes['assumptions'] = [
        'as C03 (granularity of labels, adversarial timeouts, shim semantics)',
        'read faults are injected by shadowing `open` in torf._stream with a proxy whose n-th read() raises; the '
        'fault position handed to the model is the number of pieces the reader had pushed when it died',
        'the out-of-memory handler\'s shrinking of the piece queue is not part of the transition system: a smaller '
        'capacity only removes behaviours, so every observed run is still replayed in the model (capacity = initial)',
    ]
    cases = gen_cases(ctx)
    for i in range(0, len(cases), BATCH):        # (bounded memory in the thorough tier: traces are kept per batch only)
        evaluate(ctx, drv, cases[i:i + BATCH])
    # faults in the reader's other OS calls (close in the finally block and on eviction, seek, open, stat) and failures
    # of the calling thread itself (arguments of the wrong type): harness/sched/exitfaults.py
    ctx.notes['assumptions'].append(
        'close()/seek()/open()/stat faults are injected through the same shadowed `open` (and a forwarding `os` in '
        'torf._stream); a file that cannot be opened is an error item exactly like a missing file; whether a failing '
        'close() was the finally block\'s or an eviction is read off the trace (did the reader queue anything afterwards)')
    cases = exitfaults.gen_cases(ctx)
    for i in range(0, len(cases), BATCH):
        exitfaults.evaluate(ctx, drv, cases[i:i + BATCH], strict=True, matchers=MATCHERS)


def search(ctx, drv):
    # a structural deviation seen by the correspondence check (e.g. a bounded hash queue) first gets cases aimed at it
    d = c03.directed_cases(ctx)
    if d:
        c03.evaluate_directed(ctx, drv, d)
    if not ctx.violations:
        evaluate(ctx, drv, gen_cases(ctx, scale=2.0))
    if not ctx.violations:
        exitfaults.evaluate(ctx, drv, exitfaults.gen_cases(ctx, scale=2.0), strict=True, matchers=MATCHERS)


def replay(ctx, drv, rp):
    if exitfaults.is_exit_case(rp['case']):
        exitfaults.evaluate(ctx, drv, [dict(rp['case'])], strict=True, matchers=MATCHERS)
    else:
        evaluate(ctx, drv, [dict(rp['case'])])
    return {'fails': bool(ctx.violations or ctx.corr_breaks), 'violations': ctx.violations,
            'corr_breaks': ctx.corr_breaks, 'known': list(ctx.known)}
