"""
C17 — a failed or refused export leaves no trace.

Cases = metainfo recipes of C07's generator (every failing class + valid ones) × a *world*:

  write(path)      what is at the path (absent | file, short or long | directory, empty or not | symlink to a
                   file | symlink loop | dangling symlink | socket | symlink to a private full / null device node | running
                   executable | name too long | missing parent | parent is a file) × who may do what (root, or an
                   unprivileged effective uid facing a read-only file / read-only directory / unsearchable
                   directory) × fault while writing (RLIMIT_FSIZE = k bytes: a real EFBIG after k bytes; injected:
                   open() raises errno e, write() raises after k bytes, close() raises) × overwrite × validate
  write_stream(s)  BytesIO | real files opened 'r+b' 'w+b' 'wb' 'ab' 'a+b' 'rb' (buffered or not) | text-mode files
                   and StringIO | pipes (buffered or not, broken) | custom sink | a wrapper that raises OSError at
                   its k-th method call and/or after q written bytes; × prior content (empty, shorter, longer than
                   the torrent) × position (0, inside, end, past the end)

Observables: error kind; what is at the path afterwards (type, bytes) and a snapshot of the whole scratch
directory (types, modes, link targets, bytes); stream bytes, position, number of method calls.

Decision: the implementation's outcome is judged by the Lean specification `fileSpec` / `streamSpec`
(lean/Torf/Spec/Write.lean, driver ops `c17.judge.*`) with d := what dump() really returned; the Lean model
`Torf.Write` (instantiated with C07's `dump`) is proved to meet the same specification (C17_*_meets_spec) and is
compared with the implementation under hyp.
"""
import errno
import hashlib
import io
import json
import os
import resource
import shutil
import signal
import socket
import stat
import subprocess

from harness import common
from harness.impl import recipes as R
from harness.props import c07

RULE = ('metainfo recipes from the C07 generator (valid + 1..3 mutations; every validation rule and unconvertible '
        'values) x world: path absent/file/long file/dir/empty dir/missing parent/parent is a file/symlinks/socket/'
        'device/busy executable/over-long name, unprivileged euid vs read-only file, read-only dir, unsearchable dir, '
        'RLIMIT_FSIZE after k bytes, injected open/write/close faults x overwrite x validate; streams: BytesIO, files '
        "opened r+b/w+b/wb/ab/a+b/rb (un)buffered, text streams, pipes, sink, wrapper failing at its k-th call or after "
        'q bytes x prior content empty/short/long x position; prior content also derived from the new content (equal, proper prefixes, new + suffix, one byte flipped, same length, previous export before an edit); exhaustive sweep of all worlds on 7 metainfos (thorough: 67) + one of ~10 KiB on the derived worlds + random '
        'worlds on every recipe; non-trivial = the export fails or the target/stream has prior content; '
        'distinct = distinct (recipe, world, flags)')

PRIORS = {'empty': b'', 'short': b'OLD12', 'old': b'OLD-CONTENT-0123456789',
          'long': bytes((i * 37 + 11) % 251 for i in range(2048))}
OLD = PRIORS['old']
NOBODY = 65534

# prior content *derived from the new content* c (= what dump() returns for the case; if dump fails: what
# dump(validate=False) returns; if that fails too: OLD).  In the model these are just other values of the node's /
# stream's content; the generator has to produce them because an implementation may look at the old content.
DERIVED = ('eq',                                                       # exactly the new content
           'prefix:1', 'prefix:half', 'prefix:len-1',                  # proper initial segments (prefix:0 = 'empty')
           'plus:1', 'plus:many', 'plus:self',                         # the new content followed by more
           'flip:start', 'flip:mid', 'flip:end',                       # one byte differs
           'samelen',                                                  # same length and first byte, the rest differs
           'prev:comment', 'prev:name', 'prev:tracker')                # the previous export of the object, before an edit
POSITIONS = ('0', '1', 'half', 'end-1', 'end', 'end+5')                # symbolic stream positions, relative to the prior


def _prev_export(torf, md, what):
    """dump of the same object before an edit: the case's metainfo is the *edited* one; undo an edit outside the
    info dict (comment, tracker) or inside it (name)"""
    t = c07.fresh(torf, md)
    mi = t.metainfo
    if what == 'comment':
        if 'comment' in mi:
            del mi['comment']
        else:
            mi['comment'] = 'previous comment'
    elif what == 'tracker':
        if 'announce' in mi:
            mi['announce'] = 'http://old.tracker.example/announce'
        else:
            mi['announce'] = 'http://tracker.example/announce'
    else:
        mi['info']['name'] = 'previous name'
    return t.dump(validate=False)


def prior_bytes(name, base, torf=None, md=None):
    """the bytes a prior-content name stands for; `base` = the new content (see DERIVED)"""
    if name in PRIORS:
        return PRIORS[name]
    n = len(base)
    kind, _, arg = name.partition(':')
    if kind == 'eq':
        return base
    if kind == 'prefix':
        return base[:{'1': 1, 'half': n // 2, 'len-1': max(n - 1, 0)}[arg]]
    if kind == 'plus':
        return base + {'1': b'\n', 'many': PRIORS['long'], 'self': base}[arg]
    if kind == 'flip':
        i = {'start': 0, 'mid': n // 2, 'end': n - 1}[arg]
        return base[:i] + bytes([base[i] ^ 0x20]) + base[i + 1:] if n else b'x'
    if kind == 'samelen':
        return base[:1] + bytes((b + 1) % 256 for b in base[1:])
    if kind == 'prev':
        try:
            return _prev_export(torf, md, arg)
        except Exception:  # noqa  (metainfo too odd to edit)
            return base[:n // 2] + b'previous' + base[n // 2:]
    raise ValueError(name)


def position(sym, prior):
    if isinstance(sym, int):
        return sym
    n = len(prior)
    return {'0': 0, '1': 1, 'half': n // 2, 'end-1': max(n - 1, 0), 'end': n, 'end+5': n + 5}[sym]

# ---------------------------------------------------------------------------------------------------------
# file worlds: name -> (what the model is told beyond what is observed).  `node` and `existsAns` are always
# *observed* (lstat/stat as root; os.path.exists under the identity the export runs with); `open_err` is what the
# world is built to provoke and is cross-checked by a side-effect-free probe where one exists.
FILE_WORLDS = {
    # name:            (prior,   open_err, nobody, quota)
    'absent':          (None,    False, False, None),
    'file':            ('old',   False, False, None),
    'file-long':       ('long',  False, False, None),
    'file-empty':      ('empty', False, False, None),
    'symlink-file':    ('old',   False, False, None),
    'dir':             (None,    True,  False, None),
    'emptydir':        (None,    True,  False, None),
    'noparent':        (None,    True,  False, None),
    'parentfile':      (None,    True,  False, None),
    'symlink-loop':    (None,    True,  False, None),
    'dangling-link':   (None,    True,  False, None),
    'name-too-long':   (None,    True,  False, None),
    'socket':          (None,    True,  False, None),
    'busy-exe':        (None,    True,  False, None),
    'devnull-link':    (None,    False, False, None),
    'ro-file':         ('old',   True,  True,  None),     # file 0444 in a directory the euid may modify
    'ro-dir-file':     ('old',   True,  True,  None),     # file not writable, directory not writable
    'ro-dir-absent':   (None,    True,  True,  None),     # nothing there, directory not writable
    'hidden-file':     ('old',   True,  True,  None),     # directory not searchable: exists() says False
    # the target is spelled d/inbox/../out.torrent with d/inbox -> ../store/inbox: the OS resolves it to store/out.torrent,
    # a lexical normalisation (os.path.abspath / normpath) to d/out.torrent - two different paths
    'dotdot-absent':   (None,    False, False, None),     # nothing at store/out.torrent, a file at d/out.torrent
    'dotdot-file':     ('old',   False, False, None),     # a file at store/out.torrent, nothing at d/out.torrent
}
FAULTABLE = ('absent', 'file', 'file-long', 'symlink-file')    # worlds on which write-time faults are played
OPEN_ERRNOS = ('EACCES', 'EROFS', 'EMFILE', 'ENOSPC', 'EIO', 'EPERM')
QUOTAS = (0, 1, 17, 100000)

STREAM_KINDS = {
    # kind:            flags of the model's stream
    'bytesio':         {},
    'file:r+b':        {},
    'file:r+b:0':      {},
    'file:w+b':        {},
    'file:wb':         {},
    'file:ab':         {'append': True},
    'file:ab:0':       {'append': True},
    'file:a+b':        {'append': True},
    'file:rb':         {'readOnly': True},
    'text:r+':         {'text': True},
    'text:a':          {'text': True, 'append': True},
    # text the caller wrote through the text layer just before the call and did not flush: it sits in the TextIOWrapper's
    # buffer and reaches the file at the next flush / seek / close - for the model it is content written at the position
    'text:r+:pending': {'text': True},
    'text:a:pending':  {'text': True, 'append': True},
    'text:r':          {'text': True, 'readOnly': True},
    'stringio':        {'text': True},
    'pipe':            {'seekable': False},
    'pipe:0':          {'seekable': False},
    'brokenpipe:0':    {'seekable': False, 'quota': 0},
    'sink':            {'seekable': False},
}
FAULTY_INNER = ('bytesio', 'file:r+b', 'file:ab', 'sink', 'pipe:0')
STREAM_FAULTS = ([{'at': k} for k in range(5)] + [{'quota': q} for q in (0, 1, 17)] + [{'at': 3, 'quota': 1}] +
                 [{'quota': q, 'short': True} for q in (0, 1, 17)])     # raw stream: write() returns a short count
RAW_FILE_KINDS = ('file:r+b:0', 'file:ab:0')                            # real raw files under RLIMIT_FSIZE = k
RAW_FSIZE = (0, 1, 17, 100000)


class Sink:
    """non-seekable writable"""
    def __init__(self, prior):
        self.buf = bytearray(prior)

    def seekable(self):
        return False

    def write(self, b):
        self.buf += b
        return len(b)


class Faulty:
    """wraps a stream; counts the calls of seekable/seek/truncate/write; the call with index `at` raises OSError
    (without reaching the inner stream); write() passes `quota` bytes on, then raises OSError"""
    def __init__(self, inner, at=None, quota=None, short=False):
        self._inner, self._at, self._quota, self._short, self.calls = inner, at, quota, short, 0

    def _enter(self):
        i = self.calls
        self.calls += 1
        if i == self._at:
            raise OSError(errno.EIO, 'Input/output error')

    def seekable(self):
        self._enter()
        return self._inner.seekable()

    def seek(self, *a):
        self._enter()
        return self._inner.seek(*a)

    def truncate(self, *a):
        self._enter()
        return self._inner.truncate(*a)

    def write(self, b):
        self._enter()
        if self._quota is None:
            return self._inner.write(b)
        k = min(self._quota, len(b))
        self._inner.write(bytes(b[:k]))
        self._quota -= k
        if k < len(b) and not self._short:
            raise OSError(errno.ENOSPC, 'No space left on device')
        return k

    def __getattr__(self, name):
        return getattr(self._inner, name)


class _FaultyFile:
    """what the patched open() returns for an injected write/close fault"""
    def __init__(self, f, quota, close_err):
        self._f, self._quota, self._close_err = f, quota, close_err

    def write(self, b):
        if self._quota is None:
            return self._f.write(b)
        k = min(self._quota, len(b))
        self._f.write(bytes(b[:k]))
        self._f.flush()
        self._quota -= k
        if k < len(b):
            raise OSError(errno.ENOSPC, 'No space left on device')
        return k

    def close(self):
        self._f.close()
        if self._close_err:
            self._close_err = False
            raise OSError(errno.EIO, 'Input/output error')

    def __enter__(self):
        return self

    def __exit__(self, *a):
        self.close()

    def __getattr__(self, name):
        return getattr(self._f, name)


_PROCESS0 = {}


def _remember_process():
    """what a worker's identity, limits and open() are before any case ran"""
    import builtins
    if not _PROCESS0:
        _PROCESS0.update(uid=os.getuid(), gid=os.getgid(), fsize=resource.getrlimit(resource.RLIMIT_FSIZE),
                         open=builtins.open)


def _restore_process():
    """whatever a case (or an exception inside it) left behind: effective ids, RLIMIT_FSIZE, builtins.open"""
    import builtins
    if not _PROCESS0:
        return
    if os.geteuid() != _PROCESS0['uid']:
        os.seteuid(_PROCESS0['uid'])
    if os.getegid() != _PROCESS0['gid']:
        os.setegid(_PROCESS0['gid'])
    if resource.getrlimit(resource.RLIMIT_FSIZE) != _PROCESS0['fsize']:
        resource.setrlimit(resource.RLIMIT_FSIZE, _PROCESS0['fsize'])
    if builtins.open is not _PROCESS0['open']:
        builtins.open = _PROCESS0['open']


class _CaseTimeout(BaseException):
    """not an Exception: the code under test must not be able to swallow it"""


def _on_alarm(signum, frame):
    raise _CaseTimeout()


CASE_TIMEOUT = 60     # seconds; an export of a few hundred bytes that has not returned by then never will


class _Identity:
    """run a block with the unprivileged effective uid (if the harness is root)"""
    def __init__(self, nobody):
        self.on = bool(nobody) and os.geteuid() == 0

    def __enter__(self):
        if self.on:
            os.setegid(NOBODY)
            os.seteuid(NOBODY)

    def __exit__(self, *a):
        if self.on:
            os.seteuid(0)
            os.setegid(0)


class _FsizeLimit:
    """RLIMIT_FSIZE = k for the block: the k+1-th byte written to any file fails with EFBIG (also for root)"""
    def __init__(self, k):
        self.k = k

    def __enter__(self):
        if self.k is not None:
            signal.signal(signal.SIGXFSZ, signal.SIG_IGN)
            self.old = resource.getrlimit(resource.RLIMIT_FSIZE)
            resource.setrlimit(resource.RLIMIT_FSIZE, (self.k, self.old[1]))

    def __exit__(self, *a):
        if self.k is not None:
            resource.setrlimit(resource.RLIMIT_FSIZE, self.old)


class _PatchedOpen:
    """inject a fault into open() *of the target path in a writing mode* (builtins.open, which is what a module
    level `open` resolves to); every other open() is untouched"""
    def __init__(self, path, fault):
        self.path, self.fault = os.path.abspath(path), fault

    def __enter__(self):
        import builtins
        self.real = real = builtins.open
        fault, path = self.fault, self.path
        if fault is None or fault['kind'] == 'fsize':
            return

        def patched(file, mode='r', *a, **kw):
            try:
                hit = os.path.abspath(os.fspath(file)) == path and any(ch in mode for ch in 'wxa+')
            except TypeError:
                hit = False
            if not hit:
                return real(file, mode, *a, **kw)
            if fault['kind'] == 'open':
                no = getattr(errno, fault['errno'])
                raise OSError(no, os.strerror(no), path)
            f = real(file, mode, *a, **kw)
            return _FaultyFile(f, fault.get('k') if fault['kind'] == 'write' else None, fault['kind'] == 'close')
        builtins.open = patched

    def __exit__(self, *a):
        import builtins
        builtins.open = self.real


def _rmtree(p):
    if not os.path.lexists(p):
        return
    for dp, dns, _ in os.walk(p):
        for d in dns:
            try:
                os.chmod(os.path.join(dp, d), 0o700)
            except OSError:
                pass
    try:
        os.chmod(p, 0o700)
    except OSError:
        pass
    shutil.rmtree(p, ignore_errors=True)


def _bytes_repr(b):
    return b.hex() if len(b) <= 4096 else 'sha1:' + hashlib.sha1(b).hexdigest() + f':{len(b)}'


def _snapshot(base):
    """everything below base: relative name -> [type, mode, bytes | link target]"""
    out = {}
    for dp, dns, fns in os.walk(base):
        for n in dns + fns:
            p = os.path.join(dp, n)
            st = os.lstat(p)
            rel = os.path.relpath(p, base)
            m = stat.S_IMODE(st.st_mode)
            if stat.S_ISLNK(st.st_mode):
                out[rel] = ['link', os.readlink(p)]
            elif stat.S_ISDIR(st.st_mode):
                out[rel] = ['dir', m]
            elif stat.S_ISREG(st.st_mode):
                with open(p, 'rb') as f:
                    out[rel] = ['file', m, _bytes_repr(f.read())]
            else:
                out[rel] = ['other', m]
    return out


def _node(path):
    """what is at the path, as the model sees it"""
    try:
        st = os.lstat(path)
    except OSError:
        return {'k': 'absent'}
    if stat.S_ISLNK(st.st_mode):
        try:
            st = os.stat(path)
        except OSError:
            return {'k': 'other'}
    if stat.S_ISDIR(st.st_mode):
        return {'k': 'dir'}
    if stat.S_ISREG(st.st_mode):
        with open(path, 'rb') as f:
            return {'k': 'file', 'content': f.read().hex()}
    return {'k': 'other'}


def _build_world(base, world, prior, cleanup):
    """create the world below `base` (`prior`: bytes of the file at the target, if the world has one); appends what
    has to be undone to `cleanup`; returns (path, cleanup)"""
    os.makedirs(base)
    os.chmod(base, 0o777)
    d = os.path.join(base, 'd')
    os.makedirs(d)
    os.chmod(d, 0o777)
    path = os.path.join(d, 'out.torrent')
    with open(os.path.join(d, 'sibling'), 'wb') as f:
        f.write(b'sibling')
    if world in ('file', 'file-long', 'file-empty', 'ro-file', 'ro-dir-file', 'hidden-file'):
        with open(path, 'wb') as f:
            f.write(prior)
        os.chmod(path, 0o444 if world == 'ro-file' else 0o644)
    elif world == 'symlink-file':
        with open(os.path.join(d, 'real.bin'), 'wb') as f:
            f.write(prior)
        os.symlink('real.bin', path)
    elif world == 'dir':
        os.makedirs(path)
        with open(os.path.join(path, 'keep'), 'wb') as f:
            f.write(b'k')
    elif world == 'emptydir':
        os.makedirs(path)
    elif world == 'noparent':
        path = os.path.join(d, 'missing', 'out.torrent')
    elif world == 'parentfile':
        path = os.path.join(d, 'sibling', 'out.torrent')
    elif world == 'symlink-loop':
        os.symlink('out.torrent', path)
    elif world == 'dangling-link':
        os.symlink(os.path.join('missing', 'x'), path)
    elif world == 'name-too-long':
        path = os.path.join(d, 'n' * 300)
    elif world == 'socket':
        s = socket.socket(socket.AF_UNIX)
        s.bind(path)
        cleanup.append(s.close)
    elif world == 'busy-exe':
        exe = shutil.which('sleep')
        if not exe:
            return None, cleanup
        shutil.copy(exe, path)
        os.chmod(path, 0o755)
        pr = subprocess.Popen([path, '30'], stdin=subprocess.DEVNULL, stdout=subprocess.DEVNULL, stderr=subprocess.DEVNULL)
        cleanup.append(lambda: (pr.kill(), pr.wait()))
    elif world == 'devnull-link':
        # a *private* character device node (1:3 = null) in the scratch directory, never the system's /dev/null:
        # a change under test that resolves the link and removes or replaces its target must not be able to damage
        # the machine (and on a machine whose /dev/null has been replaced by a regular file the world would be a
        # file every process writes to).  No "full" device (1:7): reading it never ends.
        try:
            os.mknod(os.path.join(d, 'chardev'), 0o666 | stat.S_IFCHR, os.makedev(1, 3))
        except OSError:
            return None, cleanup
        os.symlink('chardev', path)
    elif world in ('dotdot-absent', 'dotdot-file'):
        store = os.path.join(base, 'store')
        os.makedirs(os.path.join(store, 'inbox'))
        os.chmod(store, 0o777)
        os.symlink(os.path.join(os.pardir, 'store', 'inbox'), os.path.join(d, 'inbox'))
        if world == 'dotdot-absent':
            with open(os.path.join(d, 'out.torrent'), 'wb') as f:      # at the lexically normalised location
                f.write(b'precious')
        else:
            with open(os.path.join(store, 'out.torrent'), 'wb') as f:
                f.write(prior)
        path = os.path.join(d, 'inbox', os.pardir, 'out.torrent')
    if world in ('ro-dir-file', 'ro-dir-absent'):
        os.chmod(d, 0o555)
    elif world == 'hidden-file':
        os.chmod(d, 0o600)
    return path, cleanup


def _world_ok(world, prior, node, snap):
    """read-back of the prepared world: is at the path what the world says, and is the directory as built?"""
    if snap.get(os.path.join('d', 'sibling'), [None, None, None])[2:] != [b'sibling'.hex()]:
        return False
    if world in ('file', 'file-long', 'file-empty', 'symlink-file', 'ro-file', 'ro-dir-file', 'hidden-file', 'dotdot-file'):
        return node == {'k': 'file', 'content': prior.hex()}
    if world in ('absent', 'noparent', 'parentfile', 'name-too-long', 'ro-dir-absent', 'dotdot-absent'):
        return node == {'k': 'absent'}
    if world in ('dir', 'emptydir'):
        return node == {'k': 'dir'}
    if world == 'busy-exe':
        return node['k'] == 'file'
    return node == {'k': 'other'}


def _probe_open_fails(path):
    """side-effect-free: does opening the existing path for writing fail?  None = cannot tell"""
    try:
        fd = os.open(path, os.O_WRONLY | os.O_NONBLOCK)
    except OSError:
        return True
    os.close(fd)
    return False


def _result(torf, fn):
    try:
        fn()
        return ['ok', None]
    except RecursionError:
        return ['err', 'internal:RecursionError']
    except Exception as e:  # noqa
        return ['err', c07.err_kind(torf, e)]


def _run_file(torf, cd, c, t, obs):
    world, fault = c['world'], c.get('fault')
    _, open_err, nobody, quota = FILE_WORLDS[world]
    base = os.path.join(cd, 'tgt')                      # `cd`: a fresh directory for this case only
    pname = c.get('prior') or FILE_WORLDS[world][0]
    prior = prior_bytes(pname, obs['base'], torf, c['md']) if pname else b''
    cleanup = []
    try:
        path, _ = _build_world(base, world, prior, cleanup)
        if path is None:
            obs['unavailable'] = 'world cannot be built here'
            return
        if world == 'hidden-file' and os.geteuid() != 0:
            obs['unavailable'] = 'an unprivileged harness cannot look into the unsearchable directory itself'
            return
        before_node, before = _node(path), _snapshot(base)
        if not _world_ok(world, prior, before_node, before):
            # never judge a world that is not what it was meant to be (disk full, limits, foreign clean-up, …)
            obs['unavailable'] = 'the prepared world did not read back as built'
            return
        ident = _Identity(nobody)
        with ident:
            exists_ans = os.path.exists(path)
            probe = _probe_open_fails(path) if before_node['k'] != 'absent' and world != 'hidden-file' else None
        if probe is not None and probe != open_err:
            obs['unavailable'] = f'platform does not behave as the world expects (open fails: {probe})'
            return
        if fault is not None and fault['kind'] == 'open':
            open_err = True
        if fault is not None and fault['kind'] in ('fsize', 'write'):
            quota = fault['k']
        obs['env'] = {'existsAns': exists_ans, 'openErr': open_err, 'closeErr': bool(fault and fault['kind'] == 'close')}
        if quota is not None:
            obs['env']['quota'] = quota
        try:
            with _PatchedOpen(path, fault):
                with ident, _FsizeLimit(fault['k'] if fault and fault['kind'] == 'fsize' else None):
                    obs['result'] = _result(torf, lambda: t.write(path, validate=c['validate'], overwrite=c['overwrite']))
        finally:
            _restore_process()
        after = _snapshot(base)
        obs['before'], obs['after'] = before_node, _node(path)
        tname = os.path.join('store', 'out.torrent') if world.startswith('dotdot-') else os.path.relpath(path, base)
        mine = {tname, os.path.join('d', 'real.bin')} if world == 'symlink-file' else {tname}
        obs['others_changed'] = sorted(k for k in set(before) | set(after)
                                       if k not in mine and before.get(k) != after.get(k))[:5]
        obs['entry'] = [{k: before.get(k) for k in sorted(mine)}, {k: after.get(k) for k in sorted(mine)}]
    finally:
        _restore_process()
        for fn in cleanup:
            try:
                fn()
            except Exception:  # noqa
                pass


PENDING_TEXT = b'stale text\n'


def _open_stream(cd, kind, prior, pos):
    """returns (stream, finish) where finish() -> (content bytes | None, pos | None) and releases everything"""
    parts = kind.split(':')
    if parts[0] == 'bytesio':
        s = io.BytesIO(prior)
        s.seek(pos)
        return s, lambda: (s.getvalue(), s.tell())
    if parts[0] == 'stringio':
        s = io.StringIO(prior.decode('latin-1'))
        s.seek(pos)
        return s, lambda: (s.getvalue().encode('latin-1'), None)
    if parts[0] == 'sink':
        s = Sink(prior)
        return s, lambda: (bytes(s.buf), None)
    if parts[0] in ('file', 'text'):
        mode = parts[1]
        p = os.path.join(cd, 'stream.bin')
        with open(p, 'wb') as f:
            f.write(prior if mode[0] != 'w' else b'')
        kw = {'buffering': 0} if parts[-1] == '0' else {}
        if parts[0] == 'text':
            kw.update(encoding='latin-1', newline='')
        s = open(p, mode, **kw)
        if mode[0] == 'w':
            s.write(prior)
            s.flush()
        s.seek(min(pos, len(prior)) if parts[0] == 'text' else pos)

        def finish():
            try:
                tell = s.tell() if parts[0] == 'file' else None
            except (OSError, ValueError):
                tell = None
            try:
                s.close()
            except OSError:
                pass
            with open(p, 'rb') as f:
                return f.read(), tell
        return s, finish
    if parts[0] in ('pipe', 'brokenpipe'):
        r, w = os.pipe()
        os.set_blocking(w, False)
        s = os.fdopen(w, 'wb', **({'buffering': 0} if parts[-1] == '0' else {}))
        if parts[0] == 'brokenpipe':
            os.close(r)

            def finish():
                try:
                    s.close()
                except OSError:
                    pass
                return None, None
            return s, finish
        s.write(prior)
        s.flush()

        def finish():
            try:
                s.close()
            except OSError:
                pass
            chunks = []
            with os.fdopen(r, 'rb') as rf:
                while True:
                    b = rf.read(65536)
                    if not b:
                        break
                    chunks.append(b)
            return b''.join(chunks), None
        return s, finish
    raise ValueError(kind)


def _run_stream(torf, cd, c, t, obs):
    kind, fault = c['stream'], c.get('fault')
    prior = prior_bytes(c['prior'], obs['base'], torf, c['md']) if not kind.startswith('brokenpipe') else b''
    pos = position(c['pos'], prior)
    obs['prior'], obs['pos0'] = prior.hex(), pos
    inner, finish = _open_stream(cd, kind, prior, pos)
    s = inner
    wrapped = fault is not None and 'fsize' not in fault
    if wrapped:
        s = Faulty(inner, at=fault.get('at'), quota=fault.get('quota'), short=fault.get('short', False))
    ok = True
    if kind.startswith(('file', 'text')):
        inner.flush()
        with open(os.path.join(cd, 'stream.bin'), 'rb') as f:       # read-back of the prepared stream
            ok = f.read() == prior
    try:
        if ok and kind.endswith(':pending'):
            inner.write(PENDING_TEXT.decode('latin-1'))                 # no flush
        if ok:
            with _FsizeLimit(fault['fsize'] if fault and 'fsize' in fault else None):
                obs['result'] = _result(torf, lambda: t.write_stream(s, validate=c['validate']))
    finally:
        _restore_process()
        content, tell = finish()
    if not ok:
        obs['unavailable'] = 'the prepared stream did not read back as built'
        return
    obs['content'] = None if content is None else content.hex()
    obs['pos'] = tell
    obs['calls'] = s.calls if wrapped else None


def _run_chunk(cases):
    torf = common.import_torf()
    wd = common.worker_dir()
    _remember_process()
    signal.signal(signal.SIGALRM, _on_alarm)
    out = []
    for n, c in enumerate(cases):
        obs = {}
        cd = os.path.join(wd, f'case-{os.getpid()}-{n}')          # nothing is shared between two cases
        try:
            _rmtree(cd)
            os.makedirs(cd)
            os.chmod(cd, 0o755)
            signal.alarm(CASE_TIMEOUT)
            t = c07.fresh(torf, c['md'])
            try:
                obs['dump'] = ['ok', c07.fresh(torf, c['md']).dump(validate=c['validate']).hex()]
            except RecursionError:
                obs['dump'] = ['err', 'internal:RecursionError']
            except Exception as e:  # noqa
                obs['dump'] = ['err', c07.err_kind(torf, e)]
            base = bytes.fromhex(obs['dump'][1]) if obs['dump'][0] == 'ok' else None
            if base is None:
                try:
                    base = c07.fresh(torf, c['md']).dump(validate=False)
                except Exception:  # noqa
                    base = OLD
            obs['base'] = base
            if c['target'] == 'file':
                _run_file(torf, cd, c, t, obs)
            else:
                _run_stream(torf, cd, c, t, obs)
            del obs['base']
        except _CaseTimeout:
            obs = {'timeout': CASE_TIMEOUT, 'dump': obs.get('dump')}
        except Exception as e:  # noqa
            obs = {'harness-error': f'{type(e).__name__}: {e}'}
        finally:
            signal.alarm(0)
            _restore_process()
            _rmtree(cd)
        out.append((c, obs))
    return out


# ---------------------------------------------------------------------------------------------------------
# generator
def _stream_model(c, obs):
    """the model's stream object for a case (prior content and position as the worker resolved them)"""
    flags = dict(STREAM_KINDS[c['stream']])
    prior = bytes.fromhex(obs['prior'])
    seekable = flags.get('seekable', True)
    pos = obs['pos0'] if seekable else 0
    if c['stream'].startswith('text'):
        pos = min(pos, len(prior))
    if c['stream'].endswith(':pending'):
        if flags.get('append'):
            prior, pos = prior + PENDING_TEXT, len(prior) + len(PENDING_TEXT)
        else:
            prior = prior[:pos] + PENDING_TEXT + prior[pos + len(PENDING_TEXT):]
            pos += len(PENDING_TEXT)
    s = {'content': prior.hex(), 'pos': pos, **flags}
    f = c.get('fault') or {}
    if 'at' in f:
        s['faultAt'] = f['at']
    if 'quota' in f:
        s['quota'] = f['quota']
    if f.get('short'):
        s['short'] = True
    if 'fsize' in f:        # a raw file under RLIMIT_FSIZE = k: write() takes k bytes and returns k; raises only if k = 0
        s['quota'] = f['fsize']
        s['short'] = f['fsize'] > 0
    return s


def file_worlds():
    """every (world, prior, fault) the sweep plays; prior None = the world's own fixed prior content"""
    out = [(w, None, None) for w in FILE_WORLDS]
    for w in FAULTABLE:
        out += [(w, None, {'kind': 'open', 'errno': e}) for e in OPEN_ERRNOS]
        out += [(w, None, {'kind': 'write', 'k': k}) for k in QUOTAS]
        out += [(w, None, {'kind': 'fsize', 'k': k}) for k in QUOTAS]
        out += [(w, None, {'kind': 'close'})]
    out += [('devnull-link', None, {'kind': 'close'}), ('devnull-link', None, {'kind': 'write', 'k': 0}),
            ('devnull-link', None, {'kind': 'write', 'k': 17}), ('dir', None, {'kind': 'open', 'errno': 'EACCES'}),
            ('emptydir', None, {'kind': 'open', 'errno': 'EACCES'}),
            ('symlink-loop', None, {'kind': 'open', 'errno': 'EACCES'}), ('ro-file', None, {'kind': 'write', 'k': 1})]
    # prior content derived from the new content
    for w in ('file', 'symlink-file'):
        out += [(w, p, None) for p in DERIVED]
    for p in ('eq', 'plus:1', 'prefix:half', 'samelen', 'prev:comment'):
        out += [('file', p, {'kind': 'open', 'errno': 'EACCES'}), ('file', p, {'kind': 'write', 'k': 1}),
                ('file', p, {'kind': 'fsize', 'k': 17}), ('file', p, {'kind': 'close'}), ('ro-file', p, None),
                ('hidden-file', p, None)]
    return out


MAIN_SEEKABLE = ('bytesio', 'file:r+b', 'file:ab', 'file:a+b', 'file:w+b')


def stream_worlds():
    """every (kind, prior, pos, fault) the sweep plays; pos is a number or one of POSITIONS"""
    out = []
    for kind, flags in STREAM_KINDS.items():
        seekable = flags.get('seekable', True)
        for prior in PRIORS:
            n = len(PRIORS[prior])
            poss = sorted({0, 1, n // 2, n, n + 5}) if seekable else [0]
            if kind.startswith('brokenpipe') and prior != 'empty':
                continue
            for pos in poss:
                out.append((kind, prior, pos, None))
        # prior content derived from the new content, at every position
        if kind.startswith('brokenpipe'):
            continue
        poss = POSITIONS if kind in MAIN_SEEKABLE else ('0', 'end') if seekable else ('0',)
        out += [(kind, prior, pos, None) for prior in DERIVED for pos in poss]
    for kind in FAULTY_INNER:
        seekable = STREAM_KINDS[kind].get('seekable', True)
        for prior in ('short', 'long'):
            n = len(PRIORS[prior])
            for pos in ([0, 3, n] if seekable else [0]):
                for f in STREAM_FAULTS:
                    out.append((kind, prior, pos, f))
        for prior in ('eq', 'plus:1'):
            for pos in (('0', 'end') if seekable else ('0',)):
                for f in STREAM_FAULTS:
                    out.append((kind, prior, pos, f))
    for kind in RAW_FILE_KINDS:
        for prior in ('short', 'long', 'plus:many'):
            for k in RAW_FSIZE:
                out.append((kind, prior, 3, {'fsize': k}))
    return out


def _mk(m, rng, **kw):
    c = {'md': m['md'], 'labels': m['labels'], 'validate': m.get('validate', True)}
    c.update(kw)
    return c


def typical_md(npieces):
    """what a torrent made by a client looks like (all the optional top-level keys)"""
    K = c07.K
    info = [('name', R.S('payload.bin')), ('piece length', R.I(K)), ('length', R.I(npieces * K - 7)),
            ('pieces', R.Y(c07.pieces_for(npieces * K - 7, K)))]
    return R.D([('announce', R.S('http://tracker.example.org:8080/announce')), ('comment', R.S('a comment')),
                ('created by', R.S('torf')), ('creation date', R.I(1600000000)), ('info', R.D(info))])


def sweep_mds(rng, extra=0):
    """a handful of metainfos for the exhaustive world sweep: valid ones of different size, an invalid one, an
    unconvertible one (passes validate()), one outside PyVal (+ `extra` more: valid and mutated alternately)"""
    fixed = {m['labels'][0]: m for m in c07.fixed_cases()}
    mds = [{'md': c07.base_metainfo(rng, multi=False), 'labels': ['base-single']},
           {'md': c07.base_metainfo(rng, multi=True), 'labels': ['base-multi']},
           {'md': typical_md(1), 'labels': ['typical']},            # announce, comment, creation date, created by
           {'md': typical_md(500), 'labels': ['typical-big'],       # dump() of about 10 KiB: worlds whose prior content
            'derived_only': True},                                  # is derived from it only
           dict(fixed['pieces-39-bytes'], validate=False)]          # dump(validate=False) succeeds
    mds += [fixed['pieces-39-bytes'], fixed['inf-value'], fixed['cyclic-list']]
    for i in range(extra):
        if i % 2 == 0:
            mds.append({'md': c07.base_metainfo(rng), 'labels': [f'base-{i}'], 'validate': rng.random() < 0.8})
        else:
            mds.append(dict(c07.gen_case(rng, outside=i % 8 == 7), validate=rng.random() < 0.8))
    return mds


def random_world(rng, c):
    if rng.random() < 0.5:
        w, p, f = rng.choice(FILE_WORLD_LIST)
        c.update(target='file', world=w, overwrite=rng.random() < 0.6)
        if p is not None:
            c['prior'] = p
        if f is not None:
            c['fault'] = f
    else:
        k, p, pos, f = rng.choice(STREAM_WORLD_LIST)
        c.update(target='stream', stream=k, prior=p, pos=pos)
        if f is not None:
            c['fault'] = f


FILE_WORLD_LIST = file_worlds()
STREAM_WORLD_LIST = stream_worlds()
SLOW_WORLDS = ('busy-exe',)


def sweep_cases(rng, mds, thin=1.0):
    cases = []
    for m in mds:
        few = m.get('derived_only', False)
        for w, p, f in FILE_WORLD_LIST:
            if few and (p not in DERIVED or w != 'file'):
                continue
            for ov in (False, True):
                if w in SLOW_WORLDS and rng.random() > 0.35 * thin:
                    continue
                if thin < 1.0 and rng.random() > thin:
                    continue
                c = _mk(m, rng, target='file', world=w, overwrite=ov)
                if p is not None:
                    c['prior'] = p
                if f is not None:
                    c['fault'] = f
                cases.append(c)
        for k, p, pos, f in STREAM_WORLD_LIST:
            if few and (p not in DERIVED or k not in ('bytesio', 'file:r+b', 'file:ab') or pos not in ('0', 'end')
                        or f is not None):
                continue
            if thin < 1.0 and rng.random() > thin:
                continue
            c = _mk(m, rng, target='stream', stream=k, prior=p, pos=pos)
            if f is not None:
                c['fault'] = f
            cases.append(c)
    return cases


def gen_cases(ctx, scale=1.0):
    rng = ctx.rng
    # (1) every world on a handful of metainfos
    cases = sweep_cases(rng, sweep_mds(rng, extra=int(ctx.n(0, 60) * scale) if ctx.thorough else 0))
    # (2) every recipe in random worlds
    mds = [c for c in c07.fixed_cases()]
    mds += [c07.gen_case(rng) for _ in range(int(ctx.n(1200, 40000) * scale))]
    mds += [c07.gen_case(rng, outside=True) for _ in range(int(ctx.n(100, 3000) * scale))]
    for m in mds:
        for _ in range(2):
            c = {'md': m['md'], 'labels': m['labels'], 'validate': rng.random() < 0.85}
            random_world(rng, c)
            if c.get('world') in SLOW_WORLDS and rng.random() < 0.8:
                c['world'] = 'ro-file'
            cases.append(c)
    return cases


def load_corpus():
    out = []
    d = os.path.join(common.CORPUS_DIR, 'C17')
    if os.path.isdir(d):
        for fn in sorted(os.listdir(d)):
            if fn.endswith('.json'):
                c = json.load(open(os.path.join(d, fn)))
                c.setdefault('labels', ['corpus:' + fn])
                out.append(c)
    return out


CASE_KEYS = ('md', 'labels', 'validate', 'target', 'world', 'overwrite', 'stream', 'prior', 'pos', 'fault')


def case_public(c):
    return {k: c[k] for k in CASE_KEYS if k in c}


def _cls(x):
    return 'ok' if x[0] == 'ok' else x[1].split(':')[0]


def _res_json(x):
    return {'ok': True} if x[0] == 'ok' else {'err': x[1]}


def _dump_json(x):
    return {'ok': x[1]} if x[0] == 'ok' else {'err': x[1]}


def _short(x, n=160):
    s = x if isinstance(x, str) else json.dumps(x, sort_keys=True)
    return s if len(s) <= n else s[:n] + f'…({len(s)})'


def _why_file(c, obs):
    res, d, before, after = obs['result'], obs['dump'], obs['before'], obs['after']
    failing = res[0] == 'err'
    refused = not c['overwrite'] and obs['env']['existsAns']
    if failing and before['k'] != 'absent' and after['k'] == 'absent':
        return f'write() failed ({res[1]}) and removed what was at the target'
    if refused and res != ['err', 'write']:
        return 'write(overwrite=False) on an existing path did not raise WriteError'
    if refused and after != before:
        return 'write(overwrite=False) modified an existing path'
    if failing and after != before:
        return f'write() failed ({res[1]}) but the target changed'
    if not failing and (d[0] != 'ok' or after != {'k': 'file', 'content': d[1]}):
        return 'write() succeeded but the path does not hold exactly dump()'
    if failing and d[0] == 'err' and res[1] != d[1]:
        return 'write() raised a different error than dump()'
    if failing and d[0] == 'ok' and res[1] != 'write':
        return 'an unwritable target is not reported as WriteError'
    if failing:
        return f'write() failed ({res[1]}) although nothing prevents the export'
    return 'write(): outcome not accepted by the specification'


def _why_stream(c, obs, sm):
    res, d = obs['result'], obs['dump']
    if d[0] == 'err':
        return 'write_stream(): dump failed but the stream was touched / another error was raised'
    if res[0] == 'ok':
        return 'write_stream() succeeded but the stream does not hold ' + (
            'exactly the dumped bytes' if sm.get('seekable', True) else 'its old content followed by the dumped bytes')
    if res[1] != 'write':
        return f'write_stream(): failure of the stream reported as {res[1]}, not WriteError'
    return 'write_stream() failed although the stream has no fault'


MATCHERS = {
    # D17a: only a *raw* stream (write() may return a short count) that took a strict initial segment, and
    # write_stream() nevertheless returned normally with exactly that segment in the stream
    'raw_short_write_ignored': lambda case, observed, f: (
        case.get('target') == 'stream' and bool((case.get('fault') or {}).get('short') or (case.get('fault') or {}).get('fsize'))
        and observed.get('result') == ['ok', None] and observed.get('raw_short_write') is True),
}


class _Rec:
    """what evaluating a batch wants to report; handed to ctx only after the suspects were confirmed"""
    def __init__(self):
        self.viol, self.breaks = [], []

    def violation(self, what, case, expected=None, observed=None, finding_matchers=None):
        self.viol.append((what, case, expected, observed, finding_matchers))

    def corr_break(self, op, case, model, impl):
        self.breaks.append((op, case, model, impl))


CONFIRM = 12


def evaluate(ctx, drv, cases, quiet=False):
    """run the cases, judge them; with quiet=True nothing is counted or reported, the findings are returned.
    Every suspect (violation or disagreement with the model) is run a second time, alone, in a fresh directory and
    a fresh worker, before it is reported: the export code is sequential and deterministic, so an outcome that does
    not repeat is noise from the machine (foreign clean-up of /dev/shm, a full disk, …) and is counted, not alarmed."""
    rec = _Rec()
    _evaluate(ctx, drv, cases, rec, quiet)
    if quiet:
        return rec
    keyof = lambda case: json.dumps(case, sort_keys=True)   # noqa
    suspects, seen = [], set()
    for item in rec.viol + rec.breaks:
        k = keyof(item[1])
        if k not in seen:
            seen.add(k)
            suspects.append(item[1])
    confirmed = set()
    if suspects:
        again = [dict(c, labels=c.get('labels', ['rerun'])) for c in suspects[:CONFIRM]]
        rec2 = evaluate(ctx, drv, again + again[:1], quiet=True)       # two chunks at least: forces worker processes
        confirmed = {keyof(item[1]) for item in rec2.viol + rec2.breaks}
        unverified = {keyof(c) for c in suspects[CONFIRM:]} if confirmed else set()
        for c in suspects[:CONFIRM]:
            if keyof(c) not in confirmed:
                ctx.dist['suspect-not-reproduced-on-rerun'] += 1
                ctx.notes.setdefault('not_reproduced', [])
                if len(ctx.notes['not_reproduced']) < 5:
                    ctx.notes['not_reproduced'].append({k: v for k, v in c.items() if k != 'md'})
        confirmed |= unverified
    for what, case, expected, observed, fm in rec.viol:
        if keyof(case) in confirmed:
            ctx.violation(what, case, expected, observed, finding_matchers=fm)
    for op, case, model, impl in rec.breaks:
        if keyof(case) in confirmed:
            ctx.corr_break(op, case, model, impl)
    return rec


class _Quiet:
    """stands in for ctx during a confirmation re-run"""
    def __init__(self, ctx):
        self.rng, self.evaluations, self.samples = ctx.rng, 10 ** 9, [None] * 99
        self.dist = __import__('collections').Counter()

    def case(self, **kw):
        pass

    def sample(self, *a, **kw):
        pass

    def machinery_error(self, *a, **kw):
        pass


def _evaluate(ctx, drv, cases, rec, quiet):
    results = common.pmap(_run_chunk, common.split(cases, common.NPROC * 4))
    flat = [x for chunk in results for x in chunk]
    if quiet:
        ctx = _Quiet(ctx)
    reqs = []
    for c, obs in flat:
        if 'harness-error' in obs or 'unavailable' in obs or 'timeout' in obs:
            reqs += [{'op': 'ping'}, {'op': 'ping'}]
            continue
        if c['target'] == 'file':
            judge = {'op': 'c17.judge.write', 'dump': _dump_json(obs['dump']), 'overwrite': c['overwrite'],
                     'node': obs['before'], 'env': obs['env'], 'result': _res_json(obs['result']),
                     'nodeAfter': obs['after']}
            model = {'op': 'c17.write', 'overwrite': c['overwrite'], 'node': obs['before'], 'env': obs['env']}
        else:
            sm = _stream_model(c, obs)
            judge = {'op': 'c17.judge.stream', 'dump': _dump_json(obs['dump']), 'stream': sm,
                     'result': _res_json(obs['result']),
                     'contentAfter': obs['content'] if obs['content'] is not None else sm['content']}
            if obs['pos'] is not None:
                judge['posAfter'] = obs['pos']
            if obs['calls'] is not None:
                judge['callsAfter'] = obs['calls']
            model = {'op': 'c17.stream', 'stream': sm}
        if R.in_domain(c['md']):
            model.update(md=R.to_driver(c['md']), urls=c07.url_table(c['md']), validate=c['validate'])
        else:
            model = {'op': 'ping'}
        reqs += [judge, model]
    replies = drv.run(reqs)
    for i, (c, obs) in enumerate(flat):
        jrep, rep = replies[2 * i], replies[2 * i + 1]
        case = case_public(c)
        if 'harness-error' in obs:
            ctx.case(kind='harness-error')
            ctx.machinery_error('harness could not run the case: ' + obs['harness-error'], case)
            continue
        if 'unavailable' in obs:
            ctx.dist['unavailable:' + (c.get('world') or c.get('stream') or '?')] += 1
            continue
        if 'timeout' in obs:
            ctx.case(kind='timeout')
            rec.violation(f"the export did not return within {obs['timeout']} s", case, 'write()/write_stream() returns or raises',
                          {'timeout': obs['timeout'], 'dump': _short(obs.get('dump'))})
            continue
        res, d = obs['result'], obs['dump']
        failing = res[0] == 'err'
        key = hashlib.sha1(json.dumps(case, sort_keys=True).encode()).hexdigest()
        where = c.get('world') or c.get('stream')
        fk = c.get('fault')
        fkind = '' if fk is None else '+' + (fk.get('kind') or ('short' if fk.get('short') else 'fsize' if 'fsize' in fk else 'at' if 'at' in fk else 'quota'))
        ctx.case(key=key, nontrivial=failing or c['target'] == 'stream' or obs['before']['k'] != 'absent',
                 kind=f"{c['target']}:{where}{fkind}:{'fail' if failing else 'ok'}")
        ctx.dist['dump:' + (d[1].split(':')[0] if d[0] == 'err' else 'ok')] += 1
        if ctx.evaluations in (1, 2, 3) or (len(ctx.samples) < 6 and ctx.rng.random() < 0.002):
            ctx.sample({'case': {k: v for k, v in case.items() if k != 'md'}, 'labels': c['labels'],
                        'result': res, 'dump': [d[0], str(d[1])[:40]]})
        # ---- I ∈ S : the Lean specification judges what the implementation did ------------------
        if c['target'] == 'file':
            before, after = obs['before'], obs['after']
            observed = {'result': res, 'after': _short(after), 'env': obs['env']}
            if not jrep['accepted']:
                rec.violation(_why_file(c, obs), case, {'before': _short(before), 'dump': _short(d), 'spec': 'fileSpec'},
                              observed)
            if obs['others_changed'] and failing:
                rec.violation(f'write() failed ({res[1]}) but left a trace next to the target', case,
                              'nothing else in the directory changes', {**observed, 'changed': obs['others_changed']})
            if failing and after == before and obs['entry'][0] != obs['entry'][1]:
                rec.violation(f'write() failed ({res[1]}) but the type/mode of the target changed', case,
                              _short(obs['entry'][0]), {**observed, 'entry': _short(obs['entry'][1])})
        else:
            sm = _stream_model(c, obs)
            if not jrep['accepted']:
                part = None
                if d[0] == 'ok' and sm.get('short') and obs['content'] is not None:
                    part = (('' if sm.get('seekable', True) else sm['content']) + d[1][:2 * sm['quota']]) == obs['content'] \
                        and 2 * sm['quota'] < len(d[1])
                rec.violation(_why_stream(c, obs, sm), case,
                              {'stream': _short(sm), 'dump': _short(d), 'spec': 'streamSpec'},
                              {'result': res, 'content': _short(obs['content'] or ''), 'pos': obs['pos'],
                               'calls': obs['calls'], 'raw_short_write': part}, finding_matchers=MATCHERS)
        # ---- model ------------------------------------------------------------------------------
        if not R.in_domain(c['md']):
            ctx.dist['outside-PyVal'] += 1
            continue
        if not rep['specOk'] and rep.get('partialHyp', True):
            ctx.machinery_error('model result violates the executable specification although C17_*_meets_spec are proved', case)
        if not rep['hyp']:
            ctx.dist['outside-hyp'] += 1
            continue
        mres = rep['result']
        mcls = 'ok' if 'ok' in mres else mres['err'].split(':')[0]
        same = mcls == _cls(res) and ('ok' in mres or mres['err'] == res[1] or mcls != 'internal')
        if c['target'] == 'file':
            same = same and rep['node'] == obs['after']
            if same and obs['others_changed']:
                same = False
        else:
            if obs['content'] is not None:
                same = same and rep['content'] == obs['content']
            if same and obs['pos'] is not None:
                same = rep['pos'] == obs['pos']
        if not same:
            rec.corr_break('c17.' + c['target'], case,
                           {'result': mres, 'node': _short(rep.get('node')), 'content': _short(rep.get('content')),
                            'pos': rep.get('pos')},
                           {'result': res, 'after': _short(obs.get('after')), 'content': _short(obs.get('content')),
                            'pos': obs.get('pos'), 'others_changed': obs.get('others_changed')})


def _batches(ctx, drv, cases):
    for i in range(0, len(cases), 40000):
        evaluate(ctx, drv, cases[i:i + 40000])


def run(ctx, drv):
    ctx.notes['rule'] = RULE
    ctx.notes['assumptions'] = [
        'the content producer is the C07 model of dump(); its assumptions (numbers < 2^53, depth <= 100, URL oracle) apply; '
        'the specification is evaluated with what dump() really returned, for every case (also outside PyVal / hyp)',
        'file system = the one path write() is given plus the operating system\'s answers to exists/open/write/close; '
        'node and exists() are observed, "open fails" is what the world is built to provoke (cross-checked with a '
        'side-effect-free O_WRONLY probe where the path exists); worlds the platform cannot provide are skipped and counted',
        'permission denials are real (effective uid 65534 while the export runs) if the harness is root or the files are its own; '
        'write-time faults are real (RLIMIT_FSIZE -> EFBIG after k bytes, a private 1:7 "full" device node -> ENOSPC) and injected '
        '(builtins.open patched for the target path only: errno at open, OSError after k bytes, OSError at close)',
        'a fault during the final write (after open() succeeded) may leave an initial segment of the new content: '
        'demanded is only that nothing is removed and nothing else appears (see notes/C17.md)',
        'stream semantics: seek/truncate/write of BytesIO and of files incl. O_APPEND, read-only, text mode; a non-seekable '
        'stream is a sink that appends; fault plan = the k-th of the calls seekable/seek/truncate/write raises OSError, '
        'write raises after q bytes',
    ]
    _batches(ctx, drv, load_corpus() + gen_cases(ctx))


def search(ctx, drv):
    """model and implementation disagree somewhere but no outcome was rejected so far: (1) keep each disagreeing
    case's metainfo and play every world on it, keep its world and play many metainfos in it; (2) larger random run"""
    rng = ctx.rng
    seen = []
    for b in ctx.corr_breaks[:8]:
        c = b['case']
        if any(c['md'] == s for s in seen):
            continue
        seen.append(c['md'])
        m = {'md': c['md'], 'labels': c.get('labels', ['search'])}
        cases = sweep_cases(rng, [m])
        for v in (True, False):
            for m2 in c07.fixed_cases() + [c07.gen_case(rng) for _ in range(150)]:
                c2 = dict(c)
                c2.update(md=m2['md'], labels=m2['labels'], validate=v)
                cases.append(c2)
        _batches(ctx, drv, cases)
        if ctx.violations:
            return
    _batches(ctx, drv, gen_cases(ctx, scale=2.0))


def replay(ctx, drv, rp):
    c = dict(rp['case'])
    c.setdefault('labels', ['replay'])
    evaluate(ctx, drv, [c])
    return {'fails': bool(ctx.violations or ctx.corr_breaks), 'violations': ctx.violations, 'corr_breaks': ctx.corr_breaks}
