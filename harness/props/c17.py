"""
C17 — a failed or refused export leaves no trace.

Cases = metainfo recipes of C07's generator (every failing class + valid ones) × target
(absent | existing file | directory | missing parent directory) × overwrite × validate flag, and
streams (BytesIO with prior content at an odd position, non-seekable sink, stream whose write()
raises OSError, real file object).  Observable: error kind, and the bytes/existence of the target
afterwards.  Specification (checked on the implementation directly):
  error  => target byte for byte as before;  no overwrite + exists => WriteError;
  ok     => target holds exactly dump();  stream: untouched unless dump() succeeded,
            seekable => content = dump, non-seekable => old ++ dump.
The Lean model `Torf.Write` (instantiated with C07's `dump`) is compared under hyp.
"""
import errno
import hashlib
import io
import json
import os
import shutil

from harness import common
from harness.impl import recipes as R
from harness.props import c07

RULE = ('metainfo recipes from the C07 generator (valid + 1..3 mutations; every validation rule and unconvertible '
        'values) x target absent/file/directory/missing-parent x overwrite x validate flag; streams: BytesIO with '
        'prior content and odd position, non-seekable sink, failing write(), real file object; non-trivial = the '
        'export fails or the target/stream has prior content; distinct = distinct (recipe, target, flags)')
OLD = b'OLD-CONTENT-0123456789'


class Sink:
    """non-seekable writable"""
    def __init__(self, prior, fail=False):
        self.buf = bytearray(prior)
        self.fail = fail

    def seekable(self):
        return False

    def write(self, b):
        if self.fail:
            raise OSError(errno.ENOSPC, 'No space left on device')
        self.buf += b
        return len(b)


class FailingBytesIO(io.BytesIO):
    def write(self, b):
        raise OSError(errno.ENOSPC, 'No space left on device')


def _node(path):
    if os.path.isdir(path):
        return {'k': 'dir'}
    if os.path.lexists(path):
        with open(path, 'rb') as f:
            return {'k': 'file', 'content': f.read().hex()}
    return {'k': 'absent'}


def _run_chunk(cases):
    torf = common.import_torf()
    wd = common.worker_dir()
    out = []
    for c in cases:
        obs = {}
        try:
            t = c07.fresh(torf, c['md'])
            try:
                obs['dump'] = ['ok', c07.fresh(torf, c['md']).dump(validate=c['validate']).hex()]
            except RecursionError:
                obs['dump'] = ['err', 'internal:RecursionError']
            except Exception as e:  # noqa
                obs['dump'] = ['err', c07.err_kind(torf, e)]
            if c['target'] == 'file':
                base = os.path.join(wd, 'tgt')
                shutil.rmtree(base, ignore_errors=True)
                os.makedirs(base)
                path = os.path.join(base, 'out.torrent')
                if c['node'] == 'file':
                    with open(path, 'wb') as f:
                        f.write(OLD)
                elif c['node'] == 'dir':
                    os.makedirs(path)
                    with open(os.path.join(path, 'keep'), 'wb') as f:
                        f.write(b'k')
                elif c['node'] == 'noparent':
                    path = os.path.join(base, 'missing', 'out.torrent')
                elif c['node'] == 'parentfile':
                    with open(os.path.join(base, 'pf'), 'wb') as f:
                        f.write(b'p')
                    path = os.path.join(base, 'pf', 'out.torrent')
                before = _node(path)
                listing_before = sorted(os.listdir(base))
                try:
                    t.write(path, validate=c['validate'], overwrite=c['overwrite'])
                    obs['result'] = ['ok', None]
                except RecursionError:
                    obs['result'] = ['err', 'internal:RecursionError']
                except Exception as e:  # noqa
                    obs['result'] = ['err', c07.err_kind(torf, e)]
                obs['before'], obs['after'] = before, _node(path)
                obs['listing_same'] = listing_before == sorted(os.listdir(base))
            else:
                prior, pos = OLD, c['pos']
                kind = c['stream']
                fobj = None
                if kind == 'bytesio':
                    s = io.BytesIO(prior)
                    s.seek(pos)
                elif kind == 'failing':
                    s = FailingBytesIO(prior)
                    s.seek(pos)
                elif kind == 'sink':
                    s = Sink(prior)
                elif kind == 'failing-sink':
                    s = Sink(prior, fail=True)
                else:
                    p = os.path.join(wd, 'stream.bin')
                    with open(p, 'wb') as f:
                        f.write(prior)
                    s = fobj = open(p, 'r+b')
                    s.seek(pos)
                try:
                    t.write_stream(s, validate=c['validate'])
                    obs['result'] = ['ok', None]
                except RecursionError:
                    obs['result'] = ['err', 'internal:RecursionError']
                except Exception as e:  # noqa
                    obs['result'] = ['err', c07.err_kind(torf, e)]
                if kind in ('sink', 'failing-sink'):
                    obs['content'] = bytes(s.buf).hex()
                    obs['pos'] = None
                elif fobj is not None:
                    obs['pos'] = fobj.tell()
                    fobj.close()
                    with open(p, 'rb') as f:
                        obs['content'] = f.read().hex()
                else:
                    obs['content'] = s.getvalue().hex()
                    obs['pos'] = s.tell()
        except Exception as e:  # noqa
            obs = {'harness-error': f'{type(e).__name__}: {e}'}
        out.append((c, obs))
    return out


def gen_cases(ctx, scale=1.0):
    rng = ctx.rng
    mds = [c for c in c07.fixed_cases()]
    mds += [c07.gen_case(rng) for _ in range(int(ctx.n(1200, 40000) * scale))]
    mds += [c07.gen_case(rng, outside=True) for _ in range(int(ctx.n(100, 3000) * scale))]
    cases = []
    for i, m in enumerate(mds):
        for _ in range(2):
            c = {'md': m['md'], 'labels': m['labels'], 'validate': rng.random() < 0.85}
            if rng.random() < 0.55:
                c.update(target='file', node=rng.choice(['absent', 'file', 'file', 'dir', 'noparent', 'parentfile']),
                         overwrite=rng.random() < 0.5)
            else:
                c.update(target='stream', stream=rng.choice(['bytesio', 'bytesio', 'sink', 'failing', 'failing-sink', 'realfile']),
                         pos=rng.choice([0, 1, 3, 7, len(OLD), len(OLD) + 5]))
            cases.append(c)
    return cases


def case_public(c):
    return {k: c[k] for k in ('md', 'labels', 'validate', 'target', 'node', 'overwrite', 'stream', 'pos') if k in c}


def _cls(x):
    return 'ok' if x[0] == 'ok' else x[1].split(':')[0]


def evaluate(ctx, drv, cases):
    results = common.pmap(_run_chunk, common.split(cases, common.NPROC * 4))
    flat = [x for chunk in results for x in chunk]
    reqs = []
    for c, obs in flat:
        if 'harness-error' in obs or not R.in_domain(c['md']):
            reqs.append({'op': 'ping'})
            continue
        req = {'md': R.to_driver(c['md']), 'urls': c07.url_table(c['md']), 'validate': c['validate']}
        if c['target'] == 'file':
            node = {'absent': {'k': 'absent'}, 'file': {'k': 'file', 'content': OLD.hex()}, 'dir': {'k': 'dir'},
                    'noparent': {'k': 'absent'}, 'parentfile': {'k': 'absent'}}[c['node']]
            req.update(op='c17.write', overwrite=c['overwrite'], node=node,
                       parentOk=c['node'] not in ('noparent', 'parentfile'))
        else:
            seekable = c['stream'] in ('bytesio', 'failing', 'realfile')
            req.update(op='c17.stream', seekable=seekable, content=OLD.hex(), pos=c['pos'] if seekable else 0,
                       writeFails=c['stream'] in ('failing', 'failing-sink'))
        reqs.append(req)
    replies = drv.run(reqs)
    for (c, obs), rep in zip(flat, replies):
        case = case_public(c)
        if 'harness-error' in obs:
            ctx.case(kind='harness-error')
            ctx.machinery_error('harness could not run the case: ' + obs['harness-error'], case)
            continue
        res, d = obs['result'], obs['dump']
        failing = res[0] == 'err'
        key = hashlib.sha1(json.dumps(case, sort_keys=True).encode()).hexdigest()
        kind = (c['target'] + ':' + (c.get('node') or c.get('stream')) + ':' + ('fail' if failing else 'ok'))
        ctx.case(key=key, nontrivial=failing or c.get('node') in ('file', 'dir') or c['target'] == 'stream', kind=kind)
        ctx.dist['dump:' + (d[1].split(':')[0] if d[0] == 'err' else 'ok')] += 1
        if ctx.evaluations in (1, 2, 3) or (len(ctx.samples) < 6 and ctx.rng.random() < 0.002):
            ctx.sample({'case': {k: v for k, v in case.items() if k != 'md'}, 'labels': c['labels'],
                        'result': res, 'dump': [d[0], str(d[1])[:40]]})
        # ---- I ∈ S ---------------------------------------------------------------------------
        if c['target'] == 'file':
            before, after = obs['before'], obs['after']
            existed = before['k'] != 'absent'
            if failing and (after != before or not obs['listing_same']):
                ctx.violation(f'write() failed ({res[1]}) but the target changed', case, before, {'after': after, 'result': res})
            if not c['overwrite'] and existed:
                if res != ['err', 'write']:
                    ctx.violation('write(overwrite=False) on an existing path did not raise WriteError', case,
                                  ['err', 'write'], {'result': res})
                if after != before:
                    ctx.violation('write(overwrite=False) modified an existing path', case, before, {'after': after})
            if not failing:
                if d[0] != 'ok' or after != {'k': 'file', 'content': d[1]}:
                    ctx.violation('write() succeeded but the file does not hold exactly dump()', case,
                                  [d[0], str(d[1])[:200]], {'after': str(after)[:300]})
            elif d[0] == 'err' and (c['overwrite'] or not existed) and res[1] != d[1]:
                ctx.violation('write() raised a different error than dump()', case, d, {'result': res})
        else:
            seekable = c['stream'] in ('bytesio', 'failing', 'realfile')
            fails = c['stream'] in ('failing', 'failing-sink')
            if d[0] == 'err':
                if res != d or obs['content'] != OLD.hex():
                    ctx.violation('write_stream(): dump failed but the stream was touched / other error', case,
                                  {'result': d, 'content': OLD.hex()}, {'result': res, 'content': obs['content'][:200]})
                if seekable and obs['pos'] != c['pos']:
                    ctx.violation('write_stream(): dump failed but the stream position moved', case, c['pos'], {'pos': obs['pos']})
            elif fails:
                if res != ['err', 'write']:
                    ctx.violation('write_stream(): OSError from stream.write not reported as WriteError', case,
                                  ['err', 'write'], {'result': res})
            else:
                want = d[1] if seekable else OLD.hex() + d[1]
                if res[0] != 'ok' or obs['content'] != want:
                    ctx.violation('write_stream() succeeded but the stream does not hold the dumped bytes', case,
                                  want[:200], {'result': res, 'content': obs['content'][:200]})
        # ---- model ---------------------------------------------------------------------------
        if not R.in_domain(c['md']):
            ctx.dist['outside-PyVal'] += 1
            continue
        if not rep['specOk']:
            ctx.machinery_error('model result violates the executable specification although C17_* are proved', case)
        if not rep['hyp']:
            ctx.dist['outside-hyp'] += 1
            continue
        mres = rep['result']
        mcls = 'ok' if 'ok' in mres else mres['err'].split(':')[0]
        same = mcls == _cls(res)
        if c['target'] == 'file':
            same = same and rep['node'] == obs['after']
        else:
            same = same and rep['content'] == obs['content']
            if same and obs['pos'] is not None and c['stream'] != 'realfile' and 'ok' in mres:
                same = rep['pos'] == obs['pos']
        if not same:
            ctx.corr_break('c17.' + c['target'], case,
                           {'result': mres, 'node': str(rep.get('node'))[:200], 'content': str(rep.get('content'))[:200], 'pos': rep.get('pos')},
                           {'result': res, 'after': str(obs.get('after'))[:200], 'content': str(obs.get('content'))[:200], 'pos': obs.get('pos')})


def run(ctx, drv):
    ctx.notes['rule'] = RULE
    ctx.notes['assumptions'] = [
        'the content producer is the C07 model of dump(); its assumptions (numbers < 2^53, depth <= 100, URL oracle) apply',
        'file system = the one path write() is given: absent | file | directory, parent present or not; the harness '
        'runs as root, so permission denials are not exercised (open() fails for a directory or a missing/non-directory parent)',
        'a failure of f.write() after open() succeeded (disk full) is modelled (writeFault) but outside C17_file_atomic '
        'and not exercised on real files',
        'non-seekable streams are sinks that append; BytesIO semantics of seek/truncate/write are modelled',
    ]
    cases = gen_cases(ctx)
    for i in range(0, len(cases), 40000):
        evaluate(ctx, drv, cases[i:i + 40000])


def search(ctx, drv):
    cases = gen_cases(ctx, scale=2.0)
    for i in range(0, len(cases), 40000):
        evaluate(ctx, drv, cases[i:i + 40000])


def replay(ctx, drv, rp):
    c = dict(rp['case'])
    c.setdefault('labels', ['replay'])
    evaluate(ctx, drv, [c])
    return {'fails': bool(ctx.violations or ctx.corr_breaks), 'violations': ctx.violations, 'corr_breaks': ctx.corr_breaks}
