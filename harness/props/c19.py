"""
C19 — content-stream objects give history-independent answers.

Correspondence: the Lean model `Torf.Handles.run` (open-file table with offsets, abandonable
`iter_pieces` generator, `get_piece`, `get_piece_hash`, `verify_piece`, `close`, context exit) is
run on the same operation history as one real `TorrentFileStream` object.  After EACH operation
the result (piece bytes / digest / bool / None / error kind) and the number of file descriptors of
the process that point into the content tree are compared with the model's answer, the
specification's answer (= the answer of a fresh object = chunks / slice of the concatenated
stream) and the size of the model's handle table.
"""
import glob
import hashlib
import itertools
import json
import os

from harness import common
from harness.gen import layouts
from harness.impl import content

MATCHERS = {}

RULE = ('case = (piece length, file sizes >= 1, handle cap, wrong stored hashes, history of '
        'operations on ONE TorrentFileStream object); operations: iterFull, iterAbandon k '
        '(k in 0..pieces+1), getPiece/getPieceHash/verifyPiece i (i in -1..pieces and beyond), '
        'close, with-block exit; every history ends with an extra close.  Exhaustive: all histories '
        'of length <= 2 over the full alphabet and length 3 over a reduced alphabet on fixed small '
        'layouts (3 files; 14 files > cap+1; cap 1); random: longer histories on random layouts of '
        '1..5 and 12..16 files.  non-trivial = the history contains a reading operation that '
        'actually opens/reads files and follows another such operation on the same object with no '
        'close in between; distinct = distinct (L, sizes, cap, wrong, history)')

READ_OPS = ('iterFull', 'iterAbandon', 'getPiece', 'getPieceHash', 'verifyPiece')


# ------------------------------------------------------------------------------------------
# real-code side (worker processes)

def _nfd(top):
    n = 0
    pre = top + os.sep
    for e in os.listdir('/proc/self/fd'):
        try:
            tgt = os.readlink('/proc/self/fd/' + e)
        except OSError:
            continue
        if tgt == top or tgt.startswith(pre):
            n += 1
    return n


def _kind(e):
    return type(e).__name__


def _do_op(tfs, op, top):
    """perform one operation; returns (result, max number of content fds seen while it ran)"""
    name, a = op[0], (op[1] if len(op) > 1 else None)
    peak = 0
    try:
        if name == 'iterFull':
            got, excs = [], []
            for (p, fp, exc) in tfs.iter_pieces():
                got.append(p)
                excs += [_kind(x) for x in exc]
                peak = max(peak, _nfd(top))
            res = ('pieces', got, excs)
        elif name == 'iterAbandon':
            it = tfs.iter_pieces()
            got, excs = [], []
            try:
                for _ in range(a):
                    (p, fp, exc) = next(it)
                    got.append(p)
                    excs += [_kind(x) for x in exc]
                    peak = max(peak, _nfd(top))
            except StopIteration:
                pass
            it.close()
            del it
            res = ('pieces', got, excs)
        elif name == 'getPiece':
            res = ('piece', tfs.get_piece(a))
        elif name == 'getPieceHash':
            res = ('digest', tfs.get_piece_hash(a))
        elif name == 'verifyPiece':
            res = ('bool', tfs.verify_piece(a))
        elif name == 'close':
            res = ('none', tfs.close())
        elif name == 'ctxExit':
            with tfs as x:
                assert x is tfs
            res = ('none', None)
        else:
            raise RuntimeError(f'unknown op {name}')
    except Exception as e:  # noqa  (error KIND is the observable)
        res = ('err', _kind(e))
    return res, peak


def stored_pieces(contents, L, wrong):
    stream = b''.join(contents)
    hs = [hashlib.sha1(stream[i:i + L]).digest() for i in range(0, len(stream), L)]
    for w in wrong:
        if 0 <= w < len(hs):
            hs[w] = bytes(b ^ 0xFF for b in hs[w])
    return b''.join(hs)


def _run_chunk(cases):
    torf = common.import_torf()
    from torf import _stream
    wd = common.worker_dir()
    out = []
    last_key, contents = None, None
    name = 'T'
    top = os.path.join(wd, name)
    for c in cases:
        L, sizes = c['L'], c['sizes']
        single = c.get('single', False)
        files = [{'path': p, 'size': s} for p, s in zip(c['paths'], sizes)]
        key = (L, tuple(sizes), json.dumps(c['paths']), c['cseed'], single)
        obs = {'rows': []}
        try:
            if key != last_key:
                contents = content.make_tree(wd, name, files, seed=c['cseed'], single=single)
                last_key = key
            t = content.make_torrent(torf, wd, name, files, L, single=single)
            t.metainfo['info']['pieces'] = stored_pieces(contents, L, c['wrong'])
            base = _nfd(top)
            tfs = _stream.TorrentFileStream(t)
            if c['cap'] != 10:
                tfs.max_open_files = c['cap']
            obs['cap_seen'] = tfs.max_open_files
            for op in c['ops']:
                res, peak = _do_op(tfs, op, top)
                obs['rows'].append({'res': res, 'nfd': _nfd(top) - base, 'peak': peak - base})
            tfs.close()
            del tfs
        except BaseException as e:  # noqa
            obs['exc'] = f'{type(e).__name__}: {e}'
        out.append((c, obs, contents))
    return out


# ------------------------------------------------------------------------------------------
# case generation

def npieces(L, sizes):
    return (sum(sizes) + L - 1) // L


def full_alphabet(np_):
    A = [['iterFull'], ['close'], ['ctxExit']]
    A += [['iterAbandon', k] for k in range(0, np_ + 2)]
    A += [['getPiece', i] for i in range(-1, np_ + 1)]
    A += [['getPieceHash', i] for i in sorted({0, np_ - 1, np_})]
    A += [['verifyPiece', i] for i in sorted({-np_ - 1, -1, 0, np_ - 1, np_})]
    return A


def reduced_alphabet(np_):
    mid = max(1, np_ // 2)
    A = [['iterFull'], ['close'], ['iterAbandon', 1], ['iterAbandon', mid + 1],
         ['getPiece', 0], ['getPiece', mid], ['getPiece', np_ - 1], ['verifyPiece', mid],
         ['getPiece', np_]]
    seen, out = set(), []
    for a in A:
        k = json.dumps(a)
        if k not in seen:
            seen.add(k)
            out.append(a)
    return out


def random_op(rng, np_):
    r = rng.random()
    if r < 0.18:
        return ['iterFull']
    if r < 0.42:
        return ['iterAbandon', rng.randint(0, np_ + 1)]
    if r < 0.64:
        return ['getPiece', rng.choice([rng.randint(-1, np_), rng.randint(0, max(0, np_ - 1))])]
    if r < 0.72:
        return ['getPieceHash', rng.randint(-1, np_)]
    if r < 0.86:
        return ['verifyPiece', rng.choice([rng.randint(-np_ - 1, np_ + 1), rng.randint(0, max(0, np_ - 1))])]
    if r < 0.94:
        return ['close']
    return ['ctxExit']


def random_layout(rng):
    L = rng.choice([2, 3, 3, 4, 5, 6, 7, 8])
    shape = rng.choice(['three', 'three', 'many', 'many', 'few', 'single'])
    if shape == 'three':
        sizes = [max(1, layouts.boundary_sizes(rng, L, 3)) for _ in range(3)]
    elif shape == 'many':
        n = rng.randint(12, 16)
        sizes = [rng.choice([1, 1, 2, max(1, L - 1), L, L + 1, rng.randint(1, 2 * L + 1)]) for _ in range(n)]
    elif shape == 'few':
        n = rng.randint(1, 5)
        sizes = [rng.randint(1, 3 * L) for _ in range(n)]
    else:
        sizes = [rng.randint(1, 4 * L)]
    return shape, L, sizes


def _mk(rng, L, sizes, ops, cap=10, wrong=(), nested=False, single=False, shape='fixed', lay=None):
    lay = lay or {}
    return {'L': L, 'sizes': list(sizes), 'cap': cap, 'wrong': sorted(wrong),
            'ops': [list(o) for o in ops] + [['close']],
            'paths': lay.get('paths') or layouts.paths_for(len(sizes), rng, nested),
            'cseed': lay.get('cseed', 0) or rng.randrange(1, 1 << 30),
            'single': single, 'shape': shape}


FIXED_QUICK = [
    # (L, sizes, cap, wrong)
    (2, [3, 1, 2], 10, ()),                                        # 3 files, 3 pieces
    (3, [2, 4, 2], 1, (1,)),                                       # cap 1: eviction with 3 files
    (4, [1, 2, 1, 1, 3, 1, 1, 2, 1, 1, 1, 2, 1, 1], 10, ()),       # 14 files > cap + 1, 5 pieces
]
FIXED_THOROUGH = FIXED_QUICK + [
    (3, [4, 4, 4], 10, (0,)),
    (5, [2, 2, 2], 10, ()),
    (2, [1, 1, 1], 0, ()),
    (4, [7, 1, 5], 2, (2,)),
    (3, [1, 1, 2, 1, 1, 1, 3, 1, 1, 1, 2, 1, 1, 1, 1, 1], 10, (3,)),
    (8, [3, 9, 1, 1, 1, 2, 1, 1, 1, 1, 4, 1, 1, 1, 8], 10, ()),
    (2, [5], 10, ()),
]


def gen_cases(ctx, scale=1.0):
    rng = ctx.rng
    cases = []
    # 0. the witnesses of the repaired defect D19a come first
    for ops in ([['iterFull'], ['iterFull']], [['getPiece', 1], ['iterFull']],
                [['iterAbandon', 1], ['iterFull'], ['getPiece', 0], ['iterAbandon', 2]]):
        cases.append(_mk(rng, 3, [2, 4, 2], ops, shape='corpus'))
    # 1. exhaustive short histories on fixed layouts
    fixed = FIXED_THOROUGH if ctx.thorough else FIXED_QUICK
    for n_lay, (L, sizes, cap, wrong) in enumerate(fixed):
        np_ = npieces(L, sizes)
        lay = {'paths': layouts.paths_for(len(sizes), rng, nested=(n_lay % 2 == 1)),
               'cseed': rng.randrange(1, 1 << 30)}
        A = full_alphabet(np_)
        R = reduced_alphabet(np_)
        hs = [[a] for a in A] + [[a, b] for a in A for b in A]
        hs += [list(h) for h in itertools.product(R, repeat=3)]
        if ctx.thorough and n_lay < 3:
            hs += [list(h) for h in itertools.product(R, repeat=4)]
        single = len(sizes) == 1
        for h in hs:
            cases.append(_mk(rng, L, sizes, h, cap=cap, wrong=wrong, single=single,
                             shape=f'exhaustive-{len(sizes)}files-cap{cap}', lay=lay))
    # 2. random longer histories on random layouts (a layout is shared by a batch of histories)
    n_rand = int(ctx.n(3000, 120000) * scale)
    per_layout = 8
    maxlen = 12 if ctx.thorough else 6
    for _ in range(max(1, n_rand // per_layout)):
        shape, L, sizes = random_layout(rng)
        np_ = npieces(L, sizes)
        single = shape == 'single' and rng.random() < 0.7
        if shape == 'single' and not single:
            shape = 'one-file-multifile-mode'
        lay = {'paths': layouts.paths_for(len(sizes), rng, nested=not single),
               'cseed': rng.randrange(1, 1 << 30)}
        cap = 10 if rng.random() < 0.7 else rng.choice([0, 1, 2, 3, 12])
        for _ in range(per_layout):
            wrong = [rng.randrange(np_)] if rng.random() < 0.3 else []
            ops = [random_op(rng, np_) for _ in range(rng.randint(2, maxlen))]
            cases.append(_mk(rng, L, sizes, ops, cap=cap, wrong=wrong, single=single,
                             shape='random-' + shape, lay=lay))
    return cases


# ------------------------------------------------------------------------------------------
# comparison

def _canon_model(out, contents):
    """model/spec answer (runs) -> the value the real call must return"""
    k = out['k']
    if k == 'pieces':
        return ('pieces', content.pieces_from_runs(out['v'], contents), [])
    if k == 'piece':
        return ('piece', content.pieces_from_runs([out['v']], contents)[0])
    if k == 'digest':
        b = content.pieces_from_runs([out['v']['of']], contents)[0]
        d = hashlib.sha1(b).digest()
        if out['v']['wrong']:
            d = bytes(x ^ 0xFF for x in d)
        return ('digest', d)
    if k == 'bool':
        return ('bool', out['v'])
    if k == 'none':
        return ('none', None)
    return ('err', out['v'])


def _canon_impl(res):
    res = tuple(res)
    if res[0] == 'pieces':
        return ('pieces', list(res[1]), list(res[2]))
    return (res[0], res[1])


def _short(v):
    if v[0] == 'pieces':
        return ['pieces', [(p.hex() if isinstance(p, (bytes, bytearray)) else p) for p in v[1][:8]], v[2][:3]]
    if isinstance(v[1], (bytes, bytearray)):
        return [v[0], v[1].hex()]
    return list(v)


def effective_reads(c, rows):
    """non-trivial rule: a reading op that opened/read files follows another one, no close between"""
    seen = False
    for op, r in zip(c['ops'], rows):
        if op[0] in ('close', 'ctxExit'):
            seen = False
        elif op[0] in READ_OPS:
            reads = r['m']['k'] != 'err' and not (op[0] == 'iterAbandon' and op[1] == 0)
            if reads and seen:
                return True
            seen = seen or reads
    return False


def case_view(c):
    return {k: c[k] for k in ('L', 'sizes', 'cap', 'wrong', 'ops', 'paths', 'cseed', 'single')}


def evaluate(ctx, drv, cases):
    reqs = [{'op': 'c19.history', 'L': c['L'], 'sizes': c['sizes'], 'cap': c['cap'],
             'wrong': c['wrong'],
             'ops': [({'op': o[0], 'a': o[1]} if len(o) > 1 else {'op': o[0]}) for o in c['ops']]}
            for c in cases]
    replies = drv.run(reqs)
    results = common.pmap(_run_chunk, common.split(cases, common.NPROC * 4))
    k = 0
    for chunk in results:
        for (c, obs, contents) in chunk:
            r = replies[k]
            k += 1
            hyp = r['hyp']
            key = (c['L'], tuple(c['sizes']), c['cap'], tuple(c['wrong']), json.dumps(c['ops']))
            ctx.case(key=key, nontrivial=effective_reads(c, r['rows']), kind=c['shape'])
            if len(c['sizes']) > c['cap'] + 1:
                ctx.dist['more-files-than-cap+1'] += 1
            if c['wrong']:
                ctx.dist['with-wrong-stored-hash'] += 1
            case = case_view(c)
            if 'exc' in obs:
                ctx.violation(f'history raised outside the operations: {obs["exc"]}', case, 'results', obs['exc'])
                continue
            if obs.get('cap_seen') != c['cap']:
                ctx.violation('max_open_files is not the documented default 10', case, c['cap'], obs.get('cap_seen'))
                continue
            ctx.sample({'case': case, 'model_rows': r['rows'][:3]})
            for n, (op, row, o) in enumerate(zip(c['ops'], r['rows'], obs['rows'])):
                m = _canon_model(row['m'], contents)
                s = m if row['s'] is None else _canon_model(row['s'], contents)
                i = _canon_impl(o['res'])
                where = {'step': n, 'op': op}
                if hyp and (row['s'] is not None or row['m']['k'] == 'err' and row['m']['v'] in ('closed-handle', 'fuel', 'AssertionError')):
                    ctx.machinery_error(f'model answer differs from the specification at step {n} although '
                                        'C19_independent / C19_spec are proved', case)
                    break
                if i != s:
                    ctx.violation(f'step {n} {op}: the answer depends on the history (differs from the answer of a '
                                  'fresh object = slice of the concatenated stream)',
                                  case, {**where, 'expected': _short(s)}, {**where, 'observed': _short(i)},
                                  finding_matchers=MATCHERS)
                    break
                bound = c['cap'] + 1
                if o['nfd'] > bound or o['peak'] > bound:
                    ctx.violation(f'step {n} {op}: more than max_open_files + 1 = {bound} content files open',
                                  case, {**where, 'max_open': bound},
                                  {**where, 'open_after': o['nfd'], 'peak_during': o['peak']},
                                  finding_matchers=MATCHERS)
                    break
                if op[0] in ('close', 'ctxExit') and o['nfd'] != 0:
                    ctx.violation(f'step {n} {op}: files are still open after close()/leaving the context',
                                  case, {**where, 'open_after': 0}, {**where, 'open_after': o['nfd']},
                                  finding_matchers=MATCHERS)
                    break
                if hyp and o['nfd'] != row['nopen']:
                    ctx.corr_break('c19.history:nopen', case, {**where, 'nopen': row['nopen']},
                                   {**where, 'nopen': o['nfd']})
                    break


def run(ctx, drv):
    ctx.notes['rule'] = RULE
    ctx.notes['assumptions'] = [
        'every file of the torrent is present with the recorded size (missing/mis-sized files: C10)',
        'no zero-length files and piece length >= 1: get_piece geometry with empty files is C11 (D11a); '
        'the model takes the geometry as a parameter, the driver instantiates it by plain arithmetic',
        'SHA-1 is a parameter H of the model; the harness applies real hashlib.sha1 to the model pieces; '
        'a wrong stored hash is the bitwise complement of the right one',
        'pairwise distinct file paths (the handle table is keyed by path)',
        'open files are observed through /proc/self/fd after each operation and after each item of an iteration',
        'the consumer of an abandoned iteration closes the generator (it.close(); del it); CPython generator semantics',
    ]
    cases = []
    for p in sorted(glob.glob(os.path.join(common.CORPUS_DIR, 'C19', '*.json'))):
        cc = json.load(open(p))
        cc.setdefault('shape', 'corpus')
        cases.append(cc)
    cases += gen_cases(ctx)
    evaluate(ctx, drv, cases)
    ctx.exhaustive = False


def search(ctx, drv):
    evaluate(ctx, drv, gen_cases(ctx, scale=3.0))


def replay(ctx, drv, rp):
    c = dict(rp['case'])
    c.setdefault('shape', 'replay')
    evaluate(ctx, drv, [c])
    return {'fails': bool(ctx.violations or ctx.corr_breaks), 'violations': ctx.violations,
            'correspondence_breaks': ctx.corr_breaks}
